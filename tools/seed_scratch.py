#!/usr/bin/env python3
"""Run checks against kept seeds on scratch COPIES of /repo's crate (nothing in /repo is touched, evidence is not rewritten).
usage: tools/seed_scratch.py [--props C01,C02|own|all] <seed-name>...      prints one line per (seed, property)"""
import concurrent.futures as cf
import json
import os
import shutil
import subprocess
import sys
import tempfile
from pathlib import Path

VERIF = Path(__file__).resolve().parent.parent


def one(name, props):
    d = VERIF / "seeded" / name
    meta = json.loads((d / "meta.json").read_text())
    if props == "own":
        pl = [meta["property"]]
    elif props == "all":
        pl = sorted(c["property_id"] for c in json.loads((VERIF / "MANIFEST.json").read_text())["checks"])
    else:
        pl = props.split(",")
    scratch = Path(tempfile.mkdtemp(prefix="csl-ss-%s-" % name))
    out = []
    try:
        subprocess.check_call(["rsync", "-a", "--exclude", "target", "--exclude", ".git", "/repo/rust", str(scratch) + "/"])
        a = subprocess.run(["git", "apply", "--whitespace=nowarn", str(d / "patch.diff")], cwd=str(scratch), stdout=subprocess.PIPE, stderr=subprocess.STDOUT, text=True)
        if a.returncode != 0:
            return [(name, "-", "patch does not apply: " + a.stdout[:150])]
        env = dict(os.environ, CSL_REPO=str(scratch), VERIF_OUT_DIR=str(scratch / "verif-out"), VERIF_TIER="quick", CSL_THOROUGH_COLD="0")
        for pid in pl:
            r = subprocess.run(["./check", pid, "--tier", "quick"], cwd=str(VERIF), env=env, stdout=subprocess.PIPE, stderr=subprocess.STDOUT, text=True)
            keys = [l.strip().split(" :: ")[0] for l in r.stdout.splitlines() if l.startswith("  ") and " :: " in l]
            tail = [l for l in r.stdout.splitlines() if not l.startswith("KNOWN-FINDING")][-1:] if r.returncode not in (0, 1) else []
            out.append((name, pid, "rc=%d %s %s" % (r.returncode, "; ".join(k[:140] for k in keys[:3]), tail[0][:200] if tail else "")))
    finally:
        shutil.rmtree(scratch, ignore_errors=True)
    return out


def main():
    args = sys.argv[1:]
    props = "own"
    if args and args[0] == "--props":
        props = args[1]
        args = args[2:]
    with cf.ThreadPoolExecutor(max_workers=4) as ex:
        for res in ex.map(lambda n: one(n, props), args):
            for name, pid, line in res:
                print("%-7s %-4s %s" % (name, pid, line), flush=True)


if __name__ == "__main__":
    main()
