#!/usr/bin/env python3
"""Detection matrix: apply every kept property-breaking change (/verif/seeded/*/patch.diff) to /repo's working tree, run every
claimed check, restore the tree, and record which checks report a VIOLATION.  Nothing is committed in /repo.

usage: tools/run_seeds.py [seed-dir-name ...]   (default: all)    writes /verif/seeded/MATRIX.json and prints a table
"""
import concurrent.futures as cf
import json
import os
import subprocess
import sys
from pathlib import Path

VERIF = Path(__file__).resolve().parent.parent
REPO = "/repo"


def claimed():
    m = json.loads((VERIF / "MANIFEST.json").read_text())
    return sorted(c["property_id"] for c in m["checks"])


def run_check(pid):
    r = subprocess.run(["./check", pid], cwd=str(VERIF), stdout=subprocess.PIPE, stderr=subprocess.STDOUT, text=True)
    keys = [l.strip().split(" :: ")[0] for l in r.stdout.splitlines() if l.startswith("  ") and " :: " in l]
    return pid, r.returncode, keys[:6]


def main():
    names = sys.argv[1:] or sorted(p.name for p in (VERIF / "seeded").iterdir() if (p / "patch.diff").exists())
    props = claimed()
    assert subprocess.run(["git", "-C", REPO, "status", "--porcelain", "--untracked-files=no"], stdout=subprocess.PIPE, text=True).stdout.strip() == "", "/repo has local modifications"
    out = {}
    mpath = VERIF / "seeded" / "MATRIX.json"
    if mpath.exists() and sys.argv[1:]:
        out = json.loads(mpath.read_text())
    for name in names:
        d = VERIF / "seeded" / name
        meta = json.loads((d / "meta.json").read_text())
        target = meta["property"]
        try:
            a = subprocess.run(["git", "-C", REPO, "apply", str(d / "patch.diff")], stdout=subprocess.PIPE, stderr=subprocess.STDOUT, text=True)
            if a.returncode != 0:
                out[name] = {"property": target, "error": "patch does not apply: " + a.stdout[:200]}
                print("%-8s patch does not apply" % name)
                continue
            # warm the fact cache once, then run all checks in parallel
            first = run_check(target if target in props else props[0])
            res = {first[0]: first}
            with cf.ThreadPoolExecutor(max_workers=12) as ex:
                for r in ex.map(run_check, [p for p in props if p != first[0]]):
                    res[r[0]] = r
        finally:
            subprocess.check_call(["git", "-C", REPO, "checkout", "--", "."])
        hit = sorted(p for p, (_, rc, _k) in res.items() if rc == 1)
        odd = sorted(p for p, (_, rc, _k) in res.items() if rc not in (0, 1))
        out[name] = {"property": target, "caught_by": hit, "own_check_catches": target in hit, "not_decided_rc": {p: res[p][1] for p in odd},
                     "keys": {p: res[p][2] for p in hit}, "summary": meta.get("summary", "")[:300]}
        print("%-8s target=%s caught_by=%s%s" % (name, target, ",".join(hit) or "-", (" undecided=" + ",".join(odd)) if odd else ""))
    mpath.write_text(json.dumps(out, indent=1))
    missed = [n for n, v in out.items() if not v.get("own_check_catches")]
    print("seeds: %d, caught by the targeted property's own check: %d, missed: %s" % (len(out), len(out) - len(missed), missed or "none"))


if __name__ == "__main__":
    main()
