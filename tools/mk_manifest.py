#!/usr/bin/env python3
"""Regenerates MANIFEST.json from tools/claims.json (claimed checks) + properties.jsonl (everything else -> not_applicable)."""
import json
from pathlib import Path
V = Path(__file__).resolve().parent.parent


def rules_suffix(pid):
    """the names of the rules the check evaluates today (from the latest evidence file), so the claim text cannot go stale"""
    p = V / "evidence" / (pid + ".json")
    if not p.exists():
        return ""
    try:
        ev = json.loads(p.read_text())
    except ValueError:
        return ""
    names = [r for r in ev["coverage"].get("rules", {}) if r != "CONTROL"]
    return " | Rules evaluated on every run (one line each in DESIGN.md Appendix E): " + ", ".join(names) + "."


props = [json.loads(l) for l in open(V / "properties.jsonl")]
claims = json.load(open(V / "tools" / "claims.json"))
checks = []
na = []
for p in props:
    pid = p["id"]
    c = claims["claimed"].get(pid)
    if c:
        checks.append({
            "property_id": pid,
            "quick_cmd": "./check %s --tier quick" % pid,
            "thorough_cmd": "./check %s --tier thorough" % pid,
            "evidence_file": "/verif/evidence/%s.json" % pid,
            "replay_cmd_template": "./check %s --replay {path}" % pid,
            "engine": c["engine"],
            "level_claimed": {"category": "other", "text": c["text"] + rules_suffix(pid), "design_ref": c.get("design_ref", "DESIGN.md section 4") + "; Appendix E"},
            "level_note": c["note"],
            "technique": c["technique"],
        })
    else:
        na.append({"property_id": pid, "reason": claims["not_applicable"].get(pid, "engine not built yet (DESIGN.md Appendix C)")})
m = {
    "version": 1,
    "setup_cmd": "cd /verif/engine/csl-facts && CARGO_NET_OFFLINE=true cargo build --release --offline",
    "hooks": {
        "guard": "cardano_serialization_lib_verif",
        "enable": "none needed: static analysis reads the type-checked program through a rustc_private driver (RUSTC_WORKSPACE_WRAPPER under cargo +nightly check --offline --lib); no hook exists in /repo",
        "baseline_off_cmd": "cd /repo/rust && cargo test --workspace --no-fail-fast --offline",
        "source_commits": [],
        "add_only": True,
    },
    "engines": claims["engines"],
    "checks": checks,
    "notes": claims.get("notes", ""),
    "not_applicable": na,
}
json.dump(m, open(V / "MANIFEST.json", "w"), indent=1)
print("claimed", [c["property_id"] for c in checks], "n/a", [n["property_id"] for n in na])
