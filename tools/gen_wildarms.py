#!/usr/bin/env python3
"""One-off generator of tables/wildarms.json from the current tree (review before committing)."""
import json, sys
sys.path.insert(0, "/verif/rules")
import facts, wildarms
F = facts.load()
def props_for(key, file):
    if key.startswith(("CertificatesBuilder::get_certificates_", "utils::internal_get_")):
        return ["C20"]
    if "burn_extra" in key:
        return ["C05", "C06"]
    if file.startswith("src/builders/") or key.startswith(("<Ed25519KeyHashes as std::convert::From<&NativeScript>", "Certificate::has_required_script_witness", "VotingProposal::has_script_hash")):
        return ["C18"] + (["C10"] if "get_plutus_witnesses" in key or "get_redeemers" in key else [])
    if key.startswith("FixedTransaction::"):
        return ["C04"]
    if key.startswith("utils::has_transaction_body_set_tag"):
        return ["C03"]
    if file == "src/protocol_types/address.rs" or key.startswith("PlutusData::from_address"):
        return ["C11"]
    return []
out = []
for fid, h in F.hir.items():
    if "/tests/" in h["file"]:
        continue
    for m in wildarms.matches_with_wild(F, fid):
        if not m["wild"]:
            continue
        key = F.key(fid)
        p = props_for(key, h["file"])
        if not p:
            continue
        out.append({"fn": key, "enum": m["enum"], "ordinal": m["ordinal"], "explicit": m["explicit"], "props": p, "why": "reference confirmed by reading on the pinned tree"})
json.dump({"comment": "Reference of explicitly handled variants for matches that also have a wildcard arm. Only removals are violations.", "entries": out}, open("/verif/tables/wildarms.json", "w"), indent=1)
print(len(out))
