#!/usr/bin/env python3
"""Apply a textual mutation (or a patch file) to /repo, run checks, restore. usage:
   try_mutant.py <props,comma> --patch file | --edit path 'old' 'new'"""
import subprocess, sys
props = sys.argv[1].split(",")
mode = sys.argv[2]
try:
    if mode == "--patch":
        subprocess.check_call(["git", "-C", "/repo", "apply", sys.argv[3]])
    else:
        path, old, new = sys.argv[3], sys.argv[4], sys.argv[5]
        s = open(path).read()
        assert s.count(old) == 1, "old occurs %d times" % s.count(old)
        open(path, "w").write(s.replace(old, new))
    for p in props:
        r = subprocess.run(["./check", p], cwd="/verif", stdout=subprocess.PIPE, text=True)
        lines = [l for l in r.stdout.splitlines() if not l.startswith("KNOWN-FINDING")]
        print("[%s] rc=%d  %s" % (p, r.returncode, " || ".join(l[:230] for l in lines[:4])))
finally:
    subprocess.check_call(["git", "-C", "/repo", "checkout", "--", "."])
