#!/usr/bin/env python3
"""Fold the output of tools/seed_scratch.py (one line per seed x property, scratch-copy runs) into seeded/MATRIX.json:
usage: tools/update_matrix_own.py <log>     lines: '<seed> <pid> rc=<n> <key>; <key>; ...'"""
import json
import re
import sys
from pathlib import Path

VERIF = Path(__file__).resolve().parent.parent
mp = VERIF / "seeded" / "MATRIX.json"
M = json.loads(mp.read_text())
for line in open(sys.argv[1]):
    m = re.match(r"^(\S+)\s+(C\d\d)\s+rc=(\d+)\s*(.*)$", line.rstrip("\n"))
    if not m:
        continue
    name, pid, rc, rest = m.group(1), m.group(2), int(m.group(3)), m.group(4)
    d = VERIF / "seeded" / name
    if not (d / "meta.json").exists():
        continue
    meta = json.loads((d / "meta.json").read_text())
    e = M.setdefault(name, {"property": meta["property"], "caught_by": [], "own_check_catches": False, "not_decided_rc": {}, "keys": {}, "summary": meta.get("summary", "")})
    keys = [k.strip() for k in rest.split(";") if "|" in k]
    cb = set(e.get("caught_by", []))
    if rc == 1 and keys:
        cb.add(pid)
        e.setdefault("keys", {})[pid] = keys[:6]
        e.setdefault("not_decided_rc", {}).pop(pid, None)
    else:
        cb.discard(pid)
        e.setdefault("keys", {}).pop(pid, None)
        if rc not in (0, 1):
            e.setdefault("not_decided_rc", {})[pid] = rc
    e["caught_by"] = sorted(cb)
    e["own_check_catches"] = meta["property"] in cb
    e["summary"] = meta.get("summary", e.get("summary", ""))
mp.write_text(json.dumps(M, indent=1, sort_keys=True))
own = sum(1 for v in M.values() if v.get("own_check_catches"))
print("seeds %d, caught by own check %d" % (len(M), own))
print("not caught by own:", sorted(k for k, v in M.items() if not v.get("own_check_catches")))
