#!/usr/bin/env python3
"""Apply a textual edit to a scratch COPY of /repo's crate and run checks on the copy (CSL_REPO). /repo is not touched.
usage: tools/try_edit_scratch.py C01,C02 <path relative to /repo> <file with old text> <file with new text>"""
import os
import shutil
import subprocess
import sys
import tempfile
from pathlib import Path

VERIF = Path(__file__).resolve().parent.parent
props, rel, oldf, newf = sys.argv[1].split(","), sys.argv[2], sys.argv[3], sys.argv[4]
scratch = Path(tempfile.mkdtemp(prefix="csl-edit-"))
try:
    subprocess.check_call(["rsync", "-a", "--exclude", "target", "--exclude", ".git", "/repo/rust", str(scratch) + "/"])
    p = scratch / rel
    s = p.read_text()
    old, new = Path(oldf).read_text(), Path(newf).read_text()
    assert s.count(old) == 1, "old text occurs %d times" % s.count(old)
    p.write_text(s.replace(old, new))
    b = subprocess.run(["cargo", "check", "--offline", "--lib"], cwd=str(scratch / "rust"), stdout=subprocess.PIPE, stderr=subprocess.STDOUT, text=True, env=dict(os.environ, CARGO_TARGET_DIR=str(scratch / "t")))
    if b.returncode != 0:
        print("DOES NOT COMPILE:\n" + "\n".join(l for l in b.stdout.splitlines() if l.startswith("error"))[:800])
        sys.exit(2)
    env = dict(os.environ, CSL_REPO=str(scratch), VERIF_OUT_DIR=str(scratch / "verif-out"), VERIF_TIER="quick", CSL_THOROUGH_COLD="0")
    for pid in props:
        r = subprocess.run(["./check", pid, "--tier", "quick"], cwd=str(VERIF), env=env, stdout=subprocess.PIPE, stderr=subprocess.STDOUT, text=True)
        lines = [l for l in r.stdout.splitlines() if not l.startswith("KNOWN-FINDING")]
        print("[%s] rc=%d  %s" % (pid, r.returncode, " || ".join(l[:200] for l in lines[:3])))
finally:
    shutil.rmtree(scratch, ignore_errors=True)
