#!/usr/bin/env python3
"""False-alarm probe: apply behaviour-preserving refactorings (diff files) to scratch COPIES of /repo's crate and run ALL checks.
Any VIOLATION (rc 1) on such a copy is a false alarm to be repaired in the rule; ANCHOR-LOST (rc 3) is an honest 'cannot decide'.
usage: tools/refac_scratch.py <diff>...     prints one line per (diff, property) whose rc != 0, and a summary line per diff"""
import concurrent.futures as cf
import json
import os
import shutil
import subprocess
import sys
import tempfile
from pathlib import Path

VERIF = Path(__file__).resolve().parent.parent
PROPS = sorted(c["property_id"] for c in json.loads((VERIF / "MANIFEST.json").read_text())["checks"])


def run(pid, env):
    r = subprocess.run(["./check", pid, "--tier", "quick"], cwd=str(VERIF), env=env, stdout=subprocess.PIPE, stderr=subprocess.STDOUT, text=True)
    keys = [l.strip().split(" :: ")[0] for l in r.stdout.splitlines() if l.startswith("  ") and " :: " in l]
    tail = [l for l in r.stdout.splitlines() if not l.startswith("KNOWN-FINDING")][-1:] if r.returncode not in (0, 1) else []
    return pid, r.returncode, keys[:3], (tail[0][:220] if tail else "")


def one(diff):
    name = "%s/%s" % (Path(diff).parent.name, Path(diff).stem)
    scratch = Path(tempfile.mkdtemp(prefix="csl-rf-"))
    out = []
    try:
        subprocess.check_call(["rsync", "-a", "--exclude", "target", "--exclude", ".git", "/repo/rust", str(scratch) + "/"])
        a = subprocess.run(["git", "apply", "--whitespace=nowarn", str(diff)], cwd=str(scratch), stdout=subprocess.PIPE, stderr=subprocess.STDOUT, text=True)
        if a.returncode != 0:
            return ["%-8s patch does not apply: %s" % (name, a.stdout[:120])]
        env = dict(os.environ, CSL_REPO=str(scratch), VERIF_OUT_DIR=str(scratch / "verif-out"), VERIF_TIER="quick", CSL_THOROUGH_COLD="0")
        res = [run(PROPS[0], env)]
        with cf.ThreadPoolExecutor(max_workers=6) as ex:
            res += list(ex.map(lambda p: run(p, env), PROPS[1:]))
        bad = [r for r in res if r[1] != 0]
        for pid, rc, keys, tail in bad:
            out.append("%-8s %s rc=%d %s %s" % (name, pid, rc, "; ".join(k[:150] for k in keys), tail))
        out.append("%-8s summary: %d checks, %d VIOLATION, %d cannot-decide" % (name, len(res), sum(1 for r in res if r[1] == 1), sum(1 for r in res if r[1] not in (0, 1))))
    finally:
        shutil.rmtree(scratch, ignore_errors=True)
    return out


def main():
    with cf.ThreadPoolExecutor(max_workers=2) as ex:
        for lines in ex.map(one, sys.argv[1:]):
            for l in lines:
                print(l, flush=True)


if __name__ == "__main__":
    main()
