#!/usr/bin/env python3
"""Re-verify a delivered property-breaking change in a fresh scratch worktree of /repo (outside /repo and /verif) and, if it holds,
keep it under /verif/seeded/<name>/.

usage: tools/verify_seed.py <delivery-dir> <name>
   delivery-dir holds patch.diff, seed_demo_*.rs, meta.json.   Conditions re-checked here, not taken from the sub-agent:
   1. patch applies to /repo HEAD;  2. the demonstration FAILS with the patch;  3. the whole existing lib suite passes with the patch
   (532 passed, 0 failed);  4. the demonstration PASSES without the patch.
"""
import json
import re
import shutil
import subprocess
import sys
from pathlib import Path

VERIF = Path(__file__).resolve().parent.parent


def sh(cmd, cwd, timeout=3600):
    r = subprocess.run(cmd, cwd=str(cwd), stdout=subprocess.PIPE, stderr=subprocess.STDOUT, text=True, timeout=timeout)
    return r.returncode, r.stdout


def main():
    src = Path(sys.argv[1])
    name = sys.argv[2]
    meta = json.loads((src / "meta.json").read_text())
    demos = sorted(src.glob("seed_demo_*.rs"))
    assert len(demos) == 1, "expected one demonstration file"
    demo = demos[0]
    wt = Path("/tmp/wtv") / name
    if wt.exists():
        subprocess.call(["git", "-C", "/repo", "worktree", "remove", "--force", str(wt)])
        shutil.rmtree(wt, ignore_errors=True)
    wt.parent.mkdir(parents=True, exist_ok=True)
    head = subprocess.check_output(["git", "-C", "/repo", "rev-parse", "--short", "HEAD"], text=True).strip()
    subprocess.check_call(["git", "-C", "/repo", "worktree", "add", "--detach", "-q", str(wt), "HEAD"])
    result = {"repo_commit": head, "worktree": str(wt) + " (removed)"}
    ok = False
    try:
        shutil.copy("/repo/rust/Cargo.lock", wt / "rust" / "Cargo.lock")
        rc, out = sh(["git", "apply", "--whitespace=nowarn", str(src / "patch.diff")], wt)
        if rc != 0:
            result["error"] = "patch does not apply: " + out[:300]
            return result, False
        touched = subprocess.check_output(["git", "-C", str(wt), "diff", "--name-only"], text=True).split()
        if any("/tests/" in t or not t.startswith("rust/src/") for t in touched):
            result["error"] = "patch touches tests or non-source files: %s" % touched
            return result, False
        (wt / "rust" / "tests").mkdir(exist_ok=True)
        shutil.copy(demo, wt / "rust" / "tests" / demo.name)
        tname = demo.stem
        rc1, out1 = sh(["cargo", "test", "--offline", "--test", tname], wt / "rust")
        result["demo_with_patch_rc"] = rc1
        result["demo_with_patch_tail"] = [l for l in out1.splitlines() if l.startswith("test result") or "error" in l[:8]][-2:]
        (wt / "rust" / "tests" / demo.name).rename(wt / demo.name)
        rc2, out2 = sh(["cargo", "test", "--offline", "--lib"], wt / "rust")
        line = [l for l in out2.splitlines() if l.startswith("test result")]
        result["suite_with_patch_rc"] = rc2
        result["suite_with_patch"] = line[-1] if line else out2[-300:]
        (wt / demo.name).rename(wt / "rust" / "tests" / demo.name)
        sh(["git", "checkout", "--", "rust/src"], wt)
        rc3, out3 = sh(["cargo", "test", "--offline", "--test", tname], wt / "rust")
        result["demo_without_patch_rc"] = rc3
        result["demo_without_patch_tail"] = [l for l in out3.splitlines() if l.startswith("test result")][-1:]
        m = re.search(r"(\d+) passed; (\d+) failed", result["suite_with_patch"])
        compiled = "could not compile" not in out1 and "could not compile" not in out3
        ok = compiled and rc1 != 0 and any("FAILED" in l for l in result["demo_with_patch_tail"]) and rc2 == 0 and m and int(m.group(1)) >= 532 and int(m.group(2)) == 0 and rc3 == 0
        return result, ok
    finally:
        subprocess.call(["git", "-C", "/repo", "worktree", "remove", "--force", str(wt)])
        shutil.rmtree(wt, ignore_errors=True)
        subprocess.call(["git", "-C", "/repo", "worktree", "prune"])
        if True:
            out_dir = VERIF / "seeded" / name
            result["verified"] = bool(ok)
            if ok:
                out_dir.mkdir(parents=True, exist_ok=True)
                shutil.copy(src / "patch.diff", out_dir / "patch.diff")
                shutil.copy(demo, out_dir / demo.name)
                keep = {k: meta.get(k) for k in ("property", "summary", "file", "function", "needs_to_manifest", "why_tests_pass")}
                keep["source"] = "independent sub-agent given only the property text and a scratch worktree (round 2)"
                keep["verified_by_me"] = result
                (out_dir / "meta.json").write_text(json.dumps(keep, indent=1))
            print(json.dumps({"name": name, "ok": bool(ok), "result": result}, indent=1))


if __name__ == "__main__":
    main()
