// triage: a Break inside a definite-length container, on byte-preserving paths. Prints only.
use cardano_serialization_lib::*;
#[test]
fn break_in_definite() {
    for (n, b) in [("PlutusData list 82 01 ff", vec![0x82u8, 0x01, 0xff]), ("PlutusData map a2 01 02 ff", vec![0xa2, 0x01, 0x02, 0xff]), ("PlutusData constr d8 79 82 01 ff", vec![0xd8, 0x79, 0x82, 0x01, 0xff])] {
        let r = PlutusData::from_bytes(b.clone());
        println!("{}: from_bytes -> {} ; to_bytes = {:?}", n, r.is_ok(), r.ok().map(|d| hex::encode(d.to_bytes())));
    }
    let r = PlutusList::from_bytes(vec![0x82, 0x01, 0xff]);
    println!("PlutusList 82 01 ff: from_bytes -> {} ; to_bytes = {:?}", r.is_ok(), r.ok().map(|d| hex::encode(d.to_bytes())));
    let r = TransactionInputs::from_bytes(vec![0x82, 0x82, 0x58, 0x20, 1,1,1,1,1,1,1,1,1,1,1,1,1,1,1,1,1,1,1,1,1,1,1,1,1,1,1,1,1,1,1,1, 0x00, 0xff]);
    println!("TransactionInputs 82 <input> ff: from_bytes -> {} ; to_bytes = {:?}", r.is_ok(), r.ok().map(|d| hex::encode(d.to_bytes())));
}
