// triage: Byron address of an unknown network: bech32 and JSON forms. Prints only.
use cardano_serialization_lib::*;
#[test]
fn byron_unknown_magic() {
    let k = Bip32PrivateKey::from_bip39_entropy(&[0u8; 32], &[]).to_public();
    for magic in [764824073u32, 1, 42] {
        let a = ByronAddress::icarus_from_key(&k, magic).to_address();
        let b = a.to_bech32(None);
        let j = a.to_json();
        println!("magic {}: network_id {:?} ; to_bech32(None) ok {} ; back equal {:?} ; to_json ok {} ; from_json(to_json) equal {:?}", magic, a.network_id().ok(), b.is_ok(), b.ok().map(|s| Address::from_bech32(&s).unwrap() == a), j.is_ok(), j.ok().map(|s| Address::from_json(&s).unwrap() == a));
    }
}
