// triage: list / constr datum built through the API vs decoded from its own bytes, in one witness set. Prints only.
use cardano_serialization_lib::*;
#[test]
fn datum_list_identity() {
    let mut l = PlutusList::new();
    l.add(&PlutusData::new_integer(&BigInt::from_str("1").unwrap()));
    let api = PlutusData::new_list(&l);
    let dec = PlutusData::from_bytes(api.to_bytes()).unwrap();
    let mut both = PlutusList::new();
    both.add(&api);
    both.add(&dec);
    let mut ws = TransactionWitnessSet::new();
    ws.set_plutus_data(&both);
    println!("api bytes {} ; decoded bytes {} ; witness set = {}", hex::encode(api.to_bytes()), hex::encode(dec.to_bytes()), hex::encode(ws.to_bytes()));
    println!("plutus_data len = {}", ws.plutus_data().unwrap().len());
}
