use cardano_serialization_lib::*;
#[test]
fn nint_writer() {
    let cases = [
        ("-1", "20"), ("-24", "37"), ("-25", "3818"), ("-256", "38ff"), ("-257", "390100"), ("-65536", "39ffff"), ("-65537", "3a00010000"),
        ("-4294967296", "3affffffff"), ("-4294967297", "3b0000000100000000"),
        ("-9223372036854775807", "3b7ffffffffffffffe"), ("-9223372036854775808", "3b7fffffffffffffff"), ("-9223372036854775809", "3b8000000000000000"),
        ("-18446744073709551615", "3bfffffffffffffffe"), ("-18446744073709551616", "3bffffffffffffffff"),
    ];
    for (s, hex) in cases.iter() {
        if *s != "-18446744073709551616" {
            let i = Int::from_str(s).unwrap();
            assert_eq!(hex::encode(i.to_bytes()), *hex, "Int {}", s);
            assert_eq!(Int::from_bytes(i.to_bytes()).unwrap().to_str(), *s);
        }
        let b = BigInt::from_str(s).unwrap();
        assert_eq!(hex::encode(b.to_bytes()), *hex, "BigInt {}", s);
        assert_eq!(BigInt::from_bytes(b.to_bytes()).unwrap().to_str(), *s);
    }
    // below the nint range BigInt switches to tag 3
    let b = BigInt::from_str("-18446744073709551617").unwrap();
    assert_eq!(hex::encode(b.to_bytes()), "c349010000000000000000");
    println!("all nint cases ok");
}
