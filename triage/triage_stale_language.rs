// triage: a Plutus input re-added as a key input leaves its language in the script data hash. Prints only.
use cardano_serialization_lib::*;

fn cfg() -> TransactionBuilderConfig {
    TransactionBuilderConfigBuilder::new()
        .fee_algo(&LinearFee::new(&BigNum::from(44u64), &BigNum::from(155381u64)))
        .pool_deposit(&BigNum::from(500000000u64)).key_deposit(&BigNum::from(2000000u64))
        .max_value_size(4000).max_tx_size(16000).coins_per_utxo_byte(&BigNum::from(4310u64))
        .ex_unit_prices(&ExUnitPrices::new(&UnitInterval::new(&BigNum::from(577u64), &BigNum::from(10000u64)), &UnitInterval::new(&BigNum::from(721u64), &BigNum::from(10000000u64))))
        .build().unwrap()
}
fn cms() -> Costmdls {
    let mut c = Costmdls::new();
    for (l, n) in [(Language::new_plutus_v1(), 1), (Language::new_plutus_v2(), 2), (Language::new_plutus_v3(), 3)] {
        let mut m = CostModel::new();
        m.set(0, &Int::new_i32(n)).unwrap();
        c.insert(&l, &m);
    }
    c
}
fn inp(b: u8, i: u32) -> TransactionInput { TransactionInput::new(&TransactionHash::from_bytes(vec![b; 32]).unwrap(), i) }
fn key_addr(b: u8) -> Address {
    EnterpriseAddress::new(0, &Credential::from_keyhash(&Ed25519KeyHash::from_bytes(vec![b; 28]).unwrap())).to_address()
}
fn witness(lang_v2: bool) -> PlutusWitness {
    let script = if lang_v2 { PlutusScript::new_v2(vec![1, 2, 3]) } else { PlutusScript::new(vec![1, 2, 3]) };
    let datum = PlutusData::new_integer(&BigInt::from_str("7").unwrap());
    let red = Redeemer::new(&RedeemerTag::new_spend(), &BigNum::from(0u64), &PlutusData::new_integer(&BigInt::from_str("1").unwrap()), &ExUnits::new(&BigNum::from(1u64), &BigNum::from(1u64)));
    PlutusWitness::new(&script, &datum, &red)
}
#[test]
fn stale_language() {
    let v = Value::new(&BigNum::from(5_000_000u64));
    // case A: V1 plutus input, plus input X first added as a V2 plutus input and then again as a key input
    let mut ib = TxInputsBuilder::new();
    ib.add_plutus_script_input(&witness(false), &inp(1, 0), &v);
    ib.add_plutus_script_input(&witness(true), &inp(2, 0), &v);
    ib.add_regular_input(&key_addr(9), &inp(2, 0), &v).unwrap();
    let mut tb = TransactionBuilder::new(&cfg());
    tb.set_inputs(&ib);
    tb.set_fee(&BigNum::from(200000u64));
    tb.calc_script_data_hash(&cms()).unwrap();
    let h_a = tb.build().unwrap().script_data_hash().map(|h| h.to_hex());
    let scripts_a = ib.get_plutus_input_scripts().map(|s| s.len());
    // control: X was only ever a key input
    let mut ib2 = TxInputsBuilder::new();
    ib2.add_plutus_script_input(&witness(false), &inp(1, 0), &v);
    ib2.add_regular_input(&key_addr(9), &inp(2, 0), &v).unwrap();
    let mut tb2 = TransactionBuilder::new(&cfg());
    tb2.set_inputs(&ib2);
    tb2.set_fee(&BigNum::from(200000u64));
    tb2.calc_script_data_hash(&cms()).unwrap();
    let h_b = tb2.build().unwrap().script_data_hash().map(|h| h.to_hex());
    let scripts_b = ib2.get_plutus_input_scripts().map(|s| s.len());
    println!("re-added: emitted plutus witnesses {:?} script_data_hash {:?}", scripts_a, h_a);
    println!("control : emitted plutus witnesses {:?} script_data_hash {:?}", scripts_b, h_b);
    println!("same emitted witnesses, same hash ? {}", h_a == h_b);
}
