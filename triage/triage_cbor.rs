// Runtime triage of suspected CBOR-writer defects. Prints results; no assertions.
// Run: cargo test --offline --test triage_cbor -- --nocapture --test-threads=1
#![allow(deprecated)]

use cardano_serialization_lib::*;

// ---------- tiny generic CBOR walker (independent of the library's reader) ----------

/// Reads a CBOR head at `pos`. Returns (major, additional-info, argument, position after head).
fn head(b: &[u8], pos: usize) -> Result<(u8, u8, u64, usize), String> {
    let ib = *b.get(pos).ok_or_else(|| format!("EOF at offset {} (wanted a CBOR head)", pos))?;
    let major = ib >> 5;
    let ai = ib & 0x1f;
    let (arg, next) = match ai {
        0..=23 => (ai as u64, pos + 1),
        24 | 25 | 26 | 27 => {
            let n = 1usize << (ai - 24);
            if pos + 1 + n > b.len() {
                return Err(format!("EOF inside head argument at offset {}", pos));
            }
            let mut v = 0u64;
            for i in 0..n {
                v = (v << 8) | b[pos + 1 + i] as u64;
            }
            (v, pos + 1 + n)
        }
        31 => (0, pos + 1),
        _ => return Err(format!("reserved additional info {} at offset {}", ai, pos)),
    };
    Ok((major, ai, arg, next))
}

/// Skips exactly one well-formed CBOR data item starting at `pos`; returns the offset after it.
fn skip_item(b: &[u8], pos: usize) -> Result<usize, String> {
    let (major, ai, arg, mut p) = head(b, pos)?;
    match major {
        0 | 1 => Ok(p),
        2 | 3 => {
            if ai == 31 {
                loop {
                    if *b.get(p).ok_or_else(|| format!("EOF at offset {} in indefinite string", p))? == 0xff {
                        return Ok(p + 1);
                    }
                    p = skip_item(b, p)?;
                }
            }
            let end = p + arg as usize;
            if end > b.len() {
                return Err(format!("EOF: string at offset {} needs {} bytes, only {} left", pos, arg, b.len() - p));
            }
            Ok(end)
        }
        4 | 5 => {
            let mult = if major == 5 { 2 } else { 1 };
            if ai == 31 {
                loop {
                    if *b.get(p).ok_or_else(|| format!("EOF at offset {} in indefinite container", p))? == 0xff {
                        return Ok(p + 1);
                    }
                    p = skip_item(b, p)?;
                }
            }
            for i in 0..(arg * mult) {
                p = skip_item(b, p).map_err(|e| {
                    format!(
                        "{} at offset {} declares {} {} (= {} items), item #{} missing: {}",
                        if major == 5 { "map" } else { "array" }, pos, arg,
                        if major == 5 { "pairs" } else { "elements" }, arg * mult, i + 1, e
                    )
                })?;
            }
            Ok(p)
        }
        6 => skip_item(b, p),
        7 => {
            if ai == 31 {
                Err(format!("unexpected break at offset {}", pos))
            } else {
                Ok(p)
            }
        }
        _ => unreachable!(),
    }
}

/// For a buffer that starts with a definite array/map head: returns
/// (declared item count, number of complete items that actually follow until EOF, leftover bytes, offsets of items).
fn count_top_level(b: &[u8]) -> (u64, u64, usize, Vec<(usize, usize)>) {
    let (major, _ai, arg, mut p) = head(b, 0).unwrap();
    let declared = if major == 5 { arg * 2 } else { arg };
    let mut found = 0u64;
    let mut spans = Vec::new();
    while p < b.len() {
        match skip_item(b, p) {
            Ok(n) => {
                spans.push((p, n));
                p = n;
                found += 1;
            }
            Err(_) => break,
        }
    }
    (declared, found, b.len() - p, spans)
}

fn whole_item_check(b: &[u8]) -> String {
    match skip_item(b, 0) {
        Ok(n) if n == b.len() => "well-formed single CBOR item".to_string(),
        Ok(n) => format!("item ends at {} but buffer has {} bytes ({} trailing)", n, b.len(), b.len() - n),
        Err(e) => format!("MALFORMED: {}", e),
    }
}

// ---------- (1) HeaderBody ----------

fn mk_header_body_vrf_result(use_new_headerbody: bool) -> HeaderBody {
    let prev = BlockHash::from_bytes(vec![1u8; 32]).unwrap();
    let issuer = Vkey::new(&PublicKey::from_bytes(&[7u8; 32]).unwrap());
    let vrf_vkey = VRFVKey::from_bytes(vec![2u8; 32]).unwrap();
    let vrf_cert = VRFCert::new(vec![3u8; 32], vec![0u8; 80]).unwrap();
    let body_hash = BlockHash::from_bytes(vec![4u8; 32]).unwrap();
    let opcert = OperationalCert::new(
        &KESVKey::from_bytes(vec![5u8; 32]).unwrap(),
        123,
        456,
        &Ed25519Signature::from_bytes(vec![6u8; 64]).unwrap(),
    );
    let pv = ProtocolVersion::new(12, 13);
    if use_new_headerbody {
        HeaderBody::new_headerbody(
            123,
            &BigNum::from(123u64),
            Some(prev),
            &issuer,
            &vrf_vkey,
            &vrf_cert,
            123456,
            &body_hash,
            &opcert,
            &pv,
        )
    } else {
        HeaderBody::new(
            123, 123, Some(prev), &issuer, &vrf_vkey, &vrf_cert, 123456, &body_hash, &opcert, &pv,
        )
    }
}

fn report_header_body(label: &str, bytes: &[u8]) {
    println!("[1] {} to_bytes() hex = {}", label, hex::encode(bytes));
    let (declared, found, leftover, _) = count_top_level(bytes);
    println!(
        "[1] {} first byte = 0x{:02x}; declared items = {}; complete items actually following = {}; leftover bytes = {}",
        label, bytes[0], declared, found, leftover
    );
    println!("[1] {} generic walk: {}", label, whole_item_check(bytes));
    match HeaderBody::from_bytes(bytes.to_vec()) {
        Ok(hb) => println!(
            "[1] {} HeaderBody::from_bytes => Ok (has_vrf_result={}, has_nonce_and_leader_vrf={})",
            label,
            hb.has_vrf_result(),
            hb.has_nonce_and_leader_vrf()
        ),
        Err(e) => println!("[1] {} HeaderBody::from_bytes => Err({})", label, e),
    }
}

#[test]
fn case1_header_body() {
    println!("==== (1) HeaderBody array length ====");
    let hb_a = mk_header_body_vrf_result(true);
    let bytes_a = hb_a.to_bytes();
    report_header_body("VrfResult(new_headerbody)", &bytes_a);

    let hb_b = mk_header_body_vrf_result(false);
    let bytes_b = hb_b.to_bytes();
    println!(
        "[1] VrfResult(new) has_vrf_result={} bytes identical to new_headerbody form: {}",
        hb_b.has_vrf_result(),
        bytes_a == bytes_b
    );
    report_header_body("VrfResult(new)", &bytes_b);

    // In this checkout BOTH public constructors build HeaderLeaderCertEnum::VrfResult, so the
    // NonceAndLeader form is only reachable by decoding. Build it by duplicating item #6 (the VRF cert)
    // of the bytes above so that 15 items really follow the 0x8f header, decode, and re-encode.
    let (_, _, _, spans) = count_top_level(&bytes_a);
    let (s, e) = spans[5];
    let mut spliced = Vec::new();
    spliced.extend_from_slice(&bytes_a[..e]);
    spliced.extend_from_slice(&bytes_a[s..e]);
    spliced.extend_from_slice(&bytes_a[e..]);
    println!("[1] NonceAndLeader input (hand-spliced, 15 items) generic walk: {}", whole_item_check(&spliced));
    match HeaderBody::from_bytes(spliced.clone()) {
        Ok(hb) => {
            println!(
                "[1] NonceAndLeader decoded: has_nonce_and_leader_vrf={} has_vrf_result={}",
                hb.has_nonce_and_leader_vrf(),
                hb.has_vrf_result()
            );
            let out = hb.to_bytes();
            println!("[1] NonceAndLeader re-encoded == input: {}", out == spliced);
            report_header_body("NonceAndLeader", &out);
        }
        Err(e) => println!("[1] NonceAndLeader decode failed: {}", e),
    }

    // Effect when the VrfResult header body is embedded in a Header [header_body, kes_signature]:
    // a generic reader takes the KES signature as the 15th element of the header body.
    let mut header = vec![0x82u8];
    header.extend_from_slice(&bytes_a);
    let kes = vec![9u8; 448];
    header.extend_from_slice(&[0x59, 0x01, 0xc0]);
    header.extend_from_slice(&kes);
    println!("[1] Header [VrfResult header_body, kes_sig(448)] generic walk: {}", whole_item_check(&header));
    match Header::from_bytes(header.clone()) {
        Ok(h) => {
            let re = h.to_bytes();
            println!("[1] Header::from_bytes => Ok; re-encoded == input: {}; generic walk of re-encoded: {}", re == header, whole_item_check(&re));
        }
        Err(e) => println!("[1] Header::from_bytes => Err({})", e),
    }
}

// ---------- (3) NativeScripts: public surface only ----------

#[test]
fn case3_native_scripts_public() {
    println!("==== (3) NativeScripts with the same script twice (public API paths) ====");
    let kh = Ed25519KeyHash::from_bytes(vec![0x11u8; 28]).unwrap();
    let s = NativeScript::new_script_pubkey(&ScriptPubkey::new(&kh));
    let mut ns = NativeScripts::new();
    ns.add(&s);
    ns.add(&s);
    println!("[3] NativeScripts.len() after adding the same script twice = {}", ns.len());
    let b = ns.to_bytes();
    println!("[3] NativeScripts::to_bytes() = {}  ({})", hex::encode(&b), whole_item_check(&b));
    let mut ws = TransactionWitnessSet::new();
    ws.set_native_scripts(&ns);
    let wb = ws.to_bytes();
    println!("[3] TransactionWitnessSet{{native_scripts}}.to_bytes() = {}  ({})", hex::encode(&wb), whole_item_check(&wb));
}

// ---------- (4) TransactionWitnessSet writer ----------

#[test]
fn case4_witness_set() {
    println!("==== (4) TransactionWitnessSet map length ====");
    // 4a: a1 00 80 -> plain TransactionWitnessSet
    let input = hex::decode("a10080").unwrap();
    match TransactionWitnessSet::from_bytes(input.clone()) {
        Ok(ws) => {
            let out = ws.to_bytes();
            println!("[4a] TransactionWitnessSet::from_bytes(a10080).to_bytes() = {}  ({})", hex::encode(&out), whole_item_check(&out));
            println!("[4a] re-decode of that output: {}", match TransactionWitnessSet::from_bytes(out.clone()) {
                Ok(_) => "Ok".to_string(),
                Err(e) => format!("Err({})", e),
            });
            // same, embedded in a Transaction
            let mut tx = hex::decode("84a300818258200000000000000000000000000000000000000000000000000000000000000000000180020a").unwrap();
            tx.extend_from_slice(&input);
            tx.extend_from_slice(&[0xf5, 0xf6]);
            match Transaction::from_bytes(tx.clone()) {
                Ok(t) => {
                    let o = t.to_bytes();
                    println!("[4a] Transaction(84 <body> a10080 f5 f6).to_bytes() = {}", hex::encode(&o));
                    println!("[4a]   generic walk: {}", whole_item_check(&o));
                    println!("[4a]   re-decode: {}", match Transaction::from_bytes(o) { Ok(_) => "Ok".to_string(), Err(e) => format!("Err({})", e) });
                }
                Err(e) => println!("[4a] Transaction::from_bytes failed: {}", e),
            }
        }
        Err(e) => println!("[4a] from_bytes(a10080) failed: {}", e),
    }
    // also through the public setter (no decoding involved)
    let mut ws = TransactionWitnessSet::new();
    ws.set_vkeys(&Vkeywitnesses::new());
    let out = ws.to_bytes();
    println!("[4a'] TransactionWitnessSet::new() + set_vkeys(empty).to_bytes() = {}  ({})", hex::encode(&out), whole_item_check(&out));

    // 4b: FixedTransaction with witness set a1 01 80
    let body = hex::decode("a300818258200000000000000000000000000000000000000000000000000000000000000000000180020a").unwrap();
    for wit_hex in ["a10180", "a10280", "a10480", "a10580", "a200800180"] {
        let wit = hex::decode(wit_hex).unwrap();
        let mut tx = vec![0x84u8];
        tx.extend_from_slice(&body);
        tx.extend_from_slice(&wit);
        tx.extend_from_slice(&[0xf5, 0xf6]);
        println!("[4b] input tx ({}) generic walk: {}", wit_hex, whole_item_check(&tx));
        match FixedTransaction::from_bytes(tx.clone()) {
            Ok(ftx) => {
                let raw_ws = ftx.raw_witness_set();
                println!("[4b] wit={} FixedTransaction.raw_witness_set() = {}  ({})", wit_hex, hex::encode(&raw_ws), whole_item_check(&raw_ws));
                let out = ftx.to_bytes();
                println!("[4b] wit={} FixedTransaction.to_bytes() = {}", wit_hex, hex::encode(&out));
                println!("[4b]   == input: {}; generic walk: {}", out == tx, whole_item_check(&out));
                println!("[4b]   witness-set slice of to_bytes() = {}", hex::encode(&out[1 + body.len()..out.len() - 2]));
                println!("[4b]   FixedTransaction re-decode: {}", match FixedTransaction::from_bytes(out.clone()) { Ok(_) => "Ok".to_string(), Err(e) => format!("Err({})", e) });
                println!("[4b]   Transaction re-decode: {}", match Transaction::from_bytes(out) { Ok(_) => "Ok".to_string(), Err(e) => format!("Err({})", e) });
            }
            Err(e) => println!("[4b] wit={} FixedTransaction::from_bytes failed: {}", wit_hex, e),
        }
    }
}
