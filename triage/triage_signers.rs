// Runtime triage: are signers declared with `set_required_signers(..)` on a script
// source counted by `TransactionBuilder::full_size()` (mock vkey witnesses)?
//
// No assertions on purpose: prints a table.
// Run: cargo test --offline --test triage_signers -- --nocapture
#![allow(deprecated)]

use cardano_serialization_lib::*;

fn bn(x: u64) -> BigNum {
    BigNum::from(x)
}

fn new_tx_builder() -> TransactionBuilder {
    let cfg = TransactionBuilderConfigBuilder::new()
        .fee_algo(&LinearFee::new(&bn(44), &bn(155381)))
        .pool_deposit(&bn(500000000))
        .key_deposit(&bn(2000000))
        .max_value_size(4000)
        .max_tx_size(8000)
        .coins_per_utxo_byte(&bn(34482 / 8))
        .ex_unit_prices(&ExUnitPrices::new(
            &UnitInterval::new(&bn(577), &bn(10000)),
            &UnitInterval::new(&bn(721), &bn(10000000)),
        ))
        .ref_script_coins_per_byte(&UnitInterval::new(&bn(1), &bn(2)))
        .build()
        .unwrap();
    let mut b = TransactionBuilder::new(&cfg);
    // one key input so that the tx is well formed (this is 1 vkey in both variants)
    b.add_key_input(
        &key_hash(1),
        &TransactionInput::new(&tx_hash(1), 0),
        &Value::new(&bn(10_000_000)),
    );
    b.set_fee(&bn(200_000));
    b
}

fn key_hash(x: u8) -> Ed25519KeyHash {
    Ed25519KeyHash::from_bytes(vec![x; 28]).unwrap()
}

fn script_hash(x: u8) -> ScriptHash {
    ScriptHash::from_bytes(vec![x; 28]).unwrap()
}

fn tx_hash(x: u8) -> TransactionHash {
    TransactionHash::from_bytes(vec![x; 32]).unwrap()
}

fn declared_signers() -> Ed25519KeyHashes {
    let mut s = Ed25519KeyHashes::new();
    s.add(&key_hash(7));
    s.add(&key_hash(8));
    s
}

fn plutus_script() -> PlutusScript {
    // same bytes as src/tests/fakes.rs::fake_plutus_script
    let bytes: Vec<u8> = vec![
        0x4e, 0x4d, 0x01, 0x00, 0x00, 0x33, 0x22, 0x22, 0x20, 0x05, 0x12, 0x00, 0x12, 0x00, 0x11,
    ];
    PlutusScript::from_bytes_with_version(bytes, &Language::new_plutus_v2()).unwrap()
}

fn redeemer(tag: &RedeemerTag) -> Redeemer {
    Redeemer::new(
        tag,
        &bn(0),
        &PlutusData::new_empty_constr_plutus_data(&bn(0)),
        &ExUnits::new(&bn(0), &bn(0)),
    )
}

#[derive(Clone, Copy)]
enum PlutusKind {
    Inline,
    Ref,
}

/// returns (source, hash of the script the source stands for)
fn plutus_source(kind: PlutusKind, with_signers: bool) -> (PlutusScriptSource, ScriptHash) {
    let (mut src, hash) = match kind {
        PlutusKind::Inline => {
            let s = plutus_script();
            (PlutusScriptSource::new(&s), s.hash())
        }
        PlutusKind::Ref => {
            let h = script_hash(42);
            (
                PlutusScriptSource::new_ref_input(
                    &h,
                    &TransactionInput::new(&tx_hash(5), 0),
                    &Language::new_plutus_v2(),
                    15,
                ),
                h,
            )
        }
    };
    if with_signers {
        src.set_required_signers(&declared_signers());
    }
    (src, hash)
}

fn native_ref_source(with_signers: bool) -> (NativeScriptSource, ScriptHash) {
    let h = script_hash(43);
    let mut src = NativeScriptSource::new_ref_input(&h, &TransactionInput::new(&tx_hash(6), 0), 40);
    if with_signers {
        src.set_required_signers(&declared_signers());
    }
    (src, h)
}

/// inline native script `sig(keyhash 9)`; optionally with an explicit signer override
fn native_inline_source(with_signers: bool) -> (NativeScriptSource, ScriptHash) {
    let ns = NativeScript::new_script_pubkey(&ScriptPubkey::new(&key_hash(9)));
    let mut src = NativeScriptSource::new(&ns);
    if with_signers {
        src.set_required_signers(&declared_signers());
    }
    (src, ns.hash())
}

fn anchor() -> Anchor {
    Anchor::new(
        &URL::new("https://iohk.io".to_string()).unwrap(),
        &AnchorDataHash::from_bytes(vec![1u8; 32]).unwrap(),
    )
}

fn key_reward_address() -> RewardAddress {
    RewardAddress::new(
        NetworkInfo::testnet_preprod().network_id(),
        &Credential::from_keyhash(&key_hash(3)),
    )
}

fn script_reward_address(h: &ScriptHash) -> RewardAddress {
    RewardAddress::new(
        NetworkInfo::testnet_preprod().network_id(),
        &Credential::from_scripthash(h),
    )
}

// ---------------------------------------------------------------- cases

fn size_vote_plutus(kind: PlutusKind, with_signers: bool) -> Result<usize, String> {
    let (src, hash) = plutus_source(kind, with_signers);
    let wit = PlutusWitness::new_with_ref_without_datum(&src, &redeemer(&RedeemerTag::new_vote()));
    let voter = Voter::new_drep_credential(&Credential::from_scripthash(&hash));
    let mut vb = VotingBuilder::new();
    vb.add_with_plutus_witness(
        &voter,
        &GovernanceActionId::new(&tx_hash(2), 1),
        &VotingProcedure::new(VoteKind::No),
        &wit,
    )
    .map_err(|e| format!("{:?}", e))?;
    let mut b = new_tx_builder();
    b.set_voting_builder(&vb);
    b.full_size().map_err(|e| format!("{:?}", e))
}

fn size_vote_native_ref(with_signers: bool) -> Result<usize, String> {
    let (src, hash) = native_ref_source(with_signers);
    let voter = Voter::new_drep_credential(&Credential::from_scripthash(&hash));
    let mut vb = VotingBuilder::new();
    vb.add_with_native_script(
        &voter,
        &GovernanceActionId::new(&tx_hash(2), 1),
        &VotingProcedure::new(VoteKind::No),
        &src,
    )
    .map_err(|e| format!("{:?}", e))?;
    let mut b = new_tx_builder();
    b.set_voting_builder(&vb);
    b.full_size().map_err(|e| format!("{:?}", e))
}

fn size_mint_native(
    mk: fn(bool) -> (NativeScriptSource, ScriptHash),
    with_signers: bool,
) -> Result<usize, String> {
    let (src, _hash) = mk(with_signers);
    let wit = MintWitness::new_native_script(&src);
    let mut mb = MintBuilder::new();
    mb.add_asset(
        &wit,
        &AssetName::new(vec![1u8, 2, 3]).unwrap(),
        &Int::new_i32(5),
    )
    .map_err(|e| format!("{:?}", e))?;
    let mut b = new_tx_builder();
    b.set_mint_builder(&mb);
    b.full_size().map_err(|e| format!("{:?}", e))
}

fn size_mint_plutus(kind: PlutusKind, with_signers: bool) -> Result<usize, String> {
    let (src, _hash) = plutus_source(kind, with_signers);
    let wit = MintWitness::new_plutus_script(&src, &redeemer(&RedeemerTag::new_mint()));
    let mut mb = MintBuilder::new();
    mb.add_asset(
        &wit,
        &AssetName::new(vec![1u8, 2, 3]).unwrap(),
        &Int::new_i32(5),
    )
    .map_err(|e| format!("{:?}", e))?;
    let mut b = new_tx_builder();
    b.set_mint_builder(&mb);
    b.full_size().map_err(|e| format!("{:?}", e))
}

fn size_proposal_plutus(kind: PlutusKind, with_signers: bool) -> Result<usize, String> {
    let (src, hash) = plutus_source(kind, with_signers);
    let wit = PlutusWitness::new_with_ref_without_datum(
        &src,
        &redeemer(&RedeemerTag::new_voting_proposal()),
    );
    // parameter change action guarded by the (plutus) constitution/policy script
    let action = ParameterChangeAction::new_with_policy_hash(&ProtocolParamUpdate::new(), &hash);
    let proposal = VotingProposal::new(
        &GovernanceAction::new_parameter_change_action(&action),
        &anchor(),
        &key_reward_address(),
        &bn(1000),
    );
    let mut pb = VotingProposalBuilder::new();
    pb.add_with_plutus_witness(&proposal, &wit)
        .map_err(|e| format!("{:?}", e))?;
    let mut b = new_tx_builder();
    b.set_voting_proposal_builder(&pb);
    b.full_size().map_err(|e| format!("{:?}", e))
}

// siblings known to count declared signers

fn size_withdrawal_plutus(kind: PlutusKind, with_signers: bool) -> Result<usize, String> {
    let (src, hash) = plutus_source(kind, with_signers);
    let wit =
        PlutusWitness::new_with_ref_without_datum(&src, &redeemer(&RedeemerTag::new_reward()));
    let mut wb = WithdrawalsBuilder::new();
    wb.add_with_plutus_witness(&script_reward_address(&hash), &bn(1_000_000), &wit)
        .map_err(|e| format!("{:?}", e))?;
    let mut b = new_tx_builder();
    b.set_withdrawals_builder(&wb);
    b.full_size().map_err(|e| format!("{:?}", e))
}

fn size_withdrawal_native_ref(with_signers: bool) -> Result<usize, String> {
    let (src, hash) = native_ref_source(with_signers);
    let mut wb = WithdrawalsBuilder::new();
    wb.add_with_native_script(&script_reward_address(&hash), &bn(1_000_000), &src)
        .map_err(|e| format!("{:?}", e))?;
    let mut b = new_tx_builder();
    b.set_withdrawals_builder(&wb);
    b.full_size().map_err(|e| format!("{:?}", e))
}

fn size_cert_plutus(kind: PlutusKind, with_signers: bool) -> Result<usize, String> {
    let (src, hash) = plutus_source(kind, with_signers);
    let wit = PlutusWitness::new_with_ref_without_datum(&src, &redeemer(&RedeemerTag::new_cert()));
    let cert = Certificate::new_stake_deregistration(&StakeDeregistration::new(
        &Credential::from_scripthash(&hash),
    ));
    let mut cb = CertificatesBuilder::new();
    cb.add_with_plutus_witness(&cert, &wit)
        .map_err(|e| format!("{:?}", e))?;
    let mut b = new_tx_builder();
    b.set_certs_builder(&cb);
    b.full_size().map_err(|e| format!("{:?}", e))
}

fn size_baseline() -> Result<usize, String> {
    new_tx_builder().full_size().map_err(|e| format!("{:?}", e))
}

fn row(label: &str, without: Result<usize, String>, with: Result<usize, String>) {
    match (without, with) {
        (Ok(a), Ok(b)) => {
            let delta = b as i64 - a as i64;
            let verdict = if delta == 0 {
                "IGNORED"
            } else if delta >= 150 {
                "counted"
            } else {
                "??"
            };
            println!(
                "{:<44} without={:<5} with={:<5} delta={:<5} {}",
                label, a, b, delta, verdict
            );
        }
        (a, b) => println!("{:<44} ERROR without={:?} with={:?}", label, a, b),
    }
}

#[test]
fn triage_declared_signers_table() {
    use PlutusKind::*;
    println!();
    println!("==== declared-signers triage: TransactionBuilder::full_size() ====");
    println!(
        "baseline (1 key input only): {:?}; with 2 extra add_required_signer: {:?}",
        size_baseline(),
        {
            let mut b = new_tx_builder();
            b.add_required_signer(&key_hash(7));
            b.add_required_signer(&key_hash(8));
            b.full_size().map_err(|e| format!("{:?}", e))
        }
    );
    println!("-- suspected defects");
    row(
        "A  vote/plutus(inline script)",
        size_vote_plutus(Inline, false),
        size_vote_plutus(Inline, true),
    );
    row(
        "A  vote/plutus(ref input)",
        size_vote_plutus(Ref, false),
        size_vote_plutus(Ref, true),
    );
    row(
        "B  mint/native(ref input)",
        size_mint_native(native_ref_source, false),
        size_mint_native(native_ref_source, true),
    );
    row(
        "B  mint/plutus(inline script)",
        size_mint_plutus(Inline, false),
        size_mint_plutus(Inline, true),
    );
    row(
        "B  mint/plutus(ref input)",
        size_mint_plutus(Ref, false),
        size_mint_plutus(Ref, true),
    );
    row(
        "B' mint/native(inline sig(k9), override 2)",
        size_mint_native(native_inline_source, false),
        size_mint_native(native_inline_source, true),
    );
    row(
        "C  proposal/plutus(inline script)",
        size_proposal_plutus(Inline, false),
        size_proposal_plutus(Inline, true),
    );
    row(
        "C  proposal/plutus(ref input)",
        size_proposal_plutus(Ref, false),
        size_proposal_plutus(Ref, true),
    );
    println!("-- siblings (reference behaviour)");
    row(
        "S  withdrawal/plutus(inline script)",
        size_withdrawal_plutus(Inline, false),
        size_withdrawal_plutus(Inline, true),
    );
    row(
        "S  withdrawal/plutus(ref input)",
        size_withdrawal_plutus(Ref, false),
        size_withdrawal_plutus(Ref, true),
    );
    row(
        "S  withdrawal/native(ref input)",
        size_withdrawal_native_ref(false),
        size_withdrawal_native_ref(true),
    );
    row(
        "S  cert/plutus(inline script)",
        size_cert_plutus(Inline, false),
        size_cert_plutus(Inline, true),
    );
    row(
        "S  vote/native(ref input)",
        size_vote_native_ref(false),
        size_vote_native_ref(true),
    );
    println!("==== end ====");
}
