// triage: collateral return whose value is larger than max_value_size. Prints only.
use cardano_serialization_lib::*;
fn addr(b: u8) -> Address { EnterpriseAddress::new(0, &Credential::from_keyhash(&Ed25519KeyHash::from_bytes(vec![b; 28]).unwrap())).to_address() }
#[test]
fn colret_size() {
    let cfg = TransactionBuilderConfigBuilder::new()
        .fee_algo(&LinearFee::new(&BigNum::from(44u64), &BigNum::from(155381u64)))
        .pool_deposit(&BigNum::from(500000000u64)).key_deposit(&BigNum::from(2000000u64))
        .max_value_size(100).max_tx_size(16000).coins_per_utxo_byte(&BigNum::from(4310u64)).build().unwrap();
    let mut a = Assets::new();
    for i in 0..30u8 { a.insert(&AssetName::new(vec![i, i]).unwrap(), &BigNum::from(1u64)); }
    let mut ma = MultiAsset::new(); ma.insert(&ScriptHash::from_bytes(vec![9; 28]).unwrap(), &a);
    let mut v = Value::new(&BigNum::from(20_000_000u64)); v.set_multiasset(&ma);
    let mut col = TxInputsBuilder::new();
    col.add_regular_input(&addr(1), &TransactionInput::new(&TransactionHash::from_bytes(vec![1; 32]).unwrap(), 0), &v).unwrap();
    let mut tb = TransactionBuilder::new(&cfg);
    tb.set_collateral(&col);
    let r = tb.set_total_collateral_and_return(&BigNum::from(5_000_000u64), &addr(3));
    println!("set_total_collateral_and_return -> {:?}", r.map_err(|e| format!("{:?}", e)));
    let mut ret_v = Value::new(&BigNum::from(15_000_000u64)); ret_v.set_multiasset(&ma);
    let mut tb2 = TransactionBuilder::new(&cfg);
    tb2.set_collateral(&col);
    let r2 = tb2.set_collateral_return_and_total(&TransactionOutput::new(&addr(3), &ret_v));
    println!("set_collateral_return_and_total -> {:?} ; value size {} ; max_value_size 100 ; add_output of the same output -> {:?}", r2.map_err(|e| format!("{:?}", e)), ret_v.to_bytes().len(), tb2.add_output(&TransactionOutput::new(&addr(3), &ret_v)).map_err(|e| format!("{:?}", e)));
}
