// triage (build with --no-default-features): Plutus integer below i64::MIN to JSON. Prints only.
use cardano_serialization_lib::*;
#[test]
fn nodef() {
    for s in ["-9223372036854775808", "-9223372036854775809", "-18446744073709551616"] {
        let d = PlutusData::new_integer(&BigInt::from_str(s).unwrap());
        println!("{} -> {:?}", s, decode_plutus_datum_to_json_str(&d, PlutusDatumSchema::DetailedSchema).map_err(|e| format!("{:?}", e)));
    }
}
