// triage: does a change output exceed max_value_size once the rest of the ADA is added? Sweep, prints violations + summary.
use cardano_serialization_lib::*;
fn cfg(max_value: u32) -> TransactionBuilderConfig {
    TransactionBuilderConfigBuilder::new()
        .fee_algo(&LinearFee::new(&BigNum::from(44u64), &BigNum::from(155381u64)))
        .pool_deposit(&BigNum::from(500000000u64)).key_deposit(&BigNum::from(2000000u64))
        .max_value_size(max_value).max_tx_size(16000).coins_per_utxo_byte(&BigNum::from(4310u64)).build().unwrap()
}
fn addr(b: u8) -> Address { EnterpriseAddress::new(0, &Credential::from_keyhash(&Ed25519KeyHash::from_bytes(vec![b; 28]).unwrap())).to_address() }
#[test]
fn change_value_size() {
    let mut checked = 0u32; let mut bad = 0u32; let mut errs = 0u32;
    for max_value in [120u32, 150, 200, 300] {
        for n in 1usize..=30 {
            for name_len in [1usize, 2, 5] {
                for ada in [10_000_000u64, 4_294_967_296 + 50_000_000, 6_000_000_000] {
                    let mut ma = MultiAsset::new();
                    let mut a = Assets::new();
                    for i in 0..n { let mut nm = vec![i as u8; name_len]; nm[0] = i as u8; a.insert(&AssetName::new(nm).unwrap(), &BigNum::from(1u64)); }
                    ma.insert(&ScriptHash::from_bytes(vec![9; 28]).unwrap(), &a);
                    let mut v = Value::new(&BigNum::from(ada)); v.set_multiasset(&ma);
                    let mut tb = TransactionBuilder::new(&cfg(max_value));
                    if tb.add_regular_input(&addr(1), &TransactionInput::new(&TransactionHash::from_bytes(vec![1; 32]).unwrap(), 0), &v).is_err() { errs += 1; continue; }
                    tb.add_output(&TransactionOutput::new(&addr(2), &Value::new(&BigNum::from(2_000_000u64)))).unwrap();
                    match tb.add_change_if_needed(&addr(3)) {
                        Err(_) => { errs += 1; }
                        Ok(_) => {
                            let tx = match tb.build() { Ok(t) => t, Err(_) => { errs += 1; continue; } };
                            for o in 0..tx.outputs().len() {
                                let out = tx.outputs().get(o);
                                let sz = out.amount().to_bytes().len() as u32;
                                checked += 1;
                                if sz > max_value { bad += 1; if bad <= 8 { println!("VALUE max {} n {} name_len {} ada {}: output {} value size {} coin {:?}", max_value, n, name_len, ada, o, sz, out.amount().coin()); } }
                            }
                        }
                    }
                }
            }
        }
    }
    println!("SUMMARY outputs checked {} ; over max_value_size {} ; errs {}", checked, bad, errs);
}
