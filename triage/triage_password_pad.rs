use cardano_serialization_lib::*;
#[test]
fn triage() {
    let salt = "50515253c0c1c2c3c4c5c6c750515253c0c1c2c3c4c5c6c750515253c0c1c2c3";
    let nonce = "50515253c0c1c2c3c4c5c6c7";
    let data = "736f6d65206461746120746f20656e6372797074";
    let enc = encrypt_with_password("70617373776f7264", salt, nonce, data).unwrap();
    for pw in ["70617373776f7264", "70617373776f726400", "70617373776f72640000", "70617373776f726401"] {
        println!("{} -> {:?}", pw, decrypt_with_password(pw, &enc).map(|x| x == data));
    }
}
