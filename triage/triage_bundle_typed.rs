// triage: empty bundle / zero quantity through the typed API. Prints only.
use cardano_serialization_lib::*;
#[test]
fn bundle() {
    let mut ma = MultiAsset::new();
    ma.insert(&ScriptHash::from_bytes(vec![1; 28]).unwrap(), &Assets::new());
    let mut a = Assets::new();
    a.insert(&AssetName::new(vec![0x61]).unwrap(), &BigNum::from(0u64));
    ma.insert(&ScriptHash::from_bytes(vec![2; 28]).unwrap(), &a);
    let mut v = Value::new(&BigNum::from(2_000_000u64));
    v.set_multiasset(&ma);
    let out = TransactionOutput::new(&EnterpriseAddress::new(0, &Credential::from_keyhash(&Ed25519KeyHash::from_bytes(vec![7; 28]).unwrap())).to_address(), &v);
    println!("output = {}", hex::encode(out.to_bytes()));
}
