use cardano_serialization_lib::*;
fn cfg() -> TransactionBuilderConfig {
    TransactionBuilderConfigBuilder::new()
        .fee_algo(&LinearFee::new(&BigNum::from_str("44").unwrap(), &BigNum::from_str("155381").unwrap()))
        .pool_deposit(&BigNum::from_str("500000000").unwrap()).key_deposit(&BigNum::from_str("2000000").unwrap())
        .max_value_size(5000).max_tx_size(16384).coins_per_utxo_byte(&BigNum::from_str("4310").unwrap()).build().unwrap()
}
fn txin(b: u8, i: u32) -> TransactionInput { TransactionInput::new(&TransactionHash::from_bytes(vec![b; 32]).unwrap(), i) }
#[test]
fn byron_collateral_witness() {
    let key_addr = Address::from_bech32("addr_test1qpu5vlrf4xkxv2qpwngf6cjhtw542ayty80v8dyr49rf5ewvxwdrt70qlcpeeagscasafhffqsxy36t90ldv06wqrk2qum8x5w").unwrap();
    let other_key_addr = EnterpriseAddress::new(0, &Credential::from_keyhash(&Ed25519KeyHash::from_bytes(vec![9; 28]).unwrap())).to_address();
    let byron = ByronAddress::from_base58("Ae2tdPwUPEZ3MHKkpT5Bpj549vrRH7nBqYjNXnCV8G2Bc2YxNcGHEa8ykDp").unwrap().to_address();
    let sizes: Vec<(String, usize)> = [("no collateral", None), ("key collateral (new signer)", Some(other_key_addr)), ("byron collateral", Some(byron.clone()))].into_iter().map(|(n, col)| {
        let mut tb = TransactionBuilder::new(&cfg());
        let mut ins = TxInputsBuilder::new(); ins.add_regular_input(&key_addr, &txin(1, 0), &Value::new(&BigNum::from(10_000_000u64))).unwrap(); tb.set_inputs(&ins);
        if let Some(a) = col { let mut c = TxInputsBuilder::new(); c.add_regular_input(&a, &txin(2, 0), &Value::new(&BigNum::from(5_000_000u64))).unwrap(); tb.set_collateral(&c); }
        tb.set_fee(&BigNum::from(200_000u64));
        (n.to_string(), tb.full_size().unwrap())
    }).collect();
    for (n, s) in &sizes { println!("{:32} full_size = {}", n, s); }
    // same thing with the byron address as a regular input, to see what a bootstrap witness costs
    let mut tb = TransactionBuilder::new(&cfg());
    let mut ins = TxInputsBuilder::new(); ins.add_regular_input(&key_addr, &txin(1, 0), &Value::new(&BigNum::from(10_000_000u64))).unwrap(); ins.add_regular_input(&byron, &txin(2, 0), &Value::new(&BigNum::from(5_000_000u64))).unwrap(); tb.set_inputs(&ins);
    tb.set_fee(&BigNum::from(200_000u64));
    println!("{:32} full_size = {}", "byron as regular input", tb.full_size().unwrap());
}
