// triage: set_fee / set_min_fee after add_change_if_needed. Prints only.
use cardano_serialization_lib::*;
fn cfg() -> TransactionBuilderConfig {
    TransactionBuilderConfigBuilder::new()
        .fee_algo(&LinearFee::new(&BigNum::from(44u64), &BigNum::from(155381u64)))
        .pool_deposit(&BigNum::from(500000000u64)).key_deposit(&BigNum::from(2000000u64))
        .max_value_size(4000).max_tx_size(16000).coins_per_utxo_byte(&BigNum::from(4310u64)).build().unwrap()
}
fn addr(b: u8) -> Address { EnterpriseAddress::new(0, &Credential::from_keyhash(&Ed25519KeyHash::from_bytes(vec![b; 28]).unwrap())).to_address() }
fn builder() -> TransactionBuilder {
    let mut tb = TransactionBuilder::new(&cfg());
    tb.add_regular_input(&addr(1), &TransactionInput::new(&TransactionHash::from_bytes(vec![1; 32]).unwrap(), 0), &Value::new(&BigNum::from(10_000_000u64))).unwrap();
    tb.add_output(&TransactionOutput::new(&addr(2), &Value::new(&BigNum::from(5_000_000u64)))).unwrap();
    tb
}
#[test]
fn late_fee() {
    let mut tb = builder();
    tb.add_change_if_needed(&addr(3)).unwrap();
    let f: u64 = tb.get_fee_if_set().unwrap().into();
    tb.set_fee(&BigNum::from(f + 100_000));
    let r = tb.build_tx();
    println!("set_fee({}) after add_change_if_needed (computed fee {}): build_tx -> {:?}", f + 100_000, f, r.map(|t| { let x: u64 = t.body().fee().into(); x }).map_err(|e| format!("{:?}", e)));
    let mut tb = builder();
    tb.add_change_if_needed(&addr(3)).unwrap();
    tb.set_min_fee(&BigNum::from(f + 100_000));
    let r = tb.build_tx();
    println!("set_min_fee({}) after add_change_if_needed: build_tx -> {:?}", f + 100_000, r.map(|t| { let x: u64 = t.body().fee().into(); x }).map_err(|e| format!("{:?}", e)));
    // control: request first
    let mut tb = builder();
    tb.set_fee(&BigNum::from(f + 100_000));
    tb.add_change_if_needed(&addr(3)).unwrap();
    println!("control set_fee first: build_tx -> {:?}", tb.build_tx().map(|t| { let x: u64 = t.body().fee().into(); x }).map_err(|e| format!("{:?}", e)));
}
