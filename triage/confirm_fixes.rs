// Triage evidence only (not a check): every input that panicked on the pinned tree now yields Err.
use cardano_serialization_lib::*;

#[test]
fn f1_address_empty() {
    assert!(Address::from_bytes(vec![]).is_err());
    // address embedded as empty byte string inside an output is kept as malformed, not a panic
    let _ = TransactionOutput::from_bytes(vec![0x82, 0x40, 0x00]);
}
#[test]
fn f2_byron_outer_len() {
    assert!(Address::from_bytes(vec![0x83, 0, 0, 0]).is_err());
    assert!(ByronAddress::from_bytes(vec![0x83, 0, 0, 0]).is_err());
}
#[test]
fn f3_witness_break() {
    assert!(Vkeywitnesses::from_bytes(vec![0x9f, 0xf6, 0xff]).is_err());
    assert!(BootstrapWitnesses::from_bytes(vec![0x9f, 0xf6, 0xff]).is_err());
}
#[test]
fn f4_output_truncated_hash() {
    let mut b = vec![0x83, 0x58, 0x1d, 0x61];
    b.extend(std::iter::repeat(0u8).take(28));
    b.push(0x00);
    b.extend([0x58, 0x20]);
    b.extend(std::iter::repeat(0u8).take(10));
    assert!(TransactionOutput::from_bytes(b).is_err());
}
#[test]
fn f5_from_hex() {
    assert!(BigNum::from_hex("zz").is_err());
    assert!(Transaction::from_hex("0").is_err());
    assert_eq!(BigNum::from_hex("05").unwrap(), BigNum::from_str("5").unwrap());
}
#[test]
fn f6_node_schema() {
    assert!(encode_json_str_to_native_script("{}", "", ScriptSchema::Node).is_err());
}
#[test]
fn f7_xprv() {
    assert!(Bip32PrivateKey::from_128_xprv(&[0u8; 10]).is_err());
    assert!(Bip32PrivateKey::from_128_xprv(&[0u8; 127]).is_err());
}
#[test]
fn f8_int_from_str() {
    assert!(Int::from_str("-170141183460469231731687303715884105728").is_err());
    assert!(Int::from_str("-18446744073709551615").is_ok());
    assert!(Int::from_str("18446744073709551615").is_ok());
    assert!(Int::from_str("18446744073709551616").is_err());
}
#[test]
fn f9_metadata_i64_min() {
    let m = encode_json_str_to_metadatum("-9223372036854775808".to_string(), MetadataJsonSchema::NoConversions).unwrap();
    assert_eq!(m.as_int().unwrap().to_str(), "-9223372036854775808");
    let m = encode_json_str_to_metadatum("-5".to_string(), MetadataJsonSchema::NoConversions).unwrap();
    assert_eq!(m.as_int().unwrap().to_str(), "-5");
}
#[test]
fn f10_bech32_padding() {
    // checksum-valid bech32 with a single data symbol: 5 bits cannot regroup into bytes
    let s = bech32_one_symbol();
    assert!(ScriptHash::from_bech32(&s).is_err());
}
fn bech32_one_symbol() -> String {
    // bech32 encoder (BIP-173) for hrp "a" and data [0]
    const CH: &[u8] = b"qpzry9x8gf2tvdw0s3jn54khce6mua7l";
    fn polymod(v: &[u8]) -> u32 {
        let g = [0x3b6a57b2u32, 0x26508e6d, 0x1ea119fa, 0x3d4233dd, 0x2a1462b3];
        let mut chk = 1u32;
        for x in v {
            let b = chk >> 25;
            chk = ((chk & 0x1ffffff) << 5) ^ (*x as u32);
            for i in 0..5 { if (b >> i) & 1 == 1 { chk ^= g[i]; } }
        }
        chk
    }
    let hrp = b"a";
    let mut v: Vec<u8> = hrp.iter().map(|c| c >> 5).collect();
    v.push(0);
    v.extend(hrp.iter().map(|c| c & 31));
    let data = vec![0u8];
    v.extend(&data);
    v.extend([0u8; 6]);
    let pm = polymod(&v) ^ 1;
    let mut out = String::from("a1");
    for d in &data { out.push(CH[*d as usize] as char); }
    for i in 0..6 { out.push(CH[((pm >> (5 * (5 - i))) & 31) as usize] as char); }
    out
}
