// Triage evidence only (not a check): every input that panicked on the pinned tree now yields Err.
use cardano_serialization_lib::*;

#[test]
fn f1_address_empty() {
    assert!(Address::from_bytes(vec![]).is_err());
    // address embedded as empty byte string inside an output is kept as malformed, not a panic
    let _ = TransactionOutput::from_bytes(vec![0x82, 0x40, 0x00]);
}
#[test]
fn f2_byron_outer_len() {
    assert!(Address::from_bytes(vec![0x83, 0, 0, 0]).is_err());
    assert!(ByronAddress::from_bytes(vec![0x83, 0, 0, 0]).is_err());
}
#[test]
fn f3_witness_break() {
    assert!(Vkeywitnesses::from_bytes(vec![0x9f, 0xf6, 0xff]).is_err());
    assert!(BootstrapWitnesses::from_bytes(vec![0x9f, 0xf6, 0xff]).is_err());
}
#[test]
fn f4_output_truncated_hash() {
    let mut b = vec![0x83, 0x58, 0x1d, 0x61];
    b.extend(std::iter::repeat(0u8).take(28));
    b.push(0x00);
    b.extend([0x58, 0x20]);
    b.extend(std::iter::repeat(0u8).take(10));
    assert!(TransactionOutput::from_bytes(b).is_err());
}
#[test]
fn f5_from_hex() {
    assert!(BigNum::from_hex("zz").is_err());
    assert!(Transaction::from_hex("0").is_err());
    assert_eq!(BigNum::from_hex("05").unwrap(), BigNum::from_str("5").unwrap());
}
#[test]
fn f6_node_schema() {
    assert!(encode_json_str_to_native_script("{}", "", ScriptSchema::Node).is_err());
}
#[test]
fn f7_xprv() {
    assert!(Bip32PrivateKey::from_128_xprv(&[0u8; 10]).is_err());
    assert!(Bip32PrivateKey::from_128_xprv(&[0u8; 127]).is_err());
}
#[test]
fn f8_int_from_str() {
    assert!(Int::from_str("-170141183460469231731687303715884105728").is_err());
    assert!(Int::from_str("-18446744073709551615").is_ok());
    assert!(Int::from_str("18446744073709551615").is_ok());
    assert!(Int::from_str("18446744073709551616").is_err());
}
#[test]
fn f9_metadata_i64_min() {
    let m = encode_json_str_to_metadatum("-9223372036854775808".to_string(), MetadataJsonSchema::NoConversions).unwrap();
    assert_eq!(m.as_int().unwrap().to_str(), "-9223372036854775808");
    let m = encode_json_str_to_metadatum("-5".to_string(), MetadataJsonSchema::NoConversions).unwrap();
    assert_eq!(m.as_int().unwrap().to_str(), "-5");
}
#[test]
fn f10_bech32_padding() {
    // checksum-valid bech32 with a single data symbol: 5 bits cannot regroup into bytes
    let s = bech32_one_symbol();
    assert!(ScriptHash::from_bech32(&s).is_err());
}
fn bech32_one_symbol() -> String {
    // bech32 encoder (BIP-173) for hrp "a" and data [0]
    const CH: &[u8] = b"qpzry9x8gf2tvdw0s3jn54khce6mua7l";
    fn polymod(v: &[u8]) -> u32 {
        let g = [0x3b6a57b2u32, 0x26508e6d, 0x1ea119fa, 0x3d4233dd, 0x2a1462b3];
        let mut chk = 1u32;
        for x in v {
            let b = chk >> 25;
            chk = ((chk & 0x1ffffff) << 5) ^ (*x as u32);
            for i in 0..5 { if (b >> i) & 1 == 1 { chk ^= g[i]; } }
        }
        chk
    }
    let hrp = b"a";
    let mut v: Vec<u8> = hrp.iter().map(|c| c >> 5).collect();
    v.push(0);
    v.extend(hrp.iter().map(|c| c & 31));
    let data = vec![0u8];
    v.extend(&data);
    v.extend([0u8; 6]);
    let pm = polymod(&v) ^ 1;
    let mut out = String::from("a1");
    for d in &data { out.push(CH[*d as usize] as char); }
    for i in 0..6 { out.push(CH[((pm >> (5 * (5 - i))) & 31) as usize] as char); }
    out
}

// ---- second batch -------------------------------------------------------------------------------
#[test]
fn f11_set_body_hash() {
    let body1 = "a300818258203b40265111d8bb3c3c608d95b3a0bf83461ace32d79336579a1939b3aad1c0b700018182581d611c616f1acb460668a9b2f123c80372c2adad3583b9c6cd2b1deeed1c01021a00016f32";
    let body2 = "a300818258203b40265111d8bb3c3c608d95b3a0bf83461ace32d79336579a1939b3aad1c0b700018182581d611c616f1acb460668a9b2f123c80372c2adad3583b9c6cd2b1deeed1c02021a00016f32";
    let mut tx = FixedTransaction::new_from_body_bytes(&hex::decode(body1).unwrap()).unwrap();
    let h1 = tx.transaction_hash();
    tx.set_body(&hex::decode(body2).unwrap()).unwrap();
    let h2 = tx.transaction_hash();
    assert_ne!(h1.to_hex(), h2.to_hex());
    let fresh = FixedTransaction::new_from_body_bytes(&hex::decode(body2).unwrap()).unwrap();
    assert_eq!(h2.to_hex(), fresh.transaction_hash().to_hex());
}
#[test]
fn f12_int_as_negative() {
    let min = Int::from_bytes(vec![0x3b, 0xff, 0xff, 0xff, 0xff, 0xff, 0xff, 0xff, 0xff]).unwrap(); // -2^64
    assert_eq!(min.to_str(), "-18446744073709551616");
    assert!(min.as_negative().is_none());
    let m1 = Int::new_negative(&BigNum::from_str("18446744073709551615").unwrap());
    assert_eq!(m1.as_negative().unwrap().to_str(), "18446744073709551615");
}
#[test]
fn f13_mint_accumulation() {
    let mut mb = MintBuilder::new();
    let script = NativeScript::new_timelock_start(&TimelockStart::new_timelockstart(&BigNum::from_str("1").unwrap()));
    let w = MintWitness::new_native_script(&NativeScriptSource::new(&script));
    let name = AssetName::new(vec![1]).unwrap();
    let big = Int::new(&BigNum::from_str("18446744073709551615").unwrap());
    mb.add_asset(&w, &name, &big).unwrap();
    assert!(mb.add_asset(&w, &name, &big).is_err());
}
#[test]
fn f14_at_least_truncation() {
    let json = r#"{"cosigners":{"cosigner#0":"self"},"template":{"some":{"at_least":4294967297,"from":["cosigner#0"]}}}"#;
    let xpub = "1423856bc91c49e928f6f30f4e8d665d53eb4ab6028bd0ac971809d514c92db11423856bc91c49e928f6f30f4e8d665d53eb4ab6028bd0ac971809d514c92db1";
    assert!(encode_json_str_to_native_script(json, xpub, ScriptSchema::Wallet).is_err());
}
#[test]
fn f15_metadata_key_range() {
    let m = encode_json_str_to_metadatum(r#"{"170141183460469231731687303715884105727": 1}"#.to_string(), MetadataJsonSchema::BasicConversions).unwrap();
    let map = m.as_map().unwrap();
    let keys = map.keys();
    assert_eq!(keys.len(), 1);
    // out-of-range numeric key stays text, no out-of-range Int is produced
    assert!(keys.get(0).as_text().is_ok());
    let m2 = encode_json_str_to_metadatum(r#"{"-5": 1}"#.to_string(), MetadataJsonSchema::BasicConversions).unwrap();
    assert_eq!(m2.as_map().unwrap().keys().get(0).as_int().unwrap().to_str(), "-5");
}
#[test]
fn f16_byron_trailing() {
    let b = ByronAddress::from_base58("Ae2tdPwUPEZ4YjgvykNpoFeYUxoyhNj2kg8KfKWN2FizsSpLUPv68MpTVDo").unwrap();
    let mut bytes = b.to_bytes();
    assert!(Address::from_bytes(bytes.clone()).is_ok());
    assert!(ByronAddress::from_bytes(bytes.clone()).is_ok());
    bytes.push(0);
    assert!(ByronAddress::from_bytes(bytes.clone()).is_err());
    assert!(Address::from_bytes(bytes.clone()).is_err());
    // embedded: kept verbatim as malformed and written back unchanged
    let mut out = vec![0x82, 0x58, bytes.len() as u8];
    out.extend(&bytes);
    out.push(0x00);
    let o = TransactionOutput::from_bytes(out.clone()).unwrap();
    assert!(o.address().is_malformed());
    assert_eq!(o.address().to_bytes(), bytes);
}
