// triage: zero treasury donation (CDDL: ? 22 : positive_coin). Prints only.
use cardano_serialization_lib::*;
#[test]
fn donation_zero() {
    let mut body = TransactionBody::new_tx_body(&TransactionInputs::new(), &TransactionOutputs::new(), &BigNum::from(0u64));
    body.set_donation(&BigNum::from(0u64));
    println!("typed body with set_donation(0): {} donation() = {:?}", hex::encode(body.to_bytes()), body.donation());
    let cfg = TransactionBuilderConfigBuilder::new()
        .fee_algo(&LinearFee::new(&BigNum::from(44u64), &BigNum::from(155381u64)))
        .pool_deposit(&BigNum::from(500000000u64)).key_deposit(&BigNum::from(2000000u64))
        .max_value_size(4000).max_tx_size(8000).coins_per_utxo_byte(&BigNum::from(4310u64)).build().unwrap();
    let mut tb = TransactionBuilder::new(&cfg);
    tb.set_donation(&BigNum::from(0u64));
    tb.set_fee(&BigNum::from(0u64));
    let b = tb.build().unwrap();
    println!("builder body with set_donation(0): {}", hex::encode(b.to_bytes()));
}
