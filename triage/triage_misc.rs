// Runtime triage of five suspected defects. Observations only: these tests print, they do not
// assert on the suspected behaviour.
//
// cargo test --offline --test triage_misc -- --nocapture --test-threads 1
#![allow(deprecated)]

use cardano_serialization_lib::*;

const ADA: u64 = 1_000_000;

fn bn(x: u64) -> BigNum {
    BigNum::from(x)
}

fn u(x: &BigNum) -> u64 {
    x.into()
}

fn config_builder() -> TransactionBuilderConfigBuilder {
    TransactionBuilderConfigBuilder::new()
        .fee_algo(&LinearFee::new(&bn(44), &bn(155381)))
        .pool_deposit(&bn(500000000))
        .key_deposit(&bn(2000000))
        .max_value_size(4000)
        .max_tx_size(8000)
        .coins_per_utxo_byte(&bn(34482 / 8))
        .ex_unit_prices(&ExUnitPrices::new(
            &UnitInterval::new(&bn(577), &bn(10000)),
            &UnitInterval::new(&bn(721), &bn(10000000)),
        ))
}

fn builder_with_ref_price(num: u64, den: u64) -> TransactionBuilder {
    let cfg = config_builder()
        .ref_script_coins_per_byte(&UnitInterval::new(&bn(num), &bn(den)))
        .build()
        .unwrap();
    TransactionBuilder::new(&cfg)
}

fn key_hash(x: u8) -> Ed25519KeyHash {
    Ed25519KeyHash::from_bytes(vec![x; 28]).unwrap()
}

fn base_addr(x: u8) -> Address {
    BaseAddress::new(
        0,
        &Credential::from_keyhash(&key_hash(x)),
        &Credential::from_keyhash(&key_hash(x.wrapping_add(100))),
    )
    .to_address()
}

fn tx_in(hash_byte: u8, idx: u32) -> TransactionInput {
    TransactionInput::new(&TransactionHash::from_bytes(vec![hash_byte; 32]).unwrap(), idx)
}

fn utxo(hash_byte: u8, idx: u32, addr: &Address, lovelace: u64) -> TransactionUnspentOutput {
    TransactionUnspentOutput::new(
        &tx_in(hash_byte, idx),
        &TransactionOutput::new(addr, &Value::new(&bn(lovelace))),
    )
}

// ---------------------------------------------------------------------------------------------
// (a) RandomImprove with two identical outputs
// ---------------------------------------------------------------------------------------------

struct TrialStats {
    trials: usize,
    ok: usize,
    err: usize,
    ok_but_short: usize,
    max_shortfall: u64,
    example: Option<String>,
    err_example: Option<String>,
}

fn run_random_improve_trials(
    label: &str,
    out_amounts: &[u64],
    utxo_amounts: &[u64],
    trials: usize,
    strategy_multi: bool,
) -> TrialStats {
    let out_addr = base_addr(1);
    let in_addr = base_addr(2);
    let mut st = TrialStats {
        trials,
        ok: 0,
        err: 0,
        ok_but_short: 0,
        max_shortfall: 0,
        example: None,
        err_example: None,
    };
    for _ in 0..trials {
        let mut b = builder_with_ref_price(15, 1);
        for a in out_amounts {
            b.add_output(&TransactionOutput::new(&out_addr, &Value::new(&bn(*a))))
                .unwrap();
        }
        let mut offered = TransactionUnspentOutputs::new();
        for (i, a) in utxo_amounts.iter().enumerate() {
            offered.add(&utxo(0x10 + i as u8, i as u32, &in_addr, *a));
        }
        let strategy = if strategy_multi {
            CoinSelectionStrategyCIP2::RandomImproveMultiAsset
        } else {
            CoinSelectionStrategyCIP2::RandomImprove
        };
        match b.add_inputs_from(&offered, strategy) {
            Ok(()) => {
                st.ok += 1;
                let explicit = u(&b.get_explicit_input().unwrap().coin());
                let out = u(&b.get_total_output().unwrap().coin());
                let fee = u(&b.min_fee().unwrap());
                if explicit < out + fee {
                    st.ok_but_short += 1;
                    let short = out + fee - explicit;
                    if short > st.max_shortfall {
                        st.max_shortfall = short;
                    }
                    if st.example.is_none() {
                        let tx_inputs = b.get_explicit_input().unwrap();
                        st.example = Some(format!(
                            "explicit_input={} total_output={} min_fee={} need={} shortfall={} (explicit value json coin={})",
                            explicit,
                            out,
                            fee,
                            out + fee,
                            short,
                            tx_inputs.coin().to_str()
                        ));
                    }
                }
            }
            Err(e) => {
                st.err += 1;
                if st.err_example.is_none() {
                    st.err_example = Some(format!("{}", e));
                }
            }
        }
    }
    println!(
        "[a] {:<46} outputs={:?} utxos={:?} strategy={} trials={} ok={} err={} OK_BUT_UNDERFUNDED={} max_shortfall={}",
        label,
        out_amounts,
        utxo_amounts,
        if strategy_multi { "RandomImproveMultiAsset" } else { "RandomImprove" },
        st.trials,
        st.ok,
        st.err,
        st.ok_but_short,
        st.max_shortfall
    );
    if let Some(e) = &st.example {
        println!("[a]     first underfunded example: {}", e);
    }
    if let Some(e) = &st.err_example {
        println!("[a]     first error example: {}", e);
    }
    st
}

#[test]
fn a_random_improve_identical_outputs() {
    println!("\n================ (a) RandomImprove, identical outputs ================");
    let trials = 2000;
    let sets: Vec<Vec<u64>> = vec![
        vec![11 * ADA, 11 * ADA, 2 * ADA, 2 * ADA, 1 * ADA],
        vec![10 * ADA, 10 * ADA, 1 * ADA, 1 * ADA, 1 * ADA],
        vec![10 * ADA, 10 * ADA],
        vec![5 * ADA, 5 * ADA, 5 * ADA, 5 * ADA, 1 * ADA, 1 * ADA],
    ];
    for s in &sets {
        run_random_improve_trials("IDENTICAL outputs 10 ADA + 10 ADA", &[10 * ADA, 10 * ADA], s, trials, false);
        run_random_improve_trials(
            "CONTROL outputs 10 ADA + (10 ADA + 1 lovelace)",
            &[10 * ADA, 10 * ADA + 1],
            s,
            trials,
            false,
        );
    }
    // same through the multi-asset flavour of the strategy (same function, pure_ada=false)
    run_random_improve_trials(
        "IDENTICAL outputs (MultiAsset strategy)",
        &[10 * ADA, 10 * ADA],
        &sets[1],
        trials,
        true,
    );
    run_random_improve_trials(
        "CONTROL outputs (MultiAsset strategy)",
        &[10 * ADA, 10 * ADA + 1],
        &sets[1],
        trials,
        true,
    );
    // three identical outputs
    run_random_improve_trials(
        "THREE IDENTICAL outputs 10 ADA x3",
        &[10 * ADA, 10 * ADA, 10 * ADA],
        &[10 * ADA, 10 * ADA, 10 * ADA, 1 * ADA, 1 * ADA, 1 * ADA],
        trials,
        false,
    );
}

// ---------------------------------------------------------------------------------------------
// (b) fee_for_input vs reference scripts
// ---------------------------------------------------------------------------------------------

fn script_ref_utxo(hash_byte: u8, addr: &Address, lovelace: u64, script_len: usize) -> TransactionUnspentOutput {
    let script = PlutusScript::new_v2(vec![1u8; script_len]);
    let mut out = TransactionOutput::new(addr, &Value::new(&bn(lovelace)));
    out.set_script_ref(&ScriptRef::new_plutus_script(&script));
    TransactionUnspentOutput::new(&tx_in(hash_byte, 0), &out)
}

fn observe_b(label: &str, utxo_lovelace: u64, script_len: usize, strategy: CoinSelectionStrategyCIP2, with_filler: bool) {
    let out_addr = base_addr(1);
    let in_addr = base_addr(2);
    let mut b = builder_with_ref_price(15, 1);
    b.add_output(&TransactionOutput::new(&out_addr, &Value::new(&bn(5 * ADA))))
        .unwrap();
    let mut offered = TransactionUnspentOutputs::new();
    let su = script_ref_utxo(0x21, &in_addr, utxo_lovelace, script_len);
    offered.add(&su);
    if with_filler {
        // extra small utxos that a correct selection could use to cover the fee
        offered.add(&utxo(0x22, 0, &in_addr, 1 * ADA));
        offered.add(&utxo(0x23, 0, &in_addr, 1 * ADA));
    }
    let fee_before = u(&b.min_fee().unwrap());
    let res = b.add_inputs_from(&offered, strategy);
    match res {
        Ok(()) => {
            let explicit = u(&b.get_explicit_input().unwrap().coin());
            let out = u(&b.get_total_output().unwrap().coin());
            let fee = u(&b.min_fee().unwrap());
            println!(
                "[b] {:<40} utxo={} script_len={} filler={} -> add_inputs_from=Ok min_fee_before={} | explicit_input={} total_output={} min_fee={} need={} covered={} shortfall={}",
                label,
                utxo_lovelace,
                script_len,
                with_filler,
                fee_before,
                explicit,
                out,
                fee,
                out + fee,
                explicit >= out + fee,
                (out + fee).saturating_sub(explicit)
            );
            // what happens afterwards
            let mut b2 = b.clone();
            match b2.add_change_if_needed(&base_addr(3)) {
                Ok(ch) => println!(
                    "[b]     add_change_if_needed -> Ok({}) fee_set={:?}; build_tx -> {}",
                    ch,
                    b2.get_fee_if_set().map(|f| f.to_str()),
                    match b2.build_tx() {
                        Ok(_) => "Ok".to_string(),
                        Err(e) => format!("Err({})", e),
                    }
                ),
                Err(e) => println!("[b]     add_change_if_needed -> Err({})", e),
            }
        }
        Err(e) => {
            println!(
                "[b] {:<40} utxo={} script_len={} filler={} -> add_inputs_from=Err({})",
                label, utxo_lovelace, script_len, with_filler, e
            );
        }
    }
}

#[test]
fn b_fee_for_input_ref_script() {
    println!("\n================ (b) fee_for_input vs script_ref ================");
    let in_addr = base_addr(2);
    let out_addr = base_addr(1);
    let script_len = 10_000usize;

    // marginal fee as reported by fee_for_input vs real min_fee delta
    let su = script_ref_utxo(0x21, &in_addr, 5_200_000, script_len);
    let mut probe = builder_with_ref_price(15, 1);
    probe
        .add_output(&TransactionOutput::new(&out_addr, &Value::new(&bn(5 * ADA))))
        .unwrap();
    let reported = u(&probe
        .fee_for_input(&su.output().address(), &su.input(), &su.output().amount())
        .unwrap());
    let fee0 = u(&probe.min_fee().unwrap());
    let mut ib = TxInputsBuilder::new();
    ib.add_regular_utxo(&su).unwrap();
    probe.set_inputs(&ib);
    let fee1 = u(&probe.min_fee().unwrap());
    println!(
        "[b] script_ref unwrapped size = {} bytes; ref_script_coins_per_byte=15/1",
        su.output().script_ref().unwrap().to_unwrapped_bytes().len()
    );
    println!(
        "[b] fee_for_input(utxo)={}  vs  min_fee before={} after add_regular_utxo={} real_delta={}  (difference={})",
        reported,
        fee0,
        fee1,
        fee1 - fee0,
        (fee1 - fee0) as i64 - reported as i64
    );
    // same utxo WITHOUT a script ref, for reference
    let mut probe2 = builder_with_ref_price(15, 1);
    probe2
        .add_output(&TransactionOutput::new(&out_addr, &Value::new(&bn(5 * ADA))))
        .unwrap();
    let mut ib2 = TxInputsBuilder::new();
    ib2.add_regular_utxo(&utxo(0x21, 0, &in_addr, 5_200_000)).unwrap();
    probe2.set_inputs(&ib2);
    let fee_noref = u(&probe2.min_fee().unwrap());
    println!("[b] min_fee with the same input but no script_ref = {}", fee_noref);

    observe_b("LargestFirst 5.2 ADA", 5_200_000, script_len, CoinSelectionStrategyCIP2::LargestFirst, false);
    observe_b("LargestFirst 5.2 ADA + fillers", 5_200_000, script_len, CoinSelectionStrategyCIP2::LargestFirst, true);
    observe_b("RandomImprove 5.2 ADA", 5_200_000, script_len, CoinSelectionStrategyCIP2::RandomImprove, false);
    observe_b("LargestFirstMultiAsset 5.2 ADA", 5_200_000, script_len, CoinSelectionStrategyCIP2::LargestFirstMultiAsset, false);
    // tuned: enough when the ref script is ignored, not enough when it is counted
    let tuned = 5 * ADA + fee_noref + 1_000;
    observe_b("LargestFirst tuned (5ADA+fee_noref+1000)", tuned, script_len, CoinSelectionStrategyCIP2::LargestFirst, false);
    observe_b("LargestFirst tuned + fillers", tuned, script_len, CoinSelectionStrategyCIP2::LargestFirst, true);
    // control: no script ref at all, same amounts
    {
        let mut b = builder_with_ref_price(15, 1);
        b.add_output(&TransactionOutput::new(&out_addr, &Value::new(&bn(5 * ADA))))
            .unwrap();
        let mut offered = TransactionUnspentOutputs::new();
        offered.add(&utxo(0x21, 0, &in_addr, tuned));
        let r = b.add_inputs_from(&offered, CoinSelectionStrategyCIP2::LargestFirst);
        let explicit = u(&b.get_explicit_input().unwrap().coin());
        let out = u(&b.get_total_output().unwrap().coin());
        let fee = u(&b.min_fee().unwrap());
        println!(
            "[b] CONTROL no script_ref, utxo={} -> {:?} explicit_input={} total_output={} min_fee={} covered={}",
            tuned,
            r.map_err(|e| e.to_string()),
            explicit,
            out,
            fee,
            explicit >= out + fee
        );
    }
}

// ---------------------------------------------------------------------------------------------
// (c) PlutusScript JSON loses language version
// ---------------------------------------------------------------------------------------------

fn lang_name(s: &PlutusScript) -> String {
    format!("{:?}", s.language_version().kind())
}

#[test]
fn c_plutus_script_json_version() {
    println!("\n================ (c) PlutusScript JSON round trip ================");
    println!("[c] note: PlutusScript itself exposes only to_bytes/from_bytes/to_hex/from_hex (no to_json); JSON goes through containers");
    let bytes = vec![0x4d, 0x01, 0x00, 0x00, 0x33, 0x22, 0x22, 0x20, 0x05, 0x12, 0x00, 0x12, 0x00, 0x11];
    let scripts = vec![
        ("V1", PlutusScript::new(bytes.clone())),
        ("V2", PlutusScript::new_v2(bytes.clone())),
        ("V3", PlutusScript::new_v3(bytes.clone())),
    ];
    for (name, s) in &scripts {
        println!("[c] --- {} ---", name);
        println!("[c] original: lang={} hash={}", lang_name(s), s.hash().to_hex());

        // PlutusScripts collection
        let mut coll = PlutusScripts::new();
        coll.add(s);
        let json = coll.to_json().unwrap();
        match PlutusScripts::from_json(&json) {
            Ok(back) => {
                let b = back.get(0);
                println!(
                    "[c] PlutusScripts json={} -> lang={} hash={} same_hash={}",
                    json.replace('\n', "").replace(' ', ""),
                    lang_name(&b),
                    b.hash().to_hex(),
                    b.hash() == s.hash()
                );
            }
            Err(e) => println!("[c] PlutusScripts from_json Err({})", e),
        }

        // ScriptRef
        let sr = ScriptRef::new_plutus_script(s);
        let json = sr.to_json().unwrap();
        match ScriptRef::from_json(&json) {
            Ok(back) => {
                let b = back.plutus_script().unwrap();
                println!(
                    "[c] ScriptRef json={} -> lang={} hash={} same_hash={} same_cbor={}",
                    json.replace('\n', "").replace(' ', ""),
                    lang_name(&b),
                    b.hash().to_hex(),
                    b.hash() == s.hash(),
                    back.to_bytes() == sr.to_bytes()
                );
            }
            Err(e) => println!("[c] ScriptRef from_json Err({})", e),
        }
        // ScriptRef CBOR round trip as control
        let back = ScriptRef::from_bytes(sr.to_bytes()).unwrap();
        println!(
            "[c] ScriptRef CBOR control -> lang={} same_hash={}",
            lang_name(&back.plutus_script().unwrap()),
            back.plutus_script().unwrap().hash() == s.hash()
        );

        // TransactionOutput with script_ref
        let mut out = TransactionOutput::new(&base_addr(1), &Value::new(&bn(2 * ADA)));
        out.set_script_ref(&sr);
        let json = out.to_json().unwrap();
        match TransactionOutput::from_json(&json) {
            Ok(back) => {
                let b = back.script_ref().unwrap().plutus_script().unwrap();
                println!(
                    "[c] TransactionOutput json round trip -> lang={} hash={} same_hash={} same_cbor={}",
                    lang_name(&b),
                    b.hash().to_hex(),
                    b.hash() == s.hash(),
                    back.to_bytes() == out.to_bytes()
                );
                println!(
                    "[c]     cbor before={} after={}",
                    hex::encode(out.to_bytes()),
                    hex::encode(back.to_bytes())
                );
            }
            Err(e) => println!("[c] TransactionOutput from_json Err({})", e),
        }

        // TransactionWitnessSet
        let mut ws = TransactionWitnessSet::new();
        ws.set_plutus_scripts(&coll);
        let json = ws.to_json().unwrap();
        match TransactionWitnessSet::from_json(&json) {
            Ok(back) => {
                let b = back.plutus_scripts().unwrap().get(0);
                println!(
                    "[c] TransactionWitnessSet json round trip -> lang={} same_hash={} cbor before={} after={}",
                    lang_name(&b),
                    b.hash() == s.hash(),
                    hex::encode(ws.to_bytes()),
                    hex::encode(back.to_bytes())
                );
            }
            Err(e) => println!("[c] TransactionWitnessSet from_json Err({})", e),
        }
    }
}

// ---------------------------------------------------------------------------------------------
// (d) Malformed address JSON
// ---------------------------------------------------------------------------------------------

fn observe_malformed(label: &str, addr_bytes: Vec<u8>) {
    // legacy output: array(2) [ bytes(addr), uint 0 ]
    let mut cbor = vec![0x82u8];
    if addr_bytes.len() < 24 {
        cbor.push(0x40 + addr_bytes.len() as u8);
    } else {
        cbor.push(0x58);
        cbor.push(addr_bytes.len() as u8);
    }
    cbor.extend(&addr_bytes);
    cbor.push(0x00);
    let hex_in = hex::encode(&cbor);
    println!("[d] --- {} --- output cbor={}", label, hex_in);
    let out = match TransactionOutput::from_hex(&hex_in) {
        Ok(o) => o,
        Err(e) => {
            println!("[d] TransactionOutput::from_hex Err({})", e);
            return;
        }
    };
    let addr = out.address();
    println!(
        "[d] address: is_malformed={} kind={:?} to_bytes==original={} to_hex={}",
        addr.is_malformed(),
        addr.kind(),
        addr.to_bytes() == addr_bytes,
        addr.to_hex()
    );
    println!("[d] output re-serialises identically: {}", out.to_hex() == hex_in);
    match addr.to_bech32(None) {
        Ok(b) => {
            println!("[d] to_bech32 -> {}", b);
            match Address::from_bech32(&b) {
                Ok(a) => println!("[d] from_bech32(to_bech32) -> Ok same_bytes={}", a.to_bytes() == addr.to_bytes()),
                Err(e) => println!("[d] from_bech32(to_bech32) -> Err({})", e),
            }
        }
        Err(e) => println!("[d] to_bech32 -> Err({})", e),
    }
    match Address::from_hex(&addr.to_hex()) {
        Ok(a) => println!("[d] Address::from_hex(to_hex) -> Ok same_bytes={}", a.to_bytes() == addr.to_bytes()),
        Err(e) => println!("[d] Address::from_hex(to_hex) -> Err({})", e),
    }
    match addr.to_json() {
        Ok(j) => {
            println!("[d] Address::to_json -> Ok {}", j);
            match Address::from_json(&j) {
                Ok(a) => println!(
                    "[d] Address::from_json(to_json) -> Ok is_malformed={} same_bytes={}",
                    a.is_malformed(),
                    a.to_bytes() == addr.to_bytes()
                ),
                Err(e) => println!("[d] Address::from_json(to_json) -> Err({})", e),
            }
        }
        Err(e) => println!("[d] Address::to_json -> Err({})", e),
    }
    match out.to_json() {
        Ok(j) => {
            println!("[d] TransactionOutput::to_json -> Ok {}", j.replace('\n', "").replace("  ", " "));
            match TransactionOutput::from_json(&j) {
                Ok(o) => println!(
                    "[d] TransactionOutput::from_json(to_json) -> Ok same_bytes={}",
                    o.to_bytes() == out.to_bytes()
                ),
                Err(e) => println!("[d] TransactionOutput::from_json(to_json) -> Err({})", e),
            }
        }
        Err(e) => println!("[d] TransactionOutput::to_json -> Err({})", e),
    }
    if let Some(m) = MalformedAddress::from_address(&addr) {
        println!("[d] MalformedAddress::original_bytes==original: {}", m.original_bytes() == addr_bytes);
    }
}

#[test]
fn d_malformed_address_json() {
    println!("\n================ (d) malformed address JSON ================");
    // header 0xF0 is a VALID reward/script header in this library, shown for reference
    let mut f0 = vec![0xF0u8];
    f0.extend(vec![7u8; 28]);
    observe_malformed("header 0xF0 + 28 bytes (reward/script, valid)", f0);
    // header 0xA0: unassigned address type
    let mut a0 = vec![0xA0u8];
    a0.extend(vec![7u8; 28]);
    observe_malformed("header 0xA0 + 28 bytes (unknown type)", a0);
    // truncated base address
    let mut short = vec![0x00u8];
    short.extend(vec![7u8; 10]);
    observe_malformed("header 0x00 + 10 bytes (truncated base)", short);
    // empty
    observe_malformed("empty byte string", vec![]);
    // control: a proper enterprise address
    let mut ent = vec![0x60u8];
    ent.extend(vec![7u8; 28]);
    observe_malformed("CONTROL header 0x60 + 28 bytes (enterprise)", ent);
}

// ---------------------------------------------------------------------------------------------
// (e) stale script witness after re-adding the same input
// ---------------------------------------------------------------------------------------------

fn cost_models() -> Costmdls {
    let mut res = Costmdls::new();
    res.insert(&Language::new_plutus_v1(), &CostModel::from(vec![1i128, 2, 3, 4, 5]));
    res.insert(&Language::new_plutus_v2(), &CostModel::from(vec![1i128, 2, 3, 4, 5, 6]));
    res
}

fn witness(script_byte: u8, datum_byte: u8, redeemer_byte: u8) -> (PlutusWitness, PlutusScript) {
    let script = PlutusScript::new(vec![script_byte; 32]);
    let datum = PlutusData::new_bytes(vec![datum_byte; 4]);
    let redeemer = Redeemer::new(
        &RedeemerTag::new_spend(),
        &bn(0),
        &PlutusData::new_bytes(vec![redeemer_byte; 4]),
        &ExUnits::new(&bn(1000), &bn(2000)),
    );
    (PlutusWitness::new(&script, &datum, &redeemer), script)
}

fn observe_e(label: &str, inputs: &TxInputsBuilder, script_a: &PlutusScript, script_b: &PlutusScript) {
    println!("[e] --- {} ---", label);
    println!("[e] TxInputsBuilder.len()={} inputs={}", inputs.len(), inputs.inputs().len());
    match inputs.get_plutus_input_scripts() {
        Some(pw) => {
            println!("[e] get_plutus_input_scripts(): {} witness(es)", pw.len());
            for i in 0..pw.len() {
                let w = pw.get(i);
                let r = w.redeemer();
                println!(
                    "[e]     witness[{}]: script_hash={} ({}) redeemer tag={:?} index={} data={}",
                    i,
                    w.script().map(|s| s.hash().to_hex()).unwrap_or("ref".into()),
                    match w.script() {
                        Some(s) if &s == script_a => "A",
                        Some(s) if &s == script_b => "B",
                        _ => "?",
                    },
                    r.tag().kind(),
                    r.index().to_str(),
                    r.data().to_hex()
                );
            }
        }
        None => println!("[e] get_plutus_input_scripts(): None"),
    }

    let mut b = builder_with_ref_price(15, 1);
    b.set_inputs(inputs);
    // collateral
    let mut col = TxInputsBuilder::new();
    col.add_regular_input(&base_addr(9), &tx_in(0x99, 0), &Value::new(&bn(5 * ADA)))
        .unwrap();
    b.set_collateral(&col);
    b.add_output(&TransactionOutput::new(&base_addr(1), &Value::new(&bn(3 * ADA))))
        .unwrap();
    match b.calc_script_data_hash(&cost_models()) {
        Ok(()) => println!("[e] calc_script_data_hash -> Ok"),
        Err(e) => println!("[e] calc_script_data_hash -> Err({})", e),
    }
    match b.min_fee() {
        Ok(f) => println!("[e] min_fee={}", f.to_str()),
        Err(e) => println!("[e] min_fee Err({})", e),
    }
    match b.add_change_if_needed(&base_addr(3)) {
        Ok(c) => println!("[e] add_change_if_needed -> Ok({}) fee={:?}", c, b.get_fee_if_set().map(|f| f.to_str())),
        Err(e) => {
            println!("[e] add_change_if_needed -> Err({}); falling back to set_fee(300000)", e);
            b.set_fee(&bn(300000));
        }
    }
    let tx = match b.build_tx() {
        Ok(tx) => {
            println!("[e] build_tx -> Ok");
            Some(tx)
        }
        Err(e) => {
            println!("[e] build_tx -> Err({}); trying build_tx_unsafe", e);
            match b.build_tx_unsafe() {
                Ok(tx) => {
                    println!("[e] build_tx_unsafe -> Ok");
                    Some(tx)
                }
                Err(e) => {
                    println!("[e] build_tx_unsafe -> Err({})", e);
                    None
                }
            }
        }
    };
    if let Some(tx) = tx {
        let body = tx.body();
        println!(
            "[e] body: inputs={} script_data_hash={:?}",
            body.inputs().len(),
            body.script_data_hash().map(|h| h.to_hex())
        );
        let ws = tx.witness_set();
        match ws.plutus_scripts() {
            Some(ps) => {
                let mut names = vec![];
                for i in 0..ps.len() {
                    let s = ps.get(i);
                    names.push(if &s == script_a {
                        "A"
                    } else if &s == script_b {
                        "B"
                    } else {
                        "?"
                    });
                }
                println!("[e] witness_set.plutus_scripts: {} -> {:?}", ps.len(), names);
            }
            None => println!("[e] witness_set.plutus_scripts: None"),
        }
        println!(
            "[e] witness_set.plutus_data: {:?}",
            ws.plutus_data().map(|d| d.len())
        );
        match ws.redeemers() {
            Some(rs) => {
                let mut spend = 0;
                let mut descr = vec![];
                for i in 0..rs.len() {
                    let r = rs.get(i);
                    if r.tag().kind() == RedeemerTagKind::Spend {
                        spend += 1;
                    }
                    descr.push(format!("({:?},idx={},data={})", r.tag().kind(), r.index().to_str(), r.data().to_hex()));
                }
                println!(
                    "[e] witness_set.redeemers: total={} spend={} -> {} ; container={:?}",
                    rs.len(),
                    spend,
                    descr.join(" "),
                    rs.get_container_type()
                );
                println!("[e] redeemers cbor={}", rs.to_hex());
                match Redeemers::from_hex(&rs.to_hex()) {
                    Ok(back) => println!("[e] redeemers after CBOR round trip: total={}", back.len()),
                    Err(e) => println!("[e] redeemers CBOR round trip Err({})", e),
                }
            }
            None => println!("[e] witness_set.redeemers: None"),
        }
        let tx_hex = tx.to_hex();
        match Transaction::from_hex(&tx_hex) {
            Ok(back) => println!(
                "[e] tx CBOR round trip: redeemers={:?} plutus_scripts={:?} size={} bytes",
                back.witness_set().redeemers().map(|r| r.len()),
                back.witness_set().plutus_scripts().map(|r| r.len()),
                tx.to_bytes().len()
            ),
            Err(e) => println!("[e] tx CBOR round trip Err({})", e),
        }
    }
}

#[test]
fn e_stale_script_witness() {
    println!("\n================ (e) stale script witness on re-added input ================");
    let input = tx_in(0x31, 0);
    let amount = Value::new(&bn(10 * ADA));
    let (wit_a, script_a) = witness(0xAA, 0x0A, 0x1A);
    let (wit_b, script_b) = witness(0xBB, 0x0B, 0x1B);
    println!("[e] script A hash={}  script B hash={}", script_a.hash().to_hex(), script_b.hash().to_hex());

    // (1) A then B for the same outpoint
    let mut i1 = TxInputsBuilder::new();
    i1.add_plutus_script_input(&wit_a, &input, &amount);
    i1.add_plutus_script_input(&wit_b, &input, &amount);
    observe_e("(1) A then B, same outpoint", &i1, &script_a, &script_b);

    // (1b) A then B where both witnesses carry an IDENTICAL redeemer/datum (dedup of redeemers may hide it)
    {
        let datum = PlutusData::new_bytes(vec![0x0C; 4]);
        let redeemer = Redeemer::new(
            &RedeemerTag::new_spend(),
            &bn(0),
            &PlutusData::new_bytes(vec![0x1C; 4]),
            &ExUnits::new(&bn(1000), &bn(2000)),
        );
        let wa = PlutusWitness::new(&script_a, &datum, &redeemer);
        let wb = PlutusWitness::new(&script_b, &datum, &redeemer);
        let mut i = TxInputsBuilder::new();
        i.add_plutus_script_input(&wa, &input, &amount);
        i.add_plutus_script_input(&wb, &input, &amount);
        observe_e("(1b) A then B, same outpoint, identical redeemer+datum", &i, &script_a, &script_b);
    }

    // (2) A then key input for the same outpoint
    let mut i2 = TxInputsBuilder::new();
    i2.add_plutus_script_input(&wit_a, &input, &amount);
    i2.add_key_input(&key_hash(5), &input, &amount);
    observe_e("(2) A then add_key_input, same outpoint", &i2, &script_a, &script_b);

    // (2b) control for (2): only the key input
    let mut i2b = TxInputsBuilder::new();
    i2b.add_key_input(&key_hash(5), &input, &amount);
    observe_e("(2b) CONTROL only add_key_input", &i2b, &script_a, &script_b);

    // (3) control: only B
    let mut i3 = TxInputsBuilder::new();
    i3.add_plutus_script_input(&wit_b, &input, &amount);
    observe_e("(3) CONTROL only B", &i3, &script_a, &script_b);
}
