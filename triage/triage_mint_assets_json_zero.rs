// triage: MintAssets from JSON with a zero amount. Prints only.
use cardano_serialization_lib::*;
#[test]
fn mint_json() {
    let pol = "01010101010101010101010101010101010101010101010101010101";
    let r = Mint::from_json(&format!("[[\"{}\", {{\"61\": \"0\"}}]]", pol));
    println!("Mint::from_json([[policy, {{\"61\": \"0\"}}]]) -> {:?}", r.as_ref().map(|m| hex::encode(m.to_bytes())).map_err(|e| format!("{:?}", e)));
    let mut m = MintAssets::new();
    println!("MintAssets::insert(\"a\", 0) -> {:?}", m.insert(&AssetName::new(vec![0x61]).unwrap(), &Int::new_i32(0)).is_ok());
}
