use cardano_serialization_lib::*;
#[test]
fn triage() {
    let cm = CostModel::from(vec![1i128 << 64, -(1i128 << 64) - 1]);
    let a = cm.get(0).unwrap();
    let b = cm.get(1).unwrap();
    println!("a = {} bytes {:?} as_positive {:?}", a.to_str(), a.to_bytes(), a.as_positive().map(|x| x.to_str()));
    println!("b = {}", b.to_str());
    let r = std::panic::catch_unwind(|| b.to_bytes());
    println!("b.to_bytes panicked: {}", r.is_err());
}
