use cardano_serialization_lib::*;
#[test]
fn voting_procedures_empty_inner_map() {
    let hex_in = format!("a18200581c{}a0", "00".repeat(28));
    let vp = VotingProcedures::from_hex(&hex_in).unwrap();
    let out = vp.to_hex();
    println!("in  {}\nout {}", hex_in, out);
    println!("reparse: {:?}", VotingProcedures::from_hex(&out).map(|v| v.to_hex()));
    // one empty + one non-empty voter
    let hex2 = format!("a28200581c{}a08200581c{}a1825820{}00820180", "00".repeat(28), "11".repeat(28), "22".repeat(32));
    match VotingProcedures::from_hex(&hex2) {
        Ok(v) => { let o = v.to_hex(); println!("in2  {}\nout2 {}\nreparse2: {:?}", hex2, o, VotingProcedures::from_hex(&o).map(|x| x.to_hex() == o)); }
        Err(e) => println!("in2 rejected: {:?}", e),
    }
}
