use cardano_serialization_lib::*;
#[test]
fn triage() {
    let mut ma = MintAssets::new();
    let amt = Int::from_str("-18446744073709551616").unwrap();
    println!("amount {} as_negative {:?}", amt.to_str(), amt.as_negative());
    ma.insert(&AssetName::new(vec![1]).unwrap(), &amt).unwrap();
    let mut mint = Mint::new();
    mint.insert(&ScriptHash::from_bytes(vec![7; 28]).unwrap(), &ma);
    let r = std::panic::catch_unwind(|| mint.as_negative_multiasset());
    println!("as_negative_multiasset panicked: {}", r.is_err());
    let r2 = std::panic::catch_unwind(|| mint.as_positive_multiasset().len());
    println!("as_positive_multiasset: {:?}", r2.ok());
}
