// In-crate triage test for cases (2) and (3). Append this text to the END of rust/src/lib.rs, then run:
//   cargo test --offline --lib triage_tmp -- --nocapture
// Prints results; no assertions. Remove afterwards.
// ---- TEMPORARY triage module (remove) ----
#[cfg(test)]
mod triage_tmp {
    use crate::*;

    #[test]
    fn t() {
        println!("==== (2) PlutusList::serialize_as_set(true) ====");
        let pl = PlutusList::from_bytes(hex::decode("820101").unwrap()).unwrap();
        println!(
            "[2] from_bytes(820101): elems.len()={} definite_encoding={:?} cbor_set_type={:?} deduplicated_view().len()={}",
            pl.elems.len(),
            pl.definite_encoding,
            pl.cbor_set_type,
            pl.deduplicated_view().len()
        );
        println!("[2] to_bytes()     = {}", hex::encode(pl.to_bytes()));
        let set_bytes = pl.to_set_bytes();
        println!("[2] to_set_bytes() = {}", hex::encode(&set_bytes));
        match PlutusList::from_bytes(set_bytes.clone()) {
            Ok(p) => println!("[2] PlutusList::from_bytes(to_set_bytes()) => Ok, len {}", p.len()),
            Err(e) => println!("[2] PlutusList::from_bytes(to_set_bytes()) => Err({})", e),
        }

        // indefinite-length input for comparison (no declared length => dedup is harmless)
        let pl_indef = PlutusList::from_bytes(hex::decode("9f0101ff").unwrap()).unwrap();
        println!("[2] from_bytes(9f0101ff).to_set_bytes() = {}", hex::encode(pl_indef.to_set_bytes()));

        // list built with add(): definite_encoding = None => indefinite when non-empty
        let mut pl_built = PlutusList::new();
        pl_built.add(&PlutusData::new_integer(&BigInt::one()));
        pl_built.add(&PlutusData::new_integer(&BigInt::one()));
        println!(
            "[2] built via add() x2: definite_encoding={:?} to_set_bytes() = {}",
            pl_built.definite_encoding,
            hex::encode(pl_built.to_set_bytes())
        );

        // Public reachability: hash_script_data(redeemers(empty), costmdls, Some(datums)) hashes
        // A0 | to_set_bytes() | A0.  Compare against hashes of the malformed and the well-formed preimage.
        let h = hash_script_data(&Redeemers::new(), &Costmdls::new(), Some(pl.clone()));
        let malformed = hex::decode("a0d90102820101a0".replace("820101", "8201")).unwrap();
        let wellformed = hex::decode("a0d901028101a0").unwrap();
        println!("[2] hash_script_data(no redeemers, datums=820101) = {}", h.to_hex());
        println!(
            "[2]   blake2b256({}) = {}  match={}",
            hex::encode(&malformed),
            hex::encode(crate::crypto::blake2b256(&malformed)),
            h.to_bytes() == crate::crypto::blake2b256(&malformed).to_vec()
        );
        println!(
            "[2]   blake2b256({}) = {}  match={}",
            hex::encode(&wellformed),
            hex::encode(crate::crypto::blake2b256(&wellformed)),
            h.to_bytes() == crate::crypto::blake2b256(&wellformed).to_vec()
        );

        println!("==== (3) NativeScripts::serialize_as_set(true) (no production caller; called directly) ====");
        let kh = Ed25519KeyHash::from_bytes(vec![0x11u8; 28]).unwrap();
        let s = NativeScript::new_script_pubkey(&ScriptPubkey::new(&kh));
        let mut ns = NativeScripts::new();
        ns.add(&s);
        ns.add(&s);
        let mut ser = Serializer::new_vec();
        ns.serialize_as_set(true, &mut ser).unwrap();
        println!("[3] direct serialize_as_set(true) with same script twice = {}", hex::encode(ser.finalize()));
        let mut ser = Serializer::new_vec();
        ns.serialize_as_set(false, &mut ser).unwrap();
        println!("[3] direct serialize_as_set(false) with same script twice = {}", hex::encode(ser.finalize()));
    }
}
