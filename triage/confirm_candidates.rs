use cardano_serialization_lib::*;
use std::panic::{catch_unwind, AssertUnwindSafe};

fn p<T>(name: &str, f: impl FnOnce() -> T) -> Option<T> {
    let r = catch_unwind(AssertUnwindSafe(f));
    match r { Ok(v) => { println!("[ok   ] {}", name); Some(v) } Err(_) => { println!("[PANIC] {}", name); None } }
}
fn h(s: &str) -> Vec<u8> { hex::decode(s).unwrap() }
fn cfg() -> TransactionBuilderConfig {
    TransactionBuilderConfigBuilder::new()
        .fee_algo(&LinearFee::new(&BigNum::from_str("44").unwrap(), &BigNum::from_str("155381").unwrap()))
        .pool_deposit(&BigNum::from_str("500000000").unwrap())
        .key_deposit(&BigNum::from_str("2000000").unwrap())
        .max_value_size(5000).max_tx_size(16384)
        .coins_per_utxo_byte(&BigNum::from_str("4310").unwrap())
        .ex_unit_prices(&ExUnitPrices::new(&UnitInterval::new(&BigNum::from_str("577").unwrap(), &BigNum::from_str("10000").unwrap()), &UnitInterval::new(&BigNum::from_str("721").unwrap(), &BigNum::from_str("10000000").unwrap())))
        .build().unwrap()
}
fn txin(b: u8, i: u32) -> TransactionInput { TransactionInput::new(&TransactionHash::from_bytes(vec![b; 32]).unwrap(), i) }

#[test]
fn triage() {
    std::panic::set_hook(Box::new(|_| {}));
    p("01 Address::from_bytes(empty)", || Address::from_bytes(vec![]).is_ok());
    p("02 Address::from_bytes(83 00 00 00)", || Address::from_bytes(vec![0x83, 0, 0, 0]).is_ok());
    p("03 TransactionOutput::from_bytes(82 40 00)", || TransactionOutput::from_bytes(h("824000")).is_ok());
    p("04 Vkeywitnesses::from_bytes(9f f6 ff)", || Vkeywitnesses::from_bytes(h("9ff6ff")).is_ok());
    let mut legacy = h("83581d61"); legacy.extend(vec![0u8; 28]); legacy.extend(h("005820")); legacy.extend(vec![0u8; 10]);
    p("05 TransactionOutput legacy truncated 3rd", || TransactionOutput::from_bytes(legacy.clone()).is_ok());
    p("06 BigNum::from_hex(zz)", || BigNum::from_hex("zz").is_ok());
    p("07 native script json Node schema", || encode_json_str_to_native_script("{}", "", ScriptSchema::Node).is_ok());
    p("08 Bip32PrivateKey::from_128_xprv(10 bytes)", || Bip32PrivateKey::from_128_xprv(&[0u8; 10]).is_ok());
    p("09 Int::from_str(i128::MIN)", || Int::from_str("-170141183460469231731687303715884105728").map(|x| x.to_str()).ok());
    p("10 metadatum json i64::MIN", || encode_json_str_to_metadatum("-9223372036854775808".to_string(), MetadataJsonSchema::NoConversions).is_ok());
    if let Some(b) = p("11 witness set a1 00 80 -> to_bytes", || TransactionWitnessSet::from_bytes(h("a10080")).map(|w| hex::encode(w.to_bytes()))) { println!("      -> {:?}", b.map_err(|e| e.to_string())); }
    // fixed tx: body minimal {0: [], 1: [], 2: 0}
    let tx_hex = "84a300d901028001800200a10180f5f6";
    if let Some(r) = p("12 FixedTransaction witness a1 01 80 roundtrip", || FixedTransaction::from_bytes(h(tx_hex)).map(|t| hex::encode(t.to_bytes()))) { println!("      in  {}\n      out {:?}", tx_hex, r.map_err(|e| e.to_string())); }
    p("14a Int(-2^63).to_bytes", || hex::encode(Int::new_negative(&BigNum::from_str("9223372036854775808").unwrap()).to_bytes()));
    p("14b Int(-2^63-1).to_bytes", || hex::encode(Int::new_negative(&BigNum::from_str("9223372036854775809").unwrap()).to_bytes()));
    p("14c Int from 3b7fffffffffffffff -> to_bytes", || Int::from_bytes(h("3b7fffffffffffffff")).map(|i| hex::encode(i.to_bytes())).ok());
    if let Some(Some(s)) = p("14d BigInt -2^63 to_bytes", || BigInt::from_str("-9223372036854775808").ok().map(|b| hex::encode(b.to_bytes()))) { println!("      -> {}", s); }
    // 15 set_body stale hash
    p("15 FixedTransaction::set_body hash", || {
        let mut t = FixedTransaction::from_bytes(h("84a300d901028001800200a0f5f6")).unwrap();
        let h0 = t.transaction_hash().to_hex();
        t.set_body(&h("a300d901028001800201")).unwrap();
        let h1 = t.transaction_hash().to_hex();
        let expect = hex::encode(cardano_serialization_lib::FixedTransaction::new_from_body_bytes(&h("a300d901028001800201")).unwrap().transaction_hash().to_bytes());
        println!("      before {} after {} expected {} stale={}", &h0[..8], &h1[..8], &expect[..8], h1 != expect);
    });
    // 16 withdrawals redeemer index order
    p("16 withdrawals redeemer order", || {
        let mk = |b: u8| RewardAddress::new(0, &Credential::from_scripthash(&ScriptHash::from_bytes(vec![b; 28]).unwrap()));
        let (a, b) = (mk(1), mk(2));
        let script = PlutusScript::new(vec![1, 2, 3]);
        let red = |i: u64| Redeemer::new(&RedeemerTag::new_reward(), &BigNum::from(i), &PlutusData::new_integer(&BigInt::from_str(&i.to_string()).unwrap()), &ExUnits::new(&BigNum::from(1u64), &BigNum::from(1u64)));
        let mut wb = WithdrawalsBuilder::new();
        wb.add_with_plutus_witness(&b, &BigNum::from(5u64), &PlutusWitness::new_without_datum(&script, &red(200))).unwrap();
        wb.add_with_plutus_witness(&a, &BigNum::from(5u64), &PlutusWitness::new_without_datum(&script, &red(100))).unwrap();
        let ws = wb.get_plutus_witnesses();
        for i in 0..ws.len() { let w = ws.get(i); println!("      redeemer data={} index={}", w.redeemer().data().to_json(PlutusDatumSchema::BasicConversions).unwrap(), w.redeemer().index().to_str()); }
        println!("      (data 100 belongs to the smaller address a, data 200 to b; sorted order requires a->0, b->1)");
    });
    // 17 byron trailing
    p("17 byron trailing bytes", || {
        let byron = ByronAddress::from_base58("Ae2tdPwUPEZ3MHKkpT5Bpj549vrRH7nBqYjNXnCV8G2Bc2YxNcGHEa8ykDp").unwrap();
        let mut bytes = byron.to_address().to_bytes(); let n = bytes.len(); bytes.push(0);
        let r = Address::from_bytes(bytes.clone());
        println!("      strict parse of byron++00: ok={} ; re-encoded len {} vs input {}", r.is_ok(), r.map(|a| a.to_bytes().len()).unwrap_or(0), n + 1);
    });
    // 18 mint builder overflow of Int range
    p("18 MintBuilder add_asset 2x (2^64-1)", || {
        let ns = NativeScript::new_timelock_start(&TimelockStart::new_timelockstart(&BigNum::from(1u64)));
        let w = MintWitness::new_native_script(&NativeScriptSource::new(&ns));
        let an = AssetName::new(vec![1]).unwrap(); let amt = Int::new(&BigNum::max_value());
        let mut mb = MintBuilder::new(); mb.add_asset(&w, &an, &amt).unwrap(); mb.add_asset(&w, &an, &amt).unwrap();
        let m = mb.build().unwrap(); let v = m.get(&ns.hash()).unwrap().get(0).unwrap().get(&an).unwrap();
        println!("      Int = {} ; to_bytes = {:?}", v.to_str(), catch_unwind(AssertUnwindSafe(|| hex::encode(v.to_bytes()))).ok());
    });
    p("19 Int(-2^64).as_negative", || { let i = Int::from_bytes(h("3bffffffffffffffff")).unwrap(); println!("      Int={} as_negative={:?} as_positive={:?}", i.to_str(), i.as_negative().map(|x| x.to_str()), i.as_positive().map(|x| x.to_str())); });
    p("20 Value::checked_sub foreign asset", || {
        let mut ma = MultiAsset::new(); ma.set_asset(&ScriptHash::from_bytes(vec![7; 28]).unwrap(), &AssetName::new(vec![1]).unwrap(), &BigNum::from(1u64));
        let a = Value::new(&BigNum::from(10u64)); let b = Value::new_with_assets(&BigNum::from(5u64), &ma);
        println!("      10 - (5 + 1X) = {:?}", a.checked_sub(&b).map(|v| v.to_json().unwrap()).map_err(|e| e.to_string()));
    });
    p("21 get_reference_inputs order stability", || {
        let mut tb = TransactionBuilder::new(&cfg());
        for i in 0..6u8 { tb.add_reference_input(&txin(i + 1, 0)); }
        let orders: std::collections::BTreeSet<String> = (0..20).map(|_| tb.get_reference_inputs().to_hex()).collect();
        println!("      distinct encodings of reference inputs over 20 calls on the same builder: {}", orders.len());
    });
    p("22/23 helper vs builder deposit/refund", || {
        let kh = Ed25519KeyHash::from_bytes(vec![3; 28]).unwrap();
        let cert = Certificate::new_pool_retirement(&PoolRetirement::new(&kh, 10));
        let mut certs = Certificates::new(); certs.add(&cert);
        let mut body = TransactionBody::new_tx_body(&TransactionInputs::new(), &TransactionOutputs::new(), &BigNum::from(0u64));
        body.set_certs(&certs);
        let c = cfg();
        let helper = get_implicit_input(&body, &BigNum::from_str("500000000").unwrap(), &BigNum::from_str("2000000").unwrap()).unwrap();
        let mut tb = TransactionBuilder::new(&c); let mut cb = CertificatesBuilder::new(); cb.add(&cert).unwrap(); tb.set_certs_builder(&cb);
        println!("      pool retirement: helper implicit input = {} ; builder implicit input = {}", helper.coin().to_str(), tb.get_implicit_input().unwrap().coin().to_str());
        let ra = RewardAddress::new(0, &Credential::from_keyhash(&kh));
        let prop = VotingProposal::new(&GovernanceAction::new_info_action(&InfoAction::new()), &Anchor::new(&URL::new("https://x".into()).unwrap(), &AnchorDataHash::from_bytes(vec![0; 32]).unwrap()), &ra, &BigNum::from(100000u64));
        let mut props = VotingProposals::new(); props.add(&prop);
        let mut body2 = TransactionBody::new_tx_body(&TransactionInputs::new(), &TransactionOutputs::new(), &BigNum::from(0u64));
        body2.set_voting_proposals(&props);
        let mut tb2 = TransactionBuilder::new(&c); let mut pb = VotingProposalBuilder::new(); pb.add(&prop).unwrap(); tb2.set_voting_proposal_builder(&pb);
        println!("      proposal deposit 100000: helper get_deposit = {} ; builder get_deposit = {}", get_deposit(&body2, &BigNum::from(1u64), &BigNum::from(1u64)).unwrap().to_str(), tb2.get_deposit().unwrap().to_str());
    });
    p("24 BigNum::div_floor(0)", || BigNum::from(1u64).div_floor(&BigNum::zero()).to_str());
    p("26 collateral return with foreign asset", || {
        let mut tb = TransactionBuilder::new(&cfg());
        let addr = Address::from_bech32("addr_test1qpu5vlrf4xkxv2qpwngf6cjhtw542ayty80v8dyr49rf5ewvxwdrt70qlcpeeagscasafhffqsxy36t90ldv06wqrk2qum8x5w").unwrap();
        let mut col = TxInputsBuilder::new(); col.add_regular_input(&addr, &txin(9, 0), &Value::new(&BigNum::from(10_000_000u64))).unwrap();
        tb.set_collateral(&col);
        let mut ma = MultiAsset::new(); ma.set_asset(&ScriptHash::from_bytes(vec![7; 28]).unwrap(), &AssetName::new(vec![1]).unwrap(), &BigNum::from(1u64));
        let ret = TransactionOutput::new(&addr, &Value::new_with_assets(&BigNum::from(5_000_000u64), &ma));
        let r = tb.set_collateral_return_and_total(&ret);
        println!("      pure-ADA collateral, return carries a foreign asset: accepted={} err={:?}", r.is_ok(), r.err().map(|e| e.to_string()));
    });
}
