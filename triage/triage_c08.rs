// Runtime triage: RandomImprove (CIP-2) Phase 2 bookkeeping of `available_indices`.
// Statistics only (thread RNG cannot be seeded). No assertions besides "it runs".

use cardano_serialization_lib::*;
use std::collections::{BTreeMap, BTreeSet};

const TRIALS: usize = 20_000;
const ADDR: &str = "addr1vyy6nhfyks7wdu3dudslys37v252w2nwhv0fw2nfawemmnqs6l44z";

fn new_builder() -> TransactionBuilder {
    let cfg = TransactionBuilderConfigBuilder::new()
        .fee_algo(&LinearFee::new(&BigNum::from(44u64), &BigNum::from(155381u64)))
        .pool_deposit(&BigNum::from(500000000u64))
        .key_deposit(&BigNum::from(2000000u64))
        .max_value_size(4000)
        .max_tx_size(8000)
        .coins_per_utxo_byte(&BigNum::from(34_482u64 / 8))
        .ex_unit_prices(&ExUnitPrices::new(
            &UnitInterval::new(&BigNum::from(577u64), &BigNum::from(10000u64)),
            &UnitInterval::new(&BigNum::from(721u64), &BigNum::from(10000000u64)),
        ))
        .ref_script_coins_per_byte(&UnitInterval::new(&BigNum::from(1u64), &BigNum::from(2u64)))
        .build()
        .unwrap();
    TransactionBuilder::new(&cfg)
}

fn utxo(hash_byte: u8, lovelace: u64) -> TransactionUnspentOutput {
    let input = TransactionInput::new(&TransactionHash::from_bytes(vec![hash_byte; 32]).unwrap(), 0);
    let output = TransactionOutputBuilder::new()
        .with_address(&Address::from_bech32(ADDR).unwrap())
        .next()
        .unwrap()
        .with_value(&Value::new(&BigNum::from(lovelace)))
        .build()
        .unwrap();
    TransactionUnspentOutput::new(&input, &output)
}

fn out(lovelace: u64) -> TransactionOutput {
    TransactionOutputBuilder::new()
        .with_address(&Address::from_bech32(ADDR).unwrap())
        .next()
        .unwrap()
        .with_coin(&BigNum::from(lovelace))
        .build()
        .unwrap()
}

fn u(b: &BigNum) -> u64 {
    u64::from(*b)
}

#[derive(Default)]
struct Stats {
    ok: usize,
    err: usize,
    under_covered: usize,
    under_covered_lookup: usize, // same check but input sum recomputed from the offered-UTxO table
    spurious_insufficient: usize,
    err_other: usize,
    change_fails_among_under: usize,
    example_under: Option<String>,
    example_spurious: Option<String>,
    n_inputs_hist: BTreeMap<usize, usize>,
}

fn run_layout(name: &str, outputs: &[u64], utxos_lovelace: &[u64]) -> Stats {
    let mut utxos = TransactionUnspentOutputs::new();
    let mut table: BTreeMap<Vec<u8>, u64> = BTreeMap::new();
    for (k, v) in utxos_lovelace.iter().enumerate() {
        let x = utxo(k as u8 + 1, *v);
        table.insert(x.input().transaction_id().to_bytes(), *v);
        utxos.add(&x);
    }
    let offered_sum: u64 = utxos_lovelace.iter().sum();

    // An upper bound of what is needed if ALL offered utxos were used: outputs + min_fee with all inputs.
    let need_if_all_used = {
        let mut b = new_builder();
        for o in outputs {
            b.add_output(&out(*o)).unwrap();
        }
        for k in 0..utxos.len() {
            let x = utxos.get(k);
            b.add_regular_input(&x.output().address(), &x.input(), &x.output().amount())
                .unwrap();
        }
        u(&b.get_total_output().unwrap().coin()) + u(&b.min_fee().unwrap())
    };

    let mut st = Stats::default();
    for trial in 0..TRIALS {
        let mut b = new_builder();
        for o in outputs {
            b.add_output(&out(*o)).unwrap();
        }
        match b.add_inputs_from(&utxos, CoinSelectionStrategyCIP2::RandomImprove) {
            Ok(()) => {
                st.ok += 1;
                let actual = u(&b.get_explicit_input().unwrap().coin());
                let need = u(&b.get_total_output().unwrap().coin()) + u(&b.min_fee().unwrap());
                // distinct inputs actually in the builder
                let mut b2 = b.clone();
                b2.set_fee(&b.min_fee().unwrap());
                let body = b2.build().unwrap();
                let ins = body.inputs();
                let mut seen = BTreeSet::new();
                let mut lookup_sum = 0u64;
                for k in 0..ins.len() {
                    let id = ins.get(k).transaction_id().to_bytes();
                    if seen.insert(id.clone()) {
                        lookup_sum += table[&id];
                    }
                }
                *st.n_inputs_hist.entry(seen.len()).or_default() += 1;
                if lookup_sum < need {
                    st.under_covered_lookup += 1;
                }
                if actual < need {
                    st.under_covered += 1;
                    if st.example_under.is_none() {
                        st.example_under = Some(format!(
                            "trial {}: actual(get_explicit_input)={} lookup_sum={} need(total_output+min_fee)={} short_by={} distinct_inputs={} offered_sum={}",
                            trial, actual, lookup_sum, need, need - actual, seen.len(), offered_sum
                        ));
                    }
                    let change_addr = Address::from_bech32(ADDR).unwrap();
                    if b.add_change_if_needed(&change_addr).is_err() {
                        st.change_fails_among_under += 1;
                    }
                }
            }
            Err(e) => {
                st.err += 1;
                let msg = format!("{:?}", e);
                if offered_sum >= need_if_all_used {
                    st.spurious_insufficient += 1;
                    if st.example_spurious.is_none() {
                        st.example_spurious = Some(format!(
                            "trial {}: Err({}) offered_sum={} need_if_all_offered_used={}",
                            trial, msg, offered_sum, need_if_all_used
                        ));
                    }
                } else if !msg.contains("Insufficient") {
                    st.err_other += 1;
                }
            }
        }
    }
    println!("=== layout {} ===", name);
    println!("  outputs (lovelace): {:?}", outputs);
    println!("  utxos   (lovelace): {:?}", utxos_lovelace);
    println!("  offered_sum={} need_if_all_offered_used={}", offered_sum, need_if_all_used);
    println!(
        "  trials={} OK={} ERR={} UNDER-COVERED={} (via outpoint lookup: {}) SPURIOUS-INSUFFICIENT={} err_other={}",
        TRIALS, st.ok, st.err, st.under_covered, st.under_covered_lookup, st.spurious_insufficient, st.err_other
    );
    println!(
        "  add_change_if_needed failed in {} of the {} under-covered trials",
        st.change_fails_among_under, st.under_covered
    );
    println!("  distinct-input-count histogram (Ok trials): {:?}", st.n_inputs_hist);
    if let Some(e) = &st.example_under {
        println!("  example UNDER-COVERED: {}", e);
    }
    if let Some(e) = &st.example_spurious {
        println!("  example SPURIOUS-INSUFFICIENT: {}", e);
    }
    st
}

#[test]
fn triage_c08_random_improve_phase2_bookkeeping() {
    const ADA: u64 = 1_000_000;
    // L1: minimal. Phase 1 picks 10.0 (p=1/2) -> Phase 2 swaps to 10.1 -> 10.1 < 10 + fee -> Phase 3 top-up.
    run_layout("L1-minimal", &[10 * ADA], &[10_000_000, 10_100_000]);
    // L2: same idea with a few small UTxOs around.
    run_layout(
        "L2-with-smalls",
        &[10 * ADA],
        &[10_000_000, 10_050_000, 10_100_000, 300_000, 500_000],
    );
    // L3: suggested layout from the triage request.
    run_layout(
        "L3-suggested",
        &[10 * ADA],
        &[10_100_000, 19_900_000, 300_000, 500_000, 1_000_000],
    );
    // L4: three outputs; Phase 1 covers everything with the 29 ADA UTxO (p=1/2), Phase 2 swaps it for the 12 ADA
    // one (closer to 2x10), the released 29 ADA one never comes back to the available set.
    run_layout(
        "L4-three-outputs",
        &[10 * ADA, 9_500_000, 9 * ADA],
        &[29 * ADA, 12 * ADA],
    );
    // L5: a "wallet-like" mix.
    run_layout(
        "L5-wallet-mix",
        &[10 * ADA],
        &[
            2_000_000, 3_500_000, 5_000_000, 7_000_000, 10_050_000, 10_100_000, 12_000_000,
            15_000_000, 19_900_000, 25_000_000, 40_000_000, 1_200_000,
        ],
    );
    // L6: two outputs, wallet-like mix.
    run_layout(
        "L6-two-outputs-mix",
        &[10 * ADA, 4 * ADA],
        &[
            2_000_000, 3_500_000, 4_050_000, 5_000_000, 10_050_000, 10_100_000, 14_100_000,
            1_200_000, 600_000,
        ],
    );
}
