use cardano_serialization_lib::*;
#[test]
fn bytes_declared_len_max() {
    let r = std::panic::catch_unwind(|| PlutusScript::from_bytes(vec![0x5b, 0xff, 0xff, 0xff, 0xff, 0xff, 0xff, 0xff, 0xff]).is_ok());
    println!("PlutusScript::from_bytes(5b ff*8) -> {:?}", r.map_err(|e| e.downcast_ref::<String>().cloned().or(e.downcast_ref::<&str>().map(|s| s.to_string()))));
    let r = std::panic::catch_unwind(|| AssetName::from_bytes(vec![0x5b, 0x80, 0, 0, 0, 0, 0, 0, 0]).is_ok());
    println!("AssetName::from_bytes(5b 80 00*7) -> {:?}", r.map_err(|e| e.downcast_ref::<String>().cloned().or(e.downcast_ref::<&str>().map(|s| s.to_string()))));
    let r = std::panic::catch_unwind(|| URL::from_bytes(vec![0x7b, 0xff, 0xff, 0xff, 0xff, 0xff, 0xff, 0xff, 0xff]).is_ok());
    println!("URL::from_bytes(7b ff*8) -> {:?}", r.map_err(|e| e.downcast_ref::<String>().cloned().or(e.downcast_ref::<&str>().map(|s| s.to_string()))));
}
