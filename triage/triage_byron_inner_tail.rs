// triage: junk after the 3-tuple inside the CRC-protected payload of a Byron address. Prints only.
use cardano_serialization_lib::*;
fn crc32(data: &[u8]) -> u32 {
    let mut crc = 0xffff_ffffu32;
    for &b in data {
        crc ^= b as u32;
        for _ in 0..8 { crc = if crc & 1 != 0 { (crc >> 1) ^ 0xedb8_8320 } else { crc >> 1 }; }
    }
    !crc
}
#[test]
fn byron_inner_tail() {
    let a = ByronAddress::from_base58("Ae2tdPwUPEZ3MHKkpT5Bpj549vrRH7nBqYjNXnCV8G2Bc2YxNcGHEa8ykDp").unwrap();
    let b = a.to_bytes();
    // 82 d8 18 58 <n> <payload> 1a <crc>
    assert_eq!(&b[..4], &[0x82, 0xd8, 0x18, 0x58]);
    let n = b[4] as usize;
    let mut payload = b[5..5 + n].to_vec();
    payload.push(0x00); // junk item after the 3-tuple
    let mut out = vec![0x82, 0xd8, 0x18, 0x58, payload.len() as u8];
    out.extend_from_slice(&payload);
    out.push(0x1a);
    out.extend_from_slice(&crc32(&payload).to_be_bytes());
    let r = ByronAddress::from_bytes(out.clone());
    println!("from_bytes(inner tail) ok={} same_bytes_back={:?}", r.is_ok(), r.ok().map(|x| x.to_bytes() == out));
    let r2 = Address::from_bytes(out.clone());
    println!("Address::from_bytes ok={}", r2.is_ok());
}
