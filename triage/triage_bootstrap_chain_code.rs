// triage: BootstrapWitness::new with a chain code that is not 32 bytes. Prints only.
use cardano_serialization_lib::*;
#[test]
fn bw_chain_code() {
    let sk = PrivateKey::from_normal_bytes(&[7u8; 32]).unwrap();
    let vkey = Vkey::new(&sk.to_public());
    let sig = sk.sign(&[1, 2, 3]);
    let bw = BootstrapWitness::new(&vkey, &sig, vec![0u8; 3], vec![0xa0]);
    let b = bw.to_bytes();
    println!("bytes {} ; reparse ok {}", hex::encode(&b), BootstrapWitness::from_bytes(b.clone()).is_ok());
}
