#![allow(deprecated)]
// Runtime triage, batch 3. Every test only PRINTS what it observes.
// Run: cargo test --offline --test triage_batch3 -- --nocapture --test-threads 1

use cardano_serialization_lib::*;
use std::collections::BTreeSet;
use std::panic::{catch_unwind, AssertUnwindSafe};

// ---------------------------------------------------------------- helpers

fn cfg_builder() -> TransactionBuilderConfigBuilder {
    TransactionBuilderConfigBuilder::new()
        .fee_algo(&LinearFee::new(&BigNum::from(44u64), &BigNum::from(155381u64)))
        .pool_deposit(&BigNum::from(500000000u64))
        .key_deposit(&BigNum::from(2000000u64))
        .max_value_size(4000)
        .max_tx_size(8000)
        .coins_per_utxo_byte(&BigNum::from(34482u64 / 8))
        .ex_unit_prices(&ExUnitPrices::new(
            &UnitInterval::new(&BigNum::from(577u64), &BigNum::from(10000u64)),
            &UnitInterval::new(&BigNum::from(721u64), &BigNum::from(10000000u64)),
        ))
}

fn cfg_plain() -> TransactionBuilderConfig {
    cfg_builder().build().unwrap()
}

fn cfg_with_ref_fee() -> TransactionBuilderConfig {
    cfg_builder()
        .ref_script_coins_per_byte(&UnitInterval::new(
            &BigNum::from(15u64),
            &BigNum::from(1u64),
        ))
        .build()
        .unwrap()
}

fn key_hash(x: u8) -> Ed25519KeyHash {
    Ed25519KeyHash::from_bytes(vec![x; 28]).unwrap()
}

fn script_hash(x: u8) -> ScriptHash {
    ScriptHash::from_bytes(vec![x; 28]).unwrap()
}

fn base_address(x: u8) -> Address {
    BaseAddress::new(
        NetworkInfo::testnet_preprod().network_id(),
        &Credential::from_keyhash(&key_hash(x)),
        &Credential::from_keyhash(&key_hash(x.wrapping_add(100))),
    )
    .to_address()
}

fn tx_hash(x: u8) -> TransactionHash {
    TransactionHash::from_bytes(vec![x; 32]).unwrap()
}

fn tx_input(x: u8, idx: u32) -> TransactionInput {
    TransactionInput::new(&tx_hash(x), idx)
}

fn describe<T, E: std::fmt::Debug>(r: &Result<T, E>) -> String {
    match r {
        Ok(_) => "Ok".to_string(),
        Err(e) => format!("Err({:?})", e),
    }
}

fn panic_msg(e: Box<dyn std::any::Any + Send>) -> String {
    if let Some(s) = e.downcast_ref::<String>() {
        s.clone()
    } else if let Some(s) = e.downcast_ref::<&str>() {
        s.to_string()
    } else {
        "<non-string panic>".to_string()
    }
}

// ---------------------------------------------------------------- (1)

fn c01_case(label: &str, addr_bytes: Vec<u8>) {
    // legacy output: 82 <bytes addr> 00
    let mut raw = vec![0x82u8];
    assert!(addr_bytes.len() >= 24 && addr_bytes.len() < 256);
    raw.push(0x58);
    raw.push(addr_bytes.len() as u8);
    raw.extend(addr_bytes.iter());
    raw.push(0x00);
    let input_hex = hex::encode(&raw);
    println!("[C01:{}] input output hex  = {}", label, input_hex);
    let r = catch_unwind(AssertUnwindSafe(|| TransactionOutput::from_bytes(raw.clone())));
    match r {
        Err(e) => println!("[C01:{}] PANIC: {}", label, panic_msg(e)),
        Ok(Err(e)) => println!("[C01:{}] decode Err: {:?}", label, e),
        Ok(Ok(out)) => {
            let addr = out.address();
            println!(
                "[C01:{}] decoded ok: is_malformed={} kind={:?} address.to_hex={} (len {} vs embedded len {})",
                label,
                addr.is_malformed(),
                addr.kind(),
                addr.to_hex(),
                addr.to_bytes().len(),
                addr_bytes.len()
            );
            let re = hex::encode(out.to_bytes());
            println!("[C01:{}] re-encoded output hex = {}", label, re);
            println!("[C01:{}] re-encoded == input ? {}", label, re == input_hex);
        }
    }
    // strict path for comparison
    let strict = Address::from_bytes(addr_bytes.clone());
    println!("[C01:{}] strict Address::from_bytes -> {}", label, describe(&strict));
}

#[test]
fn c01_embedded_address_trailing_bytes() {
    let mut ent = vec![0x61u8];
    ent.extend(vec![0x11u8; 28]);
    ent.extend(vec![0xAA, 0xBB, 0xCC]);
    c01_case("enterprise+3", ent);

    let mut base = vec![0x01u8];
    base.extend(vec![0x22u8; 56]);
    base.extend(vec![0xDD, 0xEE]);
    c01_case("base+2", base);

    let mut rew = vec![0xe1u8];
    rew.extend(vec![0x33u8; 28]);
    rew.extend(vec![0xFF]);
    c01_case("reward+1", rew);

    // control: exact enterprise address
    let mut ent_ok = vec![0x61u8];
    ent_ok.extend(vec![0x11u8; 28]);
    c01_case("enterprise exact (control)", ent_ok);

    // control: too SHORT enterprise address -> expected malformed & verbatim
    let mut ent_short = vec![0x61u8];
    ent_short.extend(vec![0x11u8; 25]);
    c01_case("enterprise short (control)", ent_short);
}

// ---------------------------------------------------------------- (2)

#[test]
fn c02_emip3_empty_plaintext() {
    let password = "70617373776f7264"; // "password"
    let salt = "50515253c0c1c2c3c4c5c6c750515253c0c1c2c3c4c5c6c750515253c0c1c2c3";
    let nonce = "50515253c0c1c2c3c4c5c6c7";
    for (label, data) in [("empty", ""), ("1 byte", "ab"), ("2 bytes", "abcd")] {
        let enc = catch_unwind(|| encrypt_with_password(password, salt, nonce, data));
        match enc {
            Err(e) => println!("[C02:{}] encrypt PANIC: {}", label, panic_msg(e)),
            Ok(Err(e)) => println!("[C02:{}] encrypt Err: {:?}", label, e),
            Ok(Ok(ct)) => {
                println!(
                    "[C02:{}] encrypt Ok, ciphertext hex len {} ({} bytes): {}",
                    label,
                    ct.len(),
                    ct.len() / 2,
                    ct
                );
                let dec = catch_unwind(|| decrypt_with_password(password, &ct));
                match dec {
                    Err(e) => println!("[C02:{}] decrypt PANIC: {}", label, panic_msg(e)),
                    Ok(Err(e)) => println!("[C02:{}] decrypt Err: {:?}", label, e),
                    Ok(Ok(pt)) => println!(
                        "[C02:{}] decrypt Ok: {:?} ; equals plaintext? {}",
                        label,
                        pt,
                        pt == data
                    ),
                }
            }
        }
    }
}

// ---------------------------------------------------------------- (3)/(4)

fn summarize_batches(label: &str, batches: &TransactionBatchList) -> (BTreeSet<String>, u64) {
    let mut distinct_inputs = BTreeSet::new();
    let mut total_inputs_listed = 0usize;
    let mut total_out_plus_fee = 0u64;
    let mut tx_count = 0usize;
    for b in 0..batches.len() {
        let batch = batches.get(b);
        for t in 0..batch.len() {
            let tx = batch.get(t);
            tx_count += 1;
            let body = tx.body();
            let ins = body.inputs();
            let mut in_s = vec![];
            for i in 0..ins.len() {
                let inp = ins.get(i);
                let s = format!("{}#{}", inp.transaction_id().to_hex(), inp.index());
                in_s.push(format!("#{}", inp.index()));
                distinct_inputs.insert(s);
                total_inputs_listed += 1;
            }
            let outs = body.outputs();
            let mut out_s = vec![];
            for i in 0..outs.len() {
                let o = outs.get(i);
                let c: u64 = o.amount().coin().into();
                total_out_plus_fee += c;
                let ma = o
                    .amount()
                    .multiasset()
                    .map(|m| m.to_json().unwrap())
                    .unwrap_or("none".to_string());
                out_s.push(format!("{} lovelace, ma={}", c, ma));
            }
            let fee: u64 = body.fee().into();
            total_out_plus_fee += fee;
            println!(
                "[{}] batch {} tx {}: inputs {:?} outputs {:?} fee {} ; tx body hex {}",
                label,
                b,
                t,
                in_s,
                out_s,
                fee,
                hex::encode(body.to_bytes())
            );
        }
    }
    println!(
        "[{}] tx count {} ; inputs listed over all txs {} ; DISTINCT inputs {} ; sum(outputs)+fees = {}",
        label,
        tx_count,
        total_inputs_listed,
        distinct_inputs.len(),
        total_out_plus_fee
    );
    (distinct_inputs, total_out_plus_fee)
}

fn token_ma(policy: u8, name: &[u8], amount: u64) -> MultiAsset {
    let mut ma = MultiAsset::new();
    ma.set_asset(
        &script_hash(policy),
        &AssetName::new(name.to_vec()).unwrap(),
        &BigNum::from(amount),
    );
    ma
}

#[test]
fn c03_send_all_empty_multiasset_utxo() {
    let cfg = cfg_plain();
    let from = base_address(1);
    let dest = base_address(50);

    let variants: Vec<(&str, Value)> = vec![
        ("Some(MultiAsset::new())", {
            let mut v = Value::new(&BigNum::from(4_000_000u64));
            v.set_multiasset(&MultiAsset::new());
            v
        }),
        ("policy with empty Assets", {
            let mut ma = MultiAsset::new();
            ma.insert(&script_hash(9), &Assets::new());
            let mut v = Value::new(&BigNum::from(4_000_000u64));
            v.set_multiasset(&ma);
            v
        }),
        ("plain Value::new (control)", Value::new(&BigNum::from(4_000_000u64))),
    ];

    for (label, third_value) in variants {
        let lbl = format!("C03:{}", label);
        println!(
            "[{}] third utxo value json = {} ; cbor = {}",
            lbl,
            third_value.to_json().unwrap(),
            hex::encode(third_value.to_bytes())
        );
        let mut utxos = TransactionUnspentOutputs::new();
        utxos.add(&TransactionUnspentOutput::new(
            &tx_input(0xA0, 0),
            &TransactionOutput::new(&from, &Value::new(&BigNum::from(5_000_000u64))),
        ));
        utxos.add(&TransactionUnspentOutput::new(
            &tx_input(0xA0, 1),
            &TransactionOutput::new(
                &from,
                &Value::new_with_assets(&BigNum::from(3_000_000u64), &token_ma(7, b"tok", 10)),
            ),
        ));
        utxos.add(&TransactionUnspentOutput::new(
            &tx_input(0xA0, 2),
            &TransactionOutput::new(&from, &third_value),
        ));
        let offered: u64 = 5_000_000 + 3_000_000 + 4_000_000;
        let r = catch_unwind(AssertUnwindSafe(|| create_send_all(&dest, &utxos, &cfg)));
        match r {
            Err(e) => println!("[{}] PANIC: {}", lbl, panic_msg(e)),
            Ok(Err(e)) => println!("[{}] create_send_all Err: {:?}", lbl, e),
            Ok(Ok(batches)) => {
                let (distinct, total) = summarize_batches(&lbl, &batches);
                println!(
                    "[{}] offered utxos 3, total offered lovelace {} ; distinct inputs spent {} ; outputs+fees {} ; difference {}",
                    lbl,
                    offered,
                    distinct.len(),
                    total,
                    offered as i128 - total as i128
                );
                println!(
                    "[{}] input #2 (third utxo) spent? {}",
                    lbl,
                    distinct.iter().any(|s| s.ends_with("#2"))
                );
            }
        }
    }
}

#[test]
fn c04_send_all_duplicate_utxo() {
    let cfg = cfg_plain();
    let from = base_address(1);
    let dest = base_address(50);

    // variant A: duplicate pure ADA utxo
    {
        let u0 = TransactionUnspentOutput::new(
            &tx_input(0xB0, 0),
            &TransactionOutput::new(&from, &Value::new(&BigNum::from(5_000_000u64))),
        );
        let u1 = TransactionUnspentOutput::new(
            &tx_input(0xB0, 1),
            &TransactionOutput::new(&from, &Value::new(&BigNum::from(3_000_000u64))),
        );
        let mut utxos = TransactionUnspentOutputs::new();
        utxos.add(&u0);
        utxos.add(&u1);
        utxos.add(&u0); // SAME utxo again
        let distinct_offered: u64 = 8_000_000;
        let r = catch_unwind(AssertUnwindSafe(|| create_send_all(&dest, &utxos, &cfg)));
        match r {
            Err(e) => println!("[C04:ada-dup] PANIC: {}", panic_msg(e)),
            Ok(Err(e)) => println!("[C04:ada-dup] create_send_all Err: {:?}", e),
            Ok(Ok(batches)) => {
                let (distinct, total) = summarize_batches("C04:ada-dup", &batches);
                println!(
                    "[C04:ada-dup] list len 3 (2 distinct), distinct offered lovelace {} ; distinct inputs in txs {} ; outputs+fees {} ; surplus created {}",
                    distinct_offered,
                    distinct.len(),
                    total,
                    total as i128 - distinct_offered as i128
                );
            }
        }
    }
    // variant B: duplicate token utxo
    {
        let u0 = TransactionUnspentOutput::new(
            &tx_input(0xB1, 0),
            &TransactionOutput::new(
                &from,
                &Value::new_with_assets(&BigNum::from(3_000_000u64), &token_ma(7, b"tok", 10)),
            ),
        );
        let u1 = TransactionUnspentOutput::new(
            &tx_input(0xB1, 1),
            &TransactionOutput::new(&from, &Value::new(&BigNum::from(5_000_000u64))),
        );
        let mut utxos = TransactionUnspentOutputs::new();
        utxos.add(&u0);
        utxos.add(&u1);
        utxos.add(&u0);
        let distinct_offered: u64 = 8_000_000;
        let r = catch_unwind(AssertUnwindSafe(|| create_send_all(&dest, &utxos, &cfg)));
        match r {
            Err(e) => println!("[C04:token-dup] PANIC: {}", panic_msg(e)),
            Ok(Err(e)) => println!("[C04:token-dup] create_send_all Err: {:?}", e),
            Ok(Ok(batches)) => {
                let (distinct, total) = summarize_batches("C04:token-dup", &batches);
                println!(
                    "[C04:token-dup] list len 3 (2 distinct), distinct offered lovelace {} and 10 tokens ; distinct inputs in txs {} ; outputs+fees {} ; surplus created {}",
                    distinct_offered,
                    distinct.len(),
                    total,
                    total as i128 - distinct_offered as i128
                );
            }
        }
    }
}

// ---------------------------------------------------------------- (5)

fn langs(s: &PlutusScripts) -> Vec<String> {
    (0..s.len())
        .map(|i| {
            let sc = s.get(i);
            format!(
                "{:?}:{}",
                sc.language_version().kind(),
                hex::encode(sc.bytes())
            )
        })
        .collect()
}

#[test]
fn c05_plutus_script_order() {
    let v2 = PlutusScript::new_v2(vec![0xA1, 0xA2, 0xA3]);
    let v1 = PlutusScript::new(vec![0xB1, 0xB2, 0xB3]);
    let mut scripts = PlutusScripts::new();
    scripts.add(&v2);
    scripts.add(&v1);
    println!("[C05] original order: {:?}", langs(&scripts));

    // witness set
    let mut ws = TransactionWitnessSet::new();
    ws.set_plutus_scripts(&scripts);
    println!(
        "[C05:ws] order held by witness set before encode: {:?}",
        langs(&ws.plutus_scripts().unwrap())
    );
    let bytes = ws.to_bytes();
    println!("[C05:ws] to_bytes = {}", hex::encode(&bytes));
    match TransactionWitnessSet::from_bytes(bytes.clone()) {
        Err(e) => println!("[C05:ws] from_bytes Err {:?}", e),
        Ok(dec) => {
            println!(
                "[C05:ws] order after decode: {:?}",
                langs(&dec.plutus_scripts().unwrap())
            );
            println!("[C05:ws] decoded == original ? {}", dec == ws);
            println!(
                "[C05:ws] decoded.to_bytes == original.to_bytes ? {}",
                dec.to_bytes() == bytes
            );
        }
    }
    // control with [v1, v2]
    let mut scripts_c = PlutusScripts::new();
    scripts_c.add(&v1);
    scripts_c.add(&v2);
    let mut ws_c = TransactionWitnessSet::new();
    ws_c.set_plutus_scripts(&scripts_c);
    let dec_c = TransactionWitnessSet::from_bytes(ws_c.to_bytes()).unwrap();
    println!(
        "[C05:ws control v1,v2] decoded == original ? {} (order after {:?})",
        dec_c == ws_c,
        langs(&dec_c.plutus_scripts().unwrap())
    );

    // auxiliary data
    let mut aux = AuxiliaryData::new();
    aux.set_plutus_scripts(&scripts);
    println!(
        "[C05:aux] order before encode: {:?}",
        langs(&aux.plutus_scripts().unwrap())
    );
    let abytes = aux.to_bytes();
    println!("[C05:aux] to_bytes = {}", hex::encode(&abytes));
    match AuxiliaryData::from_bytes(abytes.clone()) {
        Err(e) => println!("[C05:aux] from_bytes Err {:?}", e),
        Ok(dec) => {
            println!(
                "[C05:aux] order after decode: {:?}",
                langs(&dec.plutus_scripts().unwrap())
            );
            println!("[C05:aux] decoded == original ? {}", dec == aux);
            println!(
                "[C05:aux] decoded.to_bytes == original.to_bytes ? {}",
                dec.to_bytes() == abytes
            );
        }
    }
    let mut aux_c = AuxiliaryData::new();
    aux_c.set_plutus_scripts(&scripts_c);
    let dec_ac = AuxiliaryData::from_bytes(aux_c.to_bytes()).unwrap();
    println!(
        "[C05:aux control v1,v2] decoded == original ? {}",
        dec_ac == aux_c
    );
}

// ---------------------------------------------------------------- (6)

fn minimal_body_hex(tagged_inputs: bool) -> String {
    // { 0: [[h32, 0]], 1: [[enterprise addr, 1000000]], 2: 170000 }
    let mut s = String::new();
    s.push_str("a3");
    s.push_str("00");
    if tagged_inputs {
        s.push_str("d90102");
    }
    s.push_str("81");
    s.push_str("82");
    s.push_str("5820");
    s.push_str(&hex::encode(vec![0xC1u8; 32]));
    s.push_str("00");
    s.push_str("01");
    s.push_str("81");
    s.push_str("82");
    s.push_str("581d61");
    s.push_str(&hex::encode(vec![0x11u8; 28]));
    s.push_str("1a000f4240");
    s.push_str("02");
    s.push_str("1a00029810");
    s
}

fn ws_part_of(tx_hex: &str, body_hex: &str) -> String {
    // 84 <body> <ws> f5 f6
    let start = 2 + body_hex.len();
    let end = tx_hex.len() - 4;
    if tx_hex.starts_with("84") && &tx_hex[2..start] == body_hex && end >= start {
        tx_hex[start..end].to_string()
    } else {
        format!("<could not slice; whole tx = {}>", tx_hex)
    }
}

#[test]
fn c06a_fixed_tx_empty_plutus_v1_field() {
    for (label, ws) in [
        ("key3 empty array", "a10380"),
        ("key6 empty array", "a10680"),
        ("key7 empty tagged array", "a107d9010280"),
        ("key1 empty native scripts (control)", "a10180"),
        ("key4 empty datums (control)", "a10480"),
        ("key0 empty vkeys (control)", "a10080"),
        ("key3 empty + key6 one v2 script", "a203800681430a0b0c"),
    ] {
        let body = minimal_body_hex(false);
        let tx_hex = format!("84{}{}f5f6", body, ws);
        let r = catch_unwind(|| FixedTransaction::from_hex(&tx_hex));
        match r {
            Err(e) => println!("[C06a:{}] PANIC {}", label, panic_msg(e)),
            Ok(Err(e)) => println!("[C06a:{}] from_hex Err {:?}", label, e),
            Ok(Ok(ftx)) => {
                let out = ftx.to_hex();
                println!(
                    "[C06a:{}] input ws = {} ; output ws = {} ; raw_witness_set() = {} ; whole tx equal? {}",
                    label,
                    ws,
                    ws_part_of(&out, &body),
                    hex::encode(ftx.raw_witness_set()),
                    out == tx_hex
                );
            }
        }
        // Same through FixedTxWitnessesSet directly
        match FixedTxWitnessesSet::from_bytes(hex::decode(ws).unwrap()) {
            Ok(f) => println!(
                "[C06a:{}] FixedTxWitnessesSet round trip: {} -> {}",
                label,
                ws,
                hex::encode(f.to_bytes())
            ),
            Err(e) => println!("[C06a:{}] FixedTxWitnessesSet Err {:?}", label, e),
        }
    }
}

#[test]
fn c06b_fixed_tx_readd_same_vkey_witness() {
    let sk = PrivateKey::from_normal_bytes(&[0x42u8; 32]).unwrap();

    let cases: Vec<(&str, bool, &str, &str)> = vec![
        // label, body tagged?, prefix before witness, suffix after witness
        ("untagged body, vkeys indefinite array 9f..ff", false, "a1009f", "ff"),
        ("TAGGED body, vkeys definite WITHOUT 258 tag", true, "a10081", ""),
        ("untagged body, vkeys WITH 258 tag", false, "a100d9010281", ""),
        ("TAGGED body, vkeys tagged indefinite d90102 9f..ff", true, "a100d901029f", "ff"),
        ("untagged body, vkeys definite untagged (control)", false, "a10081", ""),
        ("TAGGED body, vkeys tagged definite (control)", true, "a100d9010281", ""),
        ("untagged body, array len in 2 bytes 9801 (non-minimal)", false, "a1009801", ""),
    ];

    for (label, tagged, prefix, suffix) in cases {
        let prefix = prefix.replace(' ', "");
        let body = minimal_body_hex(tagged);
        let body_bytes = hex::decode(&body).unwrap();
        let hash = match FixedTransaction::new_from_body_bytes(&body_bytes) {
            Ok(f) => f.transaction_hash(),
            Err(e) => {
                println!("[C06b:{}] body rejected: {:?}", label, e);
                continue;
            }
        };
        let w = make_vkey_witness(&hash, &sk);
        let w_hex = hex::encode(w.to_bytes());
        let ws_hex = format!("{}{}{}", prefix, w_hex, suffix);
        let tx_hex = format!("84{}{}f5f6", body, ws_hex);
        let r = catch_unwind(|| FixedTransaction::from_hex(&tx_hex));
        let mut ftx = match r {
            Err(e) => {
                println!("[C06b:{}] PANIC {}", label, panic_msg(e));
                continue;
            }
            Ok(Err(e)) => {
                println!("[C06b:{}] from_hex Err {:?}", label, e);
                continue;
            }
            Ok(Ok(f)) => f,
        };
        let before = ftx.to_hex();
        println!(
            "[C06b:{}] after from_hex: to_hex == input ? {} ; ws before = {}...{} (prefix {}, suffix {:?})",
            label,
            before == tx_hex,
            &ws_part_of(&before, &body)[..prefix.len().min(ws_part_of(&before, &body).len())],
            "",
            prefix,
            suffix
        );
        ftx.add_vkey_witness(&w); // the SAME witness again
        let after = ftx.to_hex();
        let ws_after = ws_part_of(&after, &body);
        println!(
            "[C06b:{}] after add_vkey_witness(same W): vkeys count {} ; to_hex == input ? {}",
            label,
            ftx.witness_set().vkeys().map(|v| v.len()).unwrap_or(0),
            after == tx_hex
        );
        println!("[C06b:{}]   ws input  = {}", label, ws_hex);
        println!("[C06b:{}]   ws after  = {}", label, ws_after);
    }
}

// ---------------------------------------------------------------- (7)

fn vote_redeemer(n: u64) -> Redeemer {
    Redeemer::new(
        &RedeemerTag::new_vote(),
        &BigNum::zero(),
        &PlutusData::new_integer(&BigInt::from(n)),
        &ExUnits::new(&BigNum::from(1000u64 * n), &BigNum::from(2000u64 * n)),
    )
}

fn dump_plutus_witnesses(label: &str, ws: &PlutusWitnesses) {
    println!("[{}] get_plutus_witnesses().len() = {}", label, ws.len());
    for i in 0..ws.len() {
        let w = ws.get(i);
        let r = w.redeemer();
        println!(
            "[{}]   witness {}: script hash {:?} redeemer tag {:?} index {} data {} ex_units {}",
            label,
            i,
            w.script().map(|s| s.hash().to_hex()),
            r.tag().kind(),
            r.index().to_str(),
            r.data().to_hex(),
            r.ex_units().to_json().unwrap()
        );
    }
}

#[test]
fn c07_voting_builder_second_witness_ignored() {
    let script_a = PlutusScript::new_v2(vec![0x01, 0x02, 0x03]);
    let script_b = PlutusScript::new_v2(vec![0x09, 0x08, 0x07]);
    println!(
        "[C07] script A hash {} ; script B hash {}",
        script_a.hash().to_hex(),
        script_b.hash().to_hex()
    );
    let voter = Voter::new_drep_credential(&Credential::from_scripthash(&script_a.hash()));
    let act1 = GovernanceActionId::new(&tx_hash(0x71), 0);
    let act2 = GovernanceActionId::new(&tx_hash(0x72), 1);
    let proc_yes = VotingProcedure::new(VoteKind::Yes);
    let proc_no = VotingProcedure::new(VoteKind::No);

    // variant 1: second witness = different script AND different redeemer
    {
        let wit_a = PlutusWitness::new_without_datum(&script_a, &vote_redeemer(1));
        let wit_b = PlutusWitness::new_without_datum(&script_b, &vote_redeemer(2));
        let mut vb = VotingBuilder::new();
        let r1 = vb.add_with_plutus_witness(&voter, &act1, &proc_yes, &wit_a);
        println!("[C07:v1] first add  -> {}", describe(&r1));
        dump_plutus_witnesses("C07:v1 after 1st", &vb.get_plutus_witnesses());
        let r2 = vb.add_with_plutus_witness(&voter, &act2, &proc_no, &wit_b);
        println!("[C07:v1] second add (script B, redeemer data 2) -> {}", describe(&r2));
        dump_plutus_witnesses("C07:v1 after 2nd", &vb.get_plutus_witnesses());
        let built = vb.build();
        let ids = built.get_governance_action_ids_by_voter(&voter);
        println!("[C07:v1] votes recorded for the voter: {}", ids.len());
    }
    // variant 2: same script, different redeemer
    {
        let wit_a = PlutusWitness::new_without_datum(&script_a, &vote_redeemer(1));
        let wit_a2 = PlutusWitness::new_without_datum(&script_a, &vote_redeemer(5));
        let mut vb = VotingBuilder::new();
        let r1 = vb.add_with_plutus_witness(&voter, &act1, &proc_yes, &wit_a);
        let r2 = vb.add_with_plutus_witness(&voter, &act2, &proc_no, &wit_a2);
        println!(
            "[C07:v2] first add -> {} ; second add (same script, redeemer data 5) -> {}",
            describe(&r1),
            describe(&r2)
        );
        dump_plutus_witnesses("C07:v2 after 2nd", &vb.get_plutus_witnesses());
    }
    // variant 3: same gov action id re-added with another witness (pure replacement attempt)
    {
        let wit_a = PlutusWitness::new_without_datum(&script_a, &vote_redeemer(1));
        let wit_a2 = PlutusWitness::new_without_datum(&script_a, &vote_redeemer(5));
        let mut vb = VotingBuilder::new();
        let _ = vb.add_with_plutus_witness(&voter, &act1, &proc_yes, &wit_a);
        let r2 = vb.add_with_plutus_witness(&voter, &act1, &proc_no, &wit_a2);
        println!("[C07:v3] re-add same action with redeemer 5 -> {}", describe(&r2));
        dump_plutus_witnesses("C07:v3 after re-add", &vb.get_plutus_witnesses());
        let built = vb.build();
        println!(
            "[C07:v3] vote now stored for act1: {:?}",
            built.get(&voter, &act1).map(|p| p.vote_kind())
        );
    }
    // variant 4: plutus witness first, then native-script source for the same voter
    {
        let wit_a = PlutusWitness::new_without_datum(&script_a, &vote_redeemer(1));
        let ns = NativeScript::new_script_pubkey(&ScriptPubkey::new(&key_hash(3)));
        let mut vb = VotingBuilder::new();
        let _ = vb.add_with_plutus_witness(&voter, &act1, &proc_yes, &wit_a);
        let r2 = vb.add_with_native_script(&voter, &act2, &proc_no, &NativeScriptSource::new(&ns));
        println!("[C07:v4] add_with_native_script after plutus -> {}", describe(&r2));
        println!(
            "[C07:v4] plutus witnesses {} ; native scripts {}",
            vb.get_plutus_witnesses().len(),
            vb.get_native_scripts().len()
        );
    }
}

// ---------------------------------------------------------------- (8)

#[test]
fn c08_collateral_return_below_min_ada() {
    let cfg = cfg_plain();
    let mut tb = TransactionBuilder::new(&cfg);

    let mut inputs = TxInputsBuilder::new();
    inputs.add_key_input(
        &key_hash(1),
        &tx_input(0x81, 0),
        &Value::new(&BigNum::from(10_000_000u64)),
    );
    tb.set_inputs(&inputs);

    let mut coll = TxInputsBuilder::new();
    coll.add_key_input(
        &key_hash(1),
        &tx_input(0x82, 0),
        &Value::new(&BigNum::from(5_000_000u64)),
    );
    tb.set_collateral(&coll);

    let r = tb.add_output(&TransactionOutput::new(
        &base_address(2),
        &Value::new(&BigNum::from(2_000_000u64)),
    ));
    println!("[C08] add_output(2 ADA) -> {}", describe(&r));

    let tiny = TransactionOutput::new(&base_address(3), &Value::new(&BigNum::from(1u64)));
    let min_ada = min_ada_for_output(&tiny, &DataCost::new_coins_per_byte(&BigNum::from(34482u64 / 8)));
    println!("[C08] min ada for the 1-lovelace output = {:?}", min_ada.map(|c| c.to_str()));

    // comparison: add_output with the same tiny output
    let mut tb_cmp = tb.clone();
    let r_out = tb_cmp.add_output(&tiny);
    println!("[C08] add_output(1 lovelace)                 -> {}", describe(&r_out));
    // comparison: checked variant
    let mut tb_cmp2 = tb.clone();
    let r_chk = tb_cmp2.set_collateral_return_and_total(&tiny);
    println!("[C08] set_collateral_return_and_total(1 lovelace) -> {}", describe(&r_chk));

    // the candidate: unchecked setter (returns unit)
    tb.set_collateral_return(&tiny);
    tb.set_total_collateral(&BigNum::from(4_999_999u64));
    println!("[C08] set_collateral_return(1 lovelace) accepted (no Result to inspect)");

    let chg = tb.add_change_if_needed(&base_address(4));
    println!("[C08] add_change_if_needed -> {}", describe(&chg));
    let built = catch_unwind(AssertUnwindSafe(|| tb.build_tx()));
    match built {
        Err(e) => println!("[C08] build_tx PANIC {}", panic_msg(e)),
        Ok(Err(e)) => {
            println!("[C08] build_tx Err {:?}", e);
            match tb.build_tx_unsafe() {
                Ok(tx) => println!(
                    "[C08] build_tx_unsafe Ok ; collateral_return coin = {:?}",
                    tx.body().collateral_return().map(|o| o.amount().coin().to_str())
                ),
                Err(e) => println!("[C08] build_tx_unsafe Err {:?}", e),
            }
        }
        Ok(Ok(tx)) => {
            let body = tx.body();
            println!(
                "[C08] build_tx Ok ; collateral_return coin = {:?} ; total_collateral = {:?} ; fee = {}",
                body.collateral_return().map(|o| o.amount().coin().to_str()),
                body.total_collateral().map(|c| c.to_str()),
                body.fee().to_str()
            );
            println!("[C08] body hex = {}", hex::encode(body.to_bytes()));
        }
    }
}

// ---------------------------------------------------------------- (9)

fn c09_builder() -> TransactionBuilder {
    let cfg = cfg_with_ref_fee();
    let mut tb = TransactionBuilder::new(&cfg);
    let mut inputs = TxInputsBuilder::new();
    inputs.add_key_input(
        &key_hash(1),
        &tx_input(0x91, 0),
        &Value::new(&BigNum::from(10_000_000u64)),
    );
    tb.set_inputs(&inputs);
    tb.add_output(&TransactionOutput::new(
        &base_address(2),
        &Value::new(&BigNum::from(2_000_000u64)),
    ))
    .unwrap();
    tb
}

#[test]
fn c09_reference_input_script_size_overwritten() {
    let x = tx_input(0x99, 7);
    let base = c09_builder();
    println!("[C09] min_fee, no reference input           = {}", describe_fee(base.min_fee()));

    let mut only_plain = c09_builder();
    only_plain.add_reference_input(&x);
    println!("[C09] min_fee, add_reference_input(x) only  = {}", describe_fee(only_plain.min_fee()));

    let mut tb = c09_builder();
    tb.add_script_reference_input(&x, 5000);
    println!("[C09] min_fee, add_script_reference_input(x,5000) = {}", describe_fee(tb.min_fee()));
    tb.add_reference_input(&x);
    println!("[C09] min_fee, then add_reference_input(x)        = {}", describe_fee(tb.min_fee()));
    println!("[C09] reference inputs in builder: {}", tb.get_reference_inputs().len());

    let mut rev = c09_builder();
    rev.add_reference_input(&x);
    rev.add_script_reference_input(&x, 5000);
    println!("[C09] reverse order (plain then script 5000) min_fee = {}", describe_fee(rev.min_fee()));

    // final built fee in the overwritten case
    let mut tb2 = c09_builder();
    tb2.add_script_reference_input(&x, 5000);
    let mut tb2_keep = tb2.clone();
    tb2.add_reference_input(&x);
    let _ = tb2.add_change_if_needed(&base_address(4));
    let _ = tb2_keep.add_change_if_needed(&base_address(4));
    println!(
        "[C09] built fee: script-size kept = {:?} ; after overwrite = {:?}",
        tb2_keep.build_tx().map(|t| t.body().fee().to_str()).map_err(|e| format!("{:?}", e)),
        tb2.build_tx().map(|t| t.body().fee().to_str()).map_err(|e| format!("{:?}", e))
    );
}

fn describe_fee(r: Result<Coin, JsError>) -> String {
    match r {
        Ok(c) => c.to_str(),
        Err(e) => format!("Err({:?})", e),
    }
}

// ---------------------------------------------------------------- (10)

fn c10_builder() -> TransactionBuilder {
    let cfg = cfg_with_ref_fee();
    let mut tb = TransactionBuilder::new(&cfg);
    let mut inputs = TxInputsBuilder::new();
    inputs.add_key_input(
        &key_hash(1),
        &tx_input(0xA1, 0),
        &Value::new(&BigNum::from(10_000_000u64)),
    );
    tb.set_inputs(&inputs);
    tb.add_output(&TransactionOutput::new(
        &base_address(2),
        &Value::new(&BigNum::from(2_000_000u64)),
    ))
    .unwrap();
    tb
}

#[test]
fn c10_mint_native_ref_script_fee() {
    let ref_in = tx_input(0xAA, 3);
    let asset = AssetName::new(b"tok".to_vec()).unwrap();
    let one = Int::new_i32(1);

    println!("[C10] min_fee without mint = {}", describe_fee(c10_builder().min_fee()));

    let mut native_fees = vec![];
    for size in [0usize, 3000usize] {
        let mut src = NativeScriptSource::new_ref_input(&script_hash(0x55), &ref_in, size);
        let mut signers = Ed25519KeyHashes::new();
        signers.add(&key_hash(1));
        src.set_required_signers(&signers);
        println!(
            "[C10] NativeScriptSource::new_ref_input(.., size {}) get_ref_script_size = {:?}",
            size,
            src.get_ref_script_size()
        );
        let mut mb = MintBuilder::new();
        let r = mb.add_asset(&MintWitness::new_native_script(&src), &asset, &one);
        println!("[C10] native mint add_asset -> {}", describe(&r));
        let mut tb = c10_builder();
        tb.set_mint_builder(&mb);
        let fee = tb.min_fee();
        println!(
            "[C10] NATIVE ref script size {} : min_fee = {} ; ref inputs in builder {}",
            size,
            describe_fee(fee.clone()),
            tb.get_reference_inputs().len()
        );
        native_fees.push(fee.ok());
    }
    println!("[C10] native fees (size 0 vs 3000) = {:?}", native_fees.iter().map(|f| f.map(|c| c.to_str())).collect::<Vec<_>>());

    // control A: same native mint with size 3000 + explicit add_script_reference_input(ref_in, 3000)
    {
        let src = NativeScriptSource::new_ref_input(&script_hash(0x55), &ref_in, 3000);
        let mut mb = MintBuilder::new();
        mb.add_asset(&MintWitness::new_native_script(&src), &asset, &one).unwrap();
        let mut tb = c10_builder();
        tb.set_mint_builder(&mb);
        tb.add_script_reference_input(&ref_in, 3000);
        println!(
            "[C10] control: native mint + explicit add_script_reference_input(same input, 3000): min_fee = {}",
            describe_fee(tb.min_fee())
        );
    }

    // control B: plutus reference script
    let mut plutus_fees = vec![];
    for size in [0usize, 3000usize] {
        let src = PlutusScriptSource::new_ref_input(
            &script_hash(0x66),
            &ref_in,
            &Language::new_plutus_v2(),
            size,
        );
        let redeemer = Redeemer::new(
            &RedeemerTag::new_mint(),
            &BigNum::zero(),
            &PlutusData::new_integer(&BigInt::from(1u64)),
            &ExUnits::new(&BigNum::from(1000u64), &BigNum::from(2000u64)),
        );
        let mut mb = MintBuilder::new();
        let r = mb.add_asset(&MintWitness::new_plutus_script(&src, &redeemer), &asset, &one);
        println!("[C10] plutus mint add_asset -> {}", describe(&r));
        let mut tb = c10_builder();
        tb.set_mint_builder(&mb);
        let fee = tb.min_fee();
        println!(
            "[C10] PLUTUS ref script size {} : min_fee = {}",
            size,
            describe_fee(fee.clone())
        );
        plutus_fees.push(fee.ok());
    }
    println!("[C10] plutus fees (size 0 vs 3000) = {:?}", plutus_fees.iter().map(|f| f.map(|c| c.to_str())).collect::<Vec<_>>());
}
