// triage: PlutusMap key without values. Prints only.
use cardano_serialization_lib::*;
#[test]
fn pmap_empty_values() {
    let mut m = PlutusMap::new();
    let mut v = PlutusMapValues::new();
    v.add(&PlutusData::new_integer(&BigInt::from_str("1").unwrap()));
    m.insert(&PlutusData::new_bytes(vec![1]), &v);
    m.insert(&PlutusData::new_bytes(vec![2]), &PlutusMapValues::new());
    let b = m.to_bytes();
    let d = PlutusMap::from_bytes(b.clone()).unwrap();
    println!("len {} bytes {} decoded len {} equal {}", m.len(), hex::encode(&b), d.len(), d == m);
}
