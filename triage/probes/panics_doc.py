import os,re,sys,collections
root=os.popen("rustc +nightly --print sysroot").read().strip()+"/lib/rustlib/src/rust/library"
out=[]
for crate in ("core","alloc","std"):
    for dp,dn,fn in os.walk(os.path.join(root,crate,"src")):
        for f in fn:
            if not f.endswith(".rs"): continue
            p=os.path.join(dp,f); lines=open(p,errors="ignore").read().split("\n")
            i=0
            while i<len(lines):
                if re.match(r'\s*///\s*# Panics', lines[i]):
                    # gather doc text until non-doc
                    j=i+1; txt=[]
                    while j<len(lines) and re.match(r'\s*(///|#\[|#!\[)', lines[j]) :
                        if lines[j].strip().startswith("///"): txt.append(lines[j].strip()[3:].strip())
                        j+=1
                    # next fn signature
                    k=j
                    while k<len(lines) and k<j+8 and not re.search(r'\bfn\s+\w+', lines[k]): k+=1
                    m=re.search(r'\bfn\s+(\w+)', lines[k]) if k<len(lines) else None
                    ptxt=" ".join(txt[:txt.index("") if "" in txt[1:] else len(txt)])[:200]
                    # stop panic section at next '# ' header
                    sec=[]
                    for t in txt:
                        if t.startswith("# "): break
                        sec.append(t)
                    out.append((crate, os.path.relpath(p,root), m.group(1) if m else "?", " ".join(sec)[:160]))
                    i=j
                else: i+=1
print(len(out))
c=collections.Counter(o[0] for o in out); print(c)
res=[o for o in out if re.search(r'capacity|isize::MAX|allocat', o[3], re.I)]
print("resource-class:",len(res))
for o in out[:15]: print(o)
names=collections.Counter(o[2] for o in out); print(names.most_common(40))
