import json, re, collections, sys
F={}
for l in open('/tmp/probe/facts.jsonl'):
    d=json.loads(l); F[d['fn']]=d
print("fns",len(F))
# roots
def is_root(n):
    if re.search(r'as serialization::traits::Deserialize(EmbeddedGroup|Nullable)?>::deserialize', n): return True
    if re.search(r'impl serialization::traits::Deserialize(EmbeddedGroup)? for .*>::deserialize', n): return True
    if re.search(r'Deserialize<.de>', n) or re.search(r"_serde::Deserialize", n) or re.search(r"serde::de::Visitor", n) or 'serde::Deserialize' in n: return True
    if re.search(r'::(from_bytes|from_hex|from_json|from_bech32|from_base58|from_str|from_128_xprv|from_normal_bytes|from_extended_bytes|from_raw_bytes)$', n): return True
    if re.search(r'(decode_|encode_json_str_to|decrypt_with_password|encrypt_with_password|has_transaction_set_tag$|from_address)', n): return True
    if re.search(r'cbor_event::de::Deserialize', n) or re.search(r'std::str::FromStr', n) or re.search(r'TryFrom', n): return True
    return False
roots=[n for n in F if is_root(n) and '::tests::' not in n]
print("roots",len(roots))
# trait impl index for abstract calls: map trait method name -> impls
impls=collections.defaultdict(list)
for n in F:
    m=re.match(r'<(.+) as (.+)>::(\w+)$', n)
    if m: impls[(re.sub(r'<.*','',m.group(2)), m.group(3))].append(n)
    m=re.search(r'<impl (.+) for (.+)>::(\w+)$', n)
    if m: impls[(re.sub(r'<.*','',m.group(1).split('::')[-1]), m.group(3))].append(n)
seen=set(roots); q=collections.deque(roots); ext=collections.Counter(); unresolved=collections.Counter()
extsites=collections.defaultdict(list)
while q:
    n=q.popleft(); d=F[n]
    for c in d['closures']:
        if c in F and c not in seen: seen.add(c); q.append(c)
    for c in d['calls']:
        t=c['to']
        if t in F:
            if t not in seen: seen.add(t); q.append(t)
        elif c['crate']=='cardano_serialization_lib':
            # abstract local trait method
            m=re.search(r'(\w+)::(\w+)$', t)
            key=(m.group(1),m.group(2)) if m else None
            cands=impls.get(key,[])
            if not cands: unresolved[t]+=1
            for x in cands:
                if x not in seen: seen.add(x); q.append(x)
        else:
            ext[(c['crate'],t)]+=1; extsites[t].append((n,c['loc'],c['exp']))
print("reachable",len(seen))
asserts=collections.Counter(); 
for n in seen:
    for a in F[n]['asserts']: asserts[a['k']]+=1
print("asserts",asserts)
panicky=re.compile(r'(::unwrap$|::expect$|::unwrap_err|panicking|panic_|::index$|::index_mut$|assert_failed|slice_index|copy_from_slice|clone_from_slice|split_at|::remove$|::swap_remove$|::insert$|unreachable|begin_panic|::abs$|::pow$|::sum$|RefCell|from_utf8_unchecked|unwrap_failed|expect_failed|::last_mut|::first\b)')
tot=0
for (k,t),c in sorted(ext.items(), key=lambda x:-x[1]):
    if panicky.search(t) and not t.endswith('::insert'):
        tot+=c; print(c,k,t)
print("panicky ext call sites",tot)
print("unresolved local abstract:",unresolved.most_common(20))
print("ext crates:",collections.Counter(k for (k,t),c in ext.items()).most_common())
json.dump({t:v for t,v in extsites.items()}, open('/tmp/probe/extsites.json','w'))

# ---- list distinct reachable panic-capable sites by location
sites=collections.defaultdict(set)
for n in seen:
    d=F[n]
    for a in d['asserts']:
        if a['k'].startswith(('Overflow','BoundsCheck','Division','Remainder')):
            sites[a['loc']].add(a['k'])
    for c in d['calls']:
        t=c['to']
        if t not in F and c['crate']!='cardano_serialization_lib' and panicky.search(t) and not t.endswith('::insert'):
            sites[c['loc']].add(t.split('::')[-1]+('!' if c['exp'] else ''))
byfile=collections.defaultdict(list)
for loc,k in sites.items():
    f,l=loc.rsplit(':',1); byfile[f].append((int(l),sorted(k)))
tot=0
for f in sorted(byfile):
    v=sorted(byfile[f]); tot+=len(v)
    print(f, len(v), ' '.join('%d:%s'%(l,'/'.join(x[:14] for x in k)) for l,k in v))
print("distinct source sites:",tot)
