#![feature(rustc_private)]
extern crate rustc_driver; extern crate rustc_hir; extern crate rustc_interface; extern crate rustc_middle; extern crate rustc_span;
use rustc_driver::Compilation; use rustc_interface::interface::Compiler;
use rustc_middle::ty::{self, TyCtxt, Instance, TypingEnv}; use rustc_middle::mir::TerminatorKind; use rustc_hir::def::DefKind;
struct Cb;
impl rustc_driver::Callbacks for Cb {
    fn after_analysis<'tcx>(&mut self, _c: &Compiler, tcx: TyCtxt<'tcx>) -> Compilation {
        if tcx.crate_name(rustc_span::def_id::LOCAL_CRATE).as_str() != "cardano_serialization_lib" { return Compilation::Continue; }
        let sm = tcx.sess.source_map();
        let mut seen = std::collections::BTreeSet::new();
        for ldid in tcx.hir_body_owners() {
            let did = ldid.to_def_id();
            if !matches!(tcx.def_kind(did), DefKind::Fn | DefKind::AssocFn | DefKind::Closure) { continue; }
            let body = tcx.optimized_mir(did); let te = TypingEnv::post_analysis(tcx, did);
            for data in body.basic_blocks.iter() {
                if let TerminatorKind::Call { func, .. } = &data.terminator().kind {
                    if let ty::FnDef(cdid, ga) = func.ty(&body.local_decls, tcx).kind() {
                        if let Ok(Some(i)) = Instance::try_resolve(tcx, te, *cdid, ga) {
                            let d = i.def_id();
                            if d.is_local() { continue; }
                            let sp = tcx.def_span(d);
                            let l = sm.lookup_char_pos(sp.lo());
                            seen.insert(format!("{} | {} | {:?}:{}", tcx.crate_name(d.krate), tcx.def_path_str(d), l.file.name, l.line));
                        }
                    }
                }
            }
        }
        for s in seen.iter().filter(|s| s.contains("unwrap") || s.contains("::index") || s.contains("cbor_event::de") || s.contains("::abs") || s.contains("hex::")).take(40) { eprintln!("{}", s); }
        eprintln!("distinct external callees: {}", seen.len());
        Compilation::Continue
    }
}
fn main() { let mut args: Vec<String> = std::env::args().collect(); args.remove(1); rustc_driver::run_compiler(&args, &mut Cb); }
