// triage: network id above 15. Prints only.
use cardano_serialization_lib::*;
#[test]
fn net17() {
    let c = Credential::from_keyhash(&Ed25519KeyHash::from_bytes(vec![7; 28]).unwrap());
    let r = RewardAddress::new(17, &c);
    let a = r.to_address();
    let back = Address::from_bytes(a.to_bytes()).unwrap();
    println!("RewardAddress::new(17): network_id {:?} ; bytes[0] {:02x} ; decoded network_id {:?} ; decoded == original ? {}", a.network_id(), a.to_bytes()[0], back.network_id(), back == a);
    let mut w = Withdrawals::new();
    w.insert(&RewardAddress::new(1, &c), &BigNum::from(1u64));
    w.insert(&RewardAddress::new(17, &c), &BigNum::from(2u64));
    println!("Withdrawals with networks 1 and 17: len {} ; from_bytes(to_bytes) -> {:?}", w.len(), Withdrawals::from_bytes(w.to_bytes()).map(|x| x.len()).map_err(|e| format!("{:?}", e)));
}
