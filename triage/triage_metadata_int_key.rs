// triage: BasicConversions JSON with an integer-looking key below i64::MIN. Prints only.
use cardano_serialization_lib::*;
#[test]
fn md_key() {
    for k in ["-9223372036854775808", "-9223372036854775809", "-18446744073709551616", "18446744073709551615"] {
        let json = format!("{{\"{}\": 1}}", k);
        let md = encode_json_str_to_metadatum(json.clone(), MetadataJsonSchema::BasicConversions);
        let back = md.as_ref().map_err(|e| format!("{:?}", e)).and_then(|m| decode_metadatum_to_json_str(m, MetadataJsonSchema::BasicConversions).map_err(|e| format!("{:?}", e)));
        println!("{} -> metadata ok {} -> JSON {:?}", json, md.is_ok(), back);
    }
}
