use cardano_serialization_lib::*;
#[test]
fn byron_min_coin() {
    let byron = ByronAddress::from_base58("DdzFFzCqrhsrcTVhLygT24QwTnNqQqQ8mZrq5jykUzMveU26sxaH529kMpo7VhPrt5pwW3dXeB2k3EEvKcNBRmzCfcQ7dTkyGzTs658C").unwrap().to_address();
    let base = Address::from_bech32("addr_test1qpu5vlrf4xkxv2qpwngf6cjhtw542ayty80v8dyr49rf5ewvxwdrt70qlcpeeagscasafhffqsxy36t90ldv06wqrk2qum8x5w").unwrap();
    let dc = DataCost::new_coins_per_byte(&BigNum::from(4310u64));
    let mut ma = MultiAsset::new();
    let mut a = Assets::new();
    a.insert(&AssetName::new(vec![1,2,3]).unwrap(), &BigNum::from(5u64));
    ma.insert(&ScriptHash::from_bytes(vec![7u8;28]).unwrap(), &a);
    for (n, addr) in [("byron", byron), ("base", base)] {
        let out = TransactionOutputBuilder::new().with_address(&addr).next().unwrap()
            .with_asset_and_min_required_coin_by_utxo_cost(&ma, &dc).unwrap().build().unwrap();
        let need = min_ada_for_output(&out, &dc).unwrap();
        println!("{} addr_len {} coin {:?} min_ada_for_output {:?} bound {}", n, addr.to_bytes().len(), out.amount().coin(), need, (160 + out.to_bytes().len() as u64) * 4310);
    }
}
