// triage: integer fields wider than their CDDL range. Prints only.
use cardano_serialization_lib::*;
#[test]
fn int_width() {
    let i = TransactionInput::new(&TransactionHash::from_bytes(vec![1u8; 32]).unwrap(), 65536);
    println!("TransactionInput index 65536: {}", hex::encode(i.to_bytes()));
    let r = Redeemer::new(&RedeemerTag::new_spend(), &BigNum::from(4294967296u64), &PlutusData::new_integer(&BigInt::from_str("1").unwrap()), &ExUnits::new(&BigNum::from(1u64), &BigNum::from(1u64)));
    println!("Redeemer index 2^32: {}", hex::encode(r.to_bytes()));
}
