// triage: the bottom of the Int range through decimal string and JSON. Prints only.
use cardano_serialization_lib::*;
#[test]
fn int_min() {
    let i = Int::from_bytes(vec![0x3b, 0xff, 0xff, 0xff, 0xff, 0xff, 0xff, 0xff, 0xff]).unwrap();
    let s = i.to_str();
    println!("Int::from_bytes(3b ff*8).to_str() = {} ; from_str -> {:?} ; to_json = {:?} ; from_json(to_json) -> {:?}", s, Int::from_str(&s).map(|x| x.to_str()), i.to_json(), i.to_json().and_then(|j| Int::from_json(&j)).map(|x| x.to_str()));
    let b = BigInt::from_str("-18446744073709551616").unwrap();
    println!("BigInt(-2^64).as_int() = {:?}", b.as_int().map(|x| x.to_str()));
}
