#![allow(deprecated)]
// Runtime triage, batch 5. Every test only PRINTS what it observes.
// Run: cargo test --offline --test triage_batch5 -- --nocapture --test-threads 1

use cardano_serialization_lib::*;
use std::panic::{catch_unwind, AssertUnwindSafe};

// ---------------------------------------------------------------- helpers

fn cfg_builder() -> TransactionBuilderConfigBuilder {
    TransactionBuilderConfigBuilder::new()
        .fee_algo(&LinearFee::new(&BigNum::from(44u64), &BigNum::from(155381u64)))
        .pool_deposit(&BigNum::from(500000000u64))
        .key_deposit(&BigNum::from(2000000u64))
        .max_value_size(4000)
        .max_tx_size(8000)
        .coins_per_utxo_byte(&BigNum::from(34482u64 / 8))
        .ex_unit_prices(&ExUnitPrices::new(
            &UnitInterval::new(&BigNum::from(577u64), &BigNum::from(10000u64)),
            &UnitInterval::new(&BigNum::from(721u64), &BigNum::from(10000000u64)),
        ))
}

fn cfg_plain() -> TransactionBuilderConfig {
    cfg_builder().build().unwrap()
}

fn key_hash(x: u8) -> Ed25519KeyHash {
    Ed25519KeyHash::from_bytes(vec![x; 28]).unwrap()
}

fn script_hash(x: u8) -> ScriptHash {
    ScriptHash::from_bytes(vec![x; 28]).unwrap()
}

fn base_address(x: u8) -> Address {
    BaseAddress::new(
        NetworkInfo::testnet_preprod().network_id(),
        &Credential::from_keyhash(&key_hash(x)),
        &Credential::from_keyhash(&key_hash(x.wrapping_add(100))),
    )
    .to_address()
}

fn reward_address(x: u8) -> RewardAddress {
    RewardAddress::new(
        NetworkInfo::testnet_preprod().network_id(),
        &Credential::from_keyhash(&key_hash(x)),
    )
}

fn tx_hash(x: u8) -> TransactionHash {
    TransactionHash::from_bytes(vec![x; 32]).unwrap()
}

fn tx_input(x: u8, idx: u32) -> TransactionInput {
    TransactionInput::new(&tx_hash(x), idx)
}

fn describe<T, E: std::fmt::Debug>(r: &Result<T, E>) -> String {
    match r {
        Ok(_) => "Ok".to_string(),
        Err(e) => format!("Err({:?})", e),
    }
}

fn panic_msg(e: Box<dyn std::any::Any + Send>) -> String {
    if let Some(s) = e.downcast_ref::<String>() {
        s.clone()
    } else if let Some(s) = e.downcast_ref::<&str>() {
        s.to_string()
    } else {
        "<non-string panic>".to_string()
    }
}

fn num(b: &BigNum) -> u64 {
    b.to_str().parse::<u64>().unwrap()
}

fn ada_utxo(addr: &Address, h: u8, idx: u32, lovelace: u64) -> TransactionUnspentOutput {
    TransactionUnspentOutput::new(
        &tx_input(h, idx),
        &TransactionOutput::new(addr, &Value::new(&BigNum::from(lovelace))),
    )
}

fn token_ma_by_hash(policy: &ScriptHash, name: &[u8], amount: u64) -> MultiAsset {
    let mut ma = MultiAsset::new();
    ma.set_asset(
        policy,
        &AssetName::new(name.to_vec()).unwrap(),
        &BigNum::from(amount),
    );
    ma
}

const LF: u8 = 0;
const RI: u8 = 1;
const LFMA: u8 = 2;
const RIMA: u8 = 3;

fn strat(c: u8) -> CoinSelectionStrategyCIP2 {
    match c {
        0 => CoinSelectionStrategyCIP2::LargestFirst {},
        1 => CoinSelectionStrategyCIP2::RandomImprove {},
        2 => CoinSelectionStrategyCIP2::LargestFirstMultiAsset {},
        _ => CoinSelectionStrategyCIP2::RandomImproveMultiAsset {},
    }
}

fn strategy_name(c: u8) -> &'static str {
    match c {
        0 => "LargestFirst",
        1 => "RandomImprove",
        2 => "LargestFirstMultiAsset",
        _ => "RandomImproveMultiAsset",
    }
}

/// inputs currently held by the builder (builds a body from a clone with a dummy fee)
fn builder_inputs(tb: &TransactionBuilder) -> String {
    let mut c = tb.clone();
    c.set_fee(&BigNum::from(0u64));
    match catch_unwind(AssertUnwindSafe(|| c.build())) {
        Err(e) => format!("<build PANIC {}>", panic_msg(e)),
        Ok(Err(e)) => format!("<build Err {:?}>", e),
        Ok(Ok(body)) => {
            let ins = body.inputs();
            let mut v = vec![];
            for i in 0..ins.len() {
                let inp = ins.get(i);
                v.push(format!(
                    "{}..#{}",
                    &inp.transaction_id().to_hex()[..4],
                    inp.index()
                ));
            }
            format!("{} input(s) {:?}", ins.len(), v)
        }
    }
}

/// prints the balance state of a builder after a coin selection call
fn print_balance(lbl: &str, tb: &TransactionBuilder) {
    let tin = tb.get_total_input();
    let tout = tb.get_total_output();
    let mf = tb.min_fee();
    match (&tin, &tout, &mf) {
        (Ok(i), Ok(o), Ok(f)) => {
            let ic = num(&i.coin());
            let oc = num(&o.coin());
            let fc = num(f);
            println!(
                "[{}] explicit_input={} implicit_input={} | get_total_input.coin={} get_total_output.coin={} min_fee()={} | output+min_fee={} | input >= output+min_fee ? {} (input - (output+min_fee) = {})",
                lbl,
                tb.get_explicit_input().map(|v| v.coin().to_str()).unwrap_or("err".into()),
                tb.get_implicit_input().map(|v| v.coin().to_str()).unwrap_or("err".into()),
                ic,
                oc,
                fc,
                oc + fc,
                ic >= oc + fc,
                ic as i128 - (oc + fc) as i128
            );
        }
        _ => println!(
            "[{}] total_input {} total_output {} min_fee {}",
            lbl,
            describe(&tin),
            describe(&tout),
            describe(&mf)
        ),
    }
    println!("[{}] builder holds {}", lbl, builder_inputs(tb));
}

/// follow-up: what do add_change_if_needed and build_tx say afterwards (on a clone)
fn print_follow_up(lbl: &str, tb: &TransactionBuilder) {
    let mut c = tb.clone();
    let chg = catch_unwind(AssertUnwindSafe(|| c.add_change_if_needed(&base_address(4))));
    match chg {
        Err(e) => println!("[{}] follow-up add_change_if_needed PANIC {}", lbl, panic_msg(e)),
        Ok(r) => {
            println!(
                "[{}] follow-up add_change_if_needed -> {}",
                lbl,
                match &r {
                    Ok(b) => format!("Ok({})", b),
                    Err(e) => format!("Err({:?})", e),
                }
            );
            let built = catch_unwind(AssertUnwindSafe(|| c.build_tx()));
            match built {
                Err(e) => println!("[{}] follow-up build_tx PANIC {}", lbl, panic_msg(e)),
                Ok(Err(e)) => println!("[{}] follow-up build_tx Err {:?}", lbl, e),
                Ok(Ok(tx)) => {
                    let body = tx.body();
                    let outs = body.outputs();
                    let mut o = vec![];
                    for i in 0..outs.len() {
                        o.push(outs.get(i).amount().coin().to_str());
                    }
                    println!(
                        "[{}] follow-up build_tx Ok: inputs {} outputs {:?} fee {}",
                        lbl,
                        body.inputs().len(),
                        o,
                        body.fee().to_str()
                    );
                }
            }
        }
    }
}

// ---------------------------------------------------------------- T1

fn t1_builder(withdrawal: u64) -> TransactionBuilder {
    let mut tb = TransactionBuilder::new(&cfg_plain());
    tb.add_output(&TransactionOutput::new(
        &base_address(2),
        &Value::new(&BigNum::from(2_000_000u64)),
    ))
    .unwrap();
    let mut w = Withdrawals::new();
    w.insert(&reward_address(7), &BigNum::from(withdrawal));
    tb.set_withdrawals(&w).unwrap();
    tb
}

#[test]
fn t1_add_inputs_from_implicit_input_covers_everything() {
    let probe = t1_builder(2_200_000);
    let m = num(&probe.min_fee().unwrap());
    println!(
        "[T1] fee coefficients 44/155381 ; builder: NO inputs, one output 2000000, one withdrawal ; min_fee() without inputs = {}",
        m
    );
    let from = base_address(1);
    println!(
        "[T1] fee_for_input of a 1000-lovelace utxo on that builder = {}",
        describe_coin(probe.fee_for_input(&from, &tx_input(0x11, 0), &Value::new(&BigNum::from(1000u64))))
    );

    let offered_variants: Vec<(&str, Vec<u64>)> = vec![
        ("offered=[1000]", vec![1000]),
        ("offered=[5000000, 1000] (1000 is LAST)", vec![5_000_000, 1000]),
        ("offered=[1000, 5000000] (5000000 is LAST)", vec![1000, 5_000_000]),
        ("CONTROL offered=[2000000]", vec![2_000_000]),
    ];

    for slack in [0u64, 5u64, 1000u64] {
        let withdrawal = 2_000_000 + m + slack;
        for strategy in [
            LF,
            RI,
        ] {
            for (olabel, amounts) in offered_variants.iter() {
                let lbl = format!(
                    "T1 slack={} {} {}",
                    slack,
                    strategy_name(strategy),
                    olabel
                );
                let mut tb = t1_builder(withdrawal);
                println!(
                    "[{}] withdrawal={} (= output 2000000 + min_fee {} + slack {}) ; min_fee() before selection = {}",
                    lbl,
                    withdrawal,
                    m,
                    slack,
                    describe_coin(tb.min_fee())
                );
                let mut utxos = TransactionUnspentOutputs::new();
                for (i, a) in amounts.iter().enumerate() {
                    utxos.add(&ada_utxo(&from, 0x11, i as u32, *a));
                }
                let r = catch_unwind(AssertUnwindSafe(|| tb.add_inputs_from(&utxos, strat(strategy))));
                match r {
                    Err(e) => println!("[{}] add_inputs_from PANIC {}", lbl, panic_msg(e)),
                    Ok(r) => {
                        println!("[{}] add_inputs_from -> {}", lbl, describe(&r));
                        print_balance(&lbl, &tb);
                        if r.is_ok() {
                            print_follow_up(&lbl, &tb);
                        }
                    }
                }
            }
        }
    }

    // contrast: withdrawal ONE lovelace short of output+min_fee -> normal selection path
    for strategy in [
        LF,
        RI,
    ] {
        let withdrawal = 2_000_000 + m - 1;
        let lbl = format!(
            "T1 CONTRAST withdrawal short by 1, {} offered=[1000]",
            strategy_name(strategy)
        );
        let mut tb = t1_builder(withdrawal);
        let mut utxos = TransactionUnspentOutputs::new();
        utxos.add(&ada_utxo(&from, 0x11, 0, 1000));
        let r = catch_unwind(AssertUnwindSafe(|| tb.add_inputs_from(&utxos, strat(strategy))));
        match r {
            Err(e) => println!("[{}] add_inputs_from PANIC {}", lbl, panic_msg(e)),
            Ok(r) => {
                println!("[{}] withdrawal={} add_inputs_from -> {}", lbl, withdrawal, describe(&r));
                print_balance(&lbl, &tb);
            }
        }
    }
}

fn describe_coin(r: Result<Coin, JsError>) -> String {
    match r {
        Ok(c) => c.to_str(),
        Err(e) => format!("Err({:?})", e),
    }
}

// ---------------------------------------------------------------- T2

fn t2_builder() -> TransactionBuilder {
    let mut tb = TransactionBuilder::new(&cfg_plain());
    let mut inputs = TxInputsBuilder::new();
    inputs.add_key_input(
        &key_hash(1),
        &tx_input(0x21, 0),
        &Value::new(&BigNum::from(10_000_000u64)),
    );
    tb.set_inputs(&inputs);
    tb.add_output(&TransactionOutput::new(
        &base_address(2),
        &Value::new(&BigNum::from(2_000_000u64)),
    ))
    .unwrap();
    let mut coll = TxInputsBuilder::new();
    coll.add_key_input(
        &key_hash(1),
        &tx_input(0x22, 0),
        &Value::new(&BigNum::from(5_000_000u64)),
    );
    tb.set_collateral(&coll);
    tb
}

fn t2_print_state(lbl: &str, tb: &TransactionBuilder, collateral_inputs_total: u64) {
    let mut c = tb.clone();
    c.set_fee(&BigNum::from(200_000u64));
    match catch_unwind(AssertUnwindSafe(|| c.build())) {
        Err(e) => println!("[{}] build PANIC {}", lbl, panic_msg(e)),
        Ok(Err(e)) => println!("[{}] build Err {:?}", lbl, e),
        Ok(Ok(body)) => {
            let ret = body.collateral_return().map(|o| num(&o.amount().coin()));
            let total = body.total_collateral().map(|c| num(&c));
            let sum = ret.unwrap_or(0) + total.unwrap_or(0);
            println!(
                "[{}] body.collateral inputs = {} (sum {}) ; body.collateral_return() coin = {:?} ; body.total_collateral() = {:?} ; return + total = {} ; collateral inputs == return + total ? {}",
                lbl,
                body.collateral().map(|c| c.len()).unwrap_or(0),
                collateral_inputs_total,
                ret,
                total,
                sum,
                sum == collateral_inputs_total
            );
        }
    }
}

#[test]
fn t2_total_collateral_and_return_called_twice() {
    let ret_addr = base_address(3);
    // candidate sequence: 3 ADA then 5 ADA (== all collateral)
    {
        let mut tb = t2_builder();
        t2_print_state("T2 seqA before any call", &tb, 5_000_000);
        let r1 = tb.set_total_collateral_and_return(&BigNum::from(3_000_000u64), &ret_addr);
        println!("[T2 seqA] call 1 set_total_collateral_and_return(3000000) -> {}", describe(&r1));
        t2_print_state("T2 seqA after call 1 (total 3 ADA)", &tb, 5_000_000);
        let r2 = tb.set_total_collateral_and_return(&BigNum::from(5_000_000u64), &ret_addr);
        println!("[T2 seqA] call 2 set_total_collateral_and_return(5000000) -> {}", describe(&r2));
        t2_print_state("T2 seqA after call 2 (total 5 ADA)", &tb, 5_000_000);
    }
    // control 1: 3 ADA then 4 ADA (return stays positive)
    {
        let mut tb = t2_builder();
        let r1 = tb.set_total_collateral_and_return(&BigNum::from(3_000_000u64), &ret_addr);
        let r2 = tb.set_total_collateral_and_return(&BigNum::from(4_000_000u64), &ret_addr);
        println!(
            "[T2 CONTROL seqB] call 1 (3000000) -> {} ; call 2 (4000000) -> {}",
            describe(&r1),
            describe(&r2)
        );
        t2_print_state("T2 CONTROL seqB after 3 ADA then 4 ADA", &tb, 5_000_000);
    }
    // control 2: fresh builder, 5 ADA directly
    {
        let mut tb = t2_builder();
        let r = tb.set_total_collateral_and_return(&BigNum::from(5_000_000u64), &ret_addr);
        println!("[T2 CONTROL seqC] fresh builder, single call (5000000) -> {}", describe(&r));
        t2_print_state("T2 CONTROL seqC fresh builder total 5 ADA", &tb, 5_000_000);
    }
    // extra: second call FAILS (return below min ada) - what is left behind?
    {
        let mut tb = t2_builder();
        let r1 = tb.set_total_collateral_and_return(&BigNum::from(3_000_000u64), &ret_addr);
        let r2 = tb.set_total_collateral_and_return(&BigNum::from(4_999_000u64), &ret_addr);
        println!(
            "[T2 extra seqD] call 1 (3000000) -> {} ; call 2 (4999000, return would be 1000) -> {}",
            describe(&r1),
            describe(&r2)
        );
        t2_print_state("T2 extra seqD after failed second call", &tb, 5_000_000);
    }
}

// ---------------------------------------------------------------- T3

fn spend_redeemer(n: u64) -> Redeemer {
    Redeemer::new(
        &RedeemerTag::new_spend(),
        &BigNum::from(0u64),
        &PlutusData::new_integer(&BigInt::from(n)),
        &ExUnits::new(&BigNum::from(1000u64 * n), &BigNum::from(2000u64 * n)),
    )
}

fn t3_case(lbl: &str, datum_a: &PlutusData, datum_b: &PlutusData) {
    println!(
        "[{}] datum A hex = {} ; datum B hex = {} ; A == B (PartialEq) ? {} ; A.to_bytes == B.to_bytes ? {} ; hash_plutus_data equal ? {}",
        lbl,
        datum_a.to_hex(),
        datum_b.to_hex(),
        datum_a == datum_b,
        datum_a.to_bytes() == datum_b.to_bytes(),
        hash_plutus_data(datum_a).to_hex() == hash_plutus_data(datum_b).to_hex()
    );
    let script = PlutusScript::new_v2(vec![0x01, 0x02, 0x03]);
    let mut inputs = TxInputsBuilder::new();
    inputs.add_plutus_script_input(
        &PlutusWitness::new(&script, datum_a, &spend_redeemer(1)),
        &tx_input(0x31, 0),
        &Value::new(&BigNum::from(5_000_000u64)),
    );
    inputs.add_plutus_script_input(
        &PlutusWitness::new(&script, datum_b, &spend_redeemer(2)),
        &tx_input(0x31, 1),
        &Value::new(&BigNum::from(5_000_000u64)),
    );
    println!(
        "[{}] TxInputsBuilder.get_plutus_input_scripts().len() = {:?}",
        lbl,
        inputs.get_plutus_input_scripts().map(|w| w.len())
    );
    let mut tb = TransactionBuilder::new(&cfg_plain());
    tb.set_inputs(&inputs);
    let mut coll = TxInputsBuilder::new();
    coll.add_key_input(
        &key_hash(1),
        &tx_input(0x32, 0),
        &Value::new(&BigNum::from(5_000_000u64)),
    );
    tb.set_collateral(&coll);
    tb.add_output(&TransactionOutput::new(
        &base_address(2),
        &Value::new(&BigNum::from(2_000_000u64)),
    ))
    .unwrap();
    let mut cost_models = Costmdls::new();
    let mut cm = CostModel::new();
    let _ = cm.set(0, &Int::new_i32(1));
    cost_models.insert(&Language::new_plutus_v2(), &cm);
    let r = tb.calc_script_data_hash(&cost_models);
    println!("[{}] calc_script_data_hash -> {}", lbl, describe(&r));
    let chg = tb.add_change_if_needed(&base_address(4));
    println!("[{}] add_change_if_needed -> {}", lbl, describe(&chg));
    let built = catch_unwind(AssertUnwindSafe(|| tb.build_tx()));
    match built {
        Err(e) => println!("[{}] build_tx PANIC {}", lbl, panic_msg(e)),
        Ok(Err(e)) => println!("[{}] build_tx Err {:?}", lbl, e),
        Ok(Ok(tx)) => {
            let ws = tx.witness_set();
            match ws.plutus_data() {
                None => println!("[{}] witness set has NO plutus_data", lbl),
                Some(list) => {
                    println!(
                        "[{}] witness_set.plutus_data(): {} datum(s) ; list hex = {}",
                        lbl,
                        list.len(),
                        list.to_hex()
                    );
                    for i in 0..list.len() {
                        println!("[{}]   datum[{}] hex = {}", lbl, i, list.get(i).to_hex());
                    }
                    if list.len() == 2 {
                        println!(
                            "[{}]   datum[0].to_bytes == datum[1].to_bytes ? {}",
                            lbl,
                            list.get(0).to_bytes() == list.get(1).to_bytes()
                        );
                    }
                    // which list does the script data hash in the body correspond to?
                    let redeemers = ws.redeemers().unwrap();
                    let mut dedup = PlutusList::new();
                    dedup.add(&list.get(0));
                    let h_as_emitted =
                        hash_script_data(&redeemers, &cost_models, Some(list.clone())).to_hex();
                    let h_dedup = hash_script_data(&redeemers, &cost_models, Some(dedup)).to_hex();
                    let in_body = tx.body().script_data_hash().map(|h| h.to_hex());
                    println!(
                        "[{}]   body.script_data_hash = {:?} ; hash over emitted list = {} ; hash over single-datum list = {}",
                        lbl, in_body, h_as_emitted, h_dedup
                    );
                }
            }
            println!(
                "[{}] redeemers {} ; plutus scripts {} ; witness set hex = {}",
                lbl,
                ws.redeemers().map(|r| r.len()).unwrap_or(0),
                ws.plutus_scripts().map(|s| s.len()).unwrap_or(0),
                ws.to_hex()
            );
        }
    }
}

#[test]
fn t3_datum_dedup_api_vs_decoded() {
    for (kind, api) in [
        ("integer 42", PlutusData::new_integer(&BigInt::from(42u64))),
        ("bytes ab*8", PlutusData::new_bytes(vec![0xAB; 8])),
    ] {
        let decoded = PlutusData::from_bytes(api.to_bytes()).unwrap();
        t3_case(&format!("T3 {} api+decoded", kind), &api, &decoded);
        t3_case(&format!("T3 {} decoded+api", kind), &decoded, &api);
        let api2 = api.clone();
        t3_case(&format!("T3 {} CONTROL api+api", kind), &api, &api2);
        let decoded2 = PlutusData::from_bytes(api.to_bytes()).unwrap();
        t3_case(&format!("T3 {} CONTROL decoded+decoded", kind), &decoded, &decoded2);
    }
}

// ---------------------------------------------------------------- T4

#[test]
fn t4_json_bypasses_length_validation() {
    for len in [128usize, 129usize, 200usize] {
        let s = "a".repeat(len);
        let json = format!("\"{}\"", s);

        // URL
        let r_new = URL::new(s.clone());
        let r_json = catch_unwind(|| URL::from_json(&json));
        match r_json {
            Err(e) => println!("[T4 URL len {}] from_json PANIC {}", len, panic_msg(e)),
            Ok(r) => {
                println!(
                    "[T4 URL len {}] URL::new -> {} ; URL::from_json -> {}",
                    len,
                    describe(&r_new),
                    describe(&r)
                );
                if let Ok(u) = r {
                    let b = u.to_bytes();
                    println!(
                        "[T4 URL len {}]   url().len() = {} ; to_bytes len = {} ; first bytes = {} ; URL::from_bytes(to_bytes) -> {}",
                        len,
                        u.url().len(),
                        b.len(),
                        hex::encode(&b[..3.min(b.len())]),
                        describe(&URL::from_bytes(b.clone()))
                    );
                }
            }
        }

        // DNSRecordAorAAAA
        let r_new = DNSRecordAorAAAA::new(s.clone());
        let r_json = catch_unwind(|| DNSRecordAorAAAA::from_json(&json));
        match r_json {
            Err(e) => println!("[T4 DNSRecordAorAAAA len {}] from_json PANIC {}", len, panic_msg(e)),
            Ok(r) => {
                println!(
                    "[T4 DNSRecordAorAAAA len {}] new -> {} ; from_json -> {}",
                    len,
                    describe(&r_new),
                    describe(&r)
                );
                if let Ok(u) = r {
                    let b = u.to_bytes();
                    println!(
                        "[T4 DNSRecordAorAAAA len {}]   record().len() = {} ; to_bytes len = {} ; from_bytes(to_bytes) -> {}",
                        len,
                        u.record().len(),
                        b.len(),
                        describe(&DNSRecordAorAAAA::from_bytes(b.clone()))
                    );
                }
            }
        }

        // DNSRecordSRV
        let r_new = DNSRecordSRV::new(s.clone());
        let r_json = catch_unwind(|| DNSRecordSRV::from_json(&json));
        match r_json {
            Err(e) => println!("[T4 DNSRecordSRV len {}] from_json PANIC {}", len, panic_msg(e)),
            Ok(r) => {
                println!(
                    "[T4 DNSRecordSRV len {}] new -> {} ; from_json -> {}",
                    len,
                    describe(&r_new),
                    describe(&r)
                );
                if let Ok(u) = r {
                    let b = u.to_bytes();
                    println!(
                        "[T4 DNSRecordSRV len {}]   record().len() = {} ; to_bytes len = {} ; from_bytes(to_bytes) -> {}",
                        len,
                        u.record().len(),
                        b.len(),
                        describe(&DNSRecordSRV::from_bytes(b.clone()))
                    );
                }
            }
        }
    }

    // nested: PoolMetadata / SingleHostName / MultiHostName JSON with the long string spliced in
    {
        let long = "a".repeat(200);
        let pm = PoolMetadata::new(
            &URL::new("https://x.io".to_string()).unwrap(),
            &PoolMetadataHash::from_bytes(vec![7u8; 32]).unwrap(),
        );
        let pm_json = pm.to_json().unwrap();
        let spliced = pm_json.replace("https://x.io", &long);
        let r = catch_unwind(|| PoolMetadata::from_json(&spliced));
        match r {
            Err(e) => println!("[T4 PoolMetadata nested 200] PANIC {}", panic_msg(e)),
            Ok(r) => {
                println!(
                    "[T4 PoolMetadata nested 200] valid json shape = {} ; from_json(with 200-char url) -> {}",
                    pm_json,
                    describe(&r)
                );
                if let Ok(p) = r {
                    let b = p.to_bytes();
                    println!(
                        "[T4 PoolMetadata nested 200]   url().url().len() = {} ; to_bytes len = {} ; PoolMetadata::from_bytes(to_bytes) -> {}",
                        p.url().url().len(),
                        b.len(),
                        describe(&PoolMetadata::from_bytes(b.clone()))
                    );
                }
            }
        }

        let shn = SingleHostName::new(None, &DNSRecordAorAAAA::new("relay.x.io".to_string()).unwrap());
        let shn_json = shn.to_json().unwrap();
        let spliced = shn_json.replace("relay.x.io", &long);
        let r = catch_unwind(|| SingleHostName::from_json(&spliced));
        match r {
            Err(e) => println!("[T4 SingleHostName nested 200] PANIC {}", panic_msg(e)),
            Ok(r) => {
                println!(
                    "[T4 SingleHostName nested 200] valid json shape = {} ; from_json(with 200-char name) -> {}",
                    shn_json,
                    describe(&r)
                );
                if let Ok(p) = r {
                    let b = p.to_bytes();
                    println!(
                        "[T4 SingleHostName nested 200]   dns_name().record().len() = {} ; to_bytes len = {} ; from_bytes(to_bytes) -> {}",
                        p.dns_name().record().len(),
                        b.len(),
                        describe(&SingleHostName::from_bytes(b.clone()))
                    );
                }
            }
        }

        let mhn = MultiHostName::new(&DNSRecordSRV::new("srv.x.io".to_string()).unwrap());
        let mhn_json = mhn.to_json().unwrap();
        let spliced = mhn_json.replace("srv.x.io", &long);
        let r = catch_unwind(|| MultiHostName::from_json(&spliced));
        match r {
            Err(e) => println!("[T4 MultiHostName nested 200] PANIC {}", panic_msg(e)),
            Ok(r) => {
                println!(
                    "[T4 MultiHostName nested 200] valid json shape = {} ; from_json(with 200-char name) -> {}",
                    mhn_json,
                    describe(&r)
                );
                if let Ok(p) = r {
                    let b = p.to_bytes();
                    println!(
                        "[T4 MultiHostName nested 200]   dns_name().record().len() = {} ; to_bytes len = {} ; from_bytes(to_bytes) -> {}",
                        p.dns_name().record().len(),
                        b.len(),
                        describe(&MultiHostName::from_bytes(b.clone()))
                    );
                }
            }
        }
    }

    // AssetName
    let shape = AssetName::new(vec![1, 2, 3]).unwrap().to_json().unwrap();
    println!("[T4 AssetName] AssetName::new([1,2,3]).to_json() = {}", shape);
    for len in [32usize, 33usize, 64usize] {
        let bytes = vec![0xABu8; len];
        let json = format!("\"{}\"", hex::encode(&bytes));
        let r_new = AssetName::new(bytes.clone());
        let r_json = catch_unwind(|| AssetName::from_json(&json));
        match r_json {
            Err(e) => println!("[T4 AssetName len {}] from_json PANIC {}", len, panic_msg(e)),
            Ok(r) => {
                println!(
                    "[T4 AssetName len {}] AssetName::new -> {} ; AssetName::from_json -> {}",
                    len,
                    describe(&r_new),
                    describe(&r)
                );
                if let Ok(a) = r {
                    println!(
                        "[T4 AssetName len {}]   name().len() = {} ; to_bytes len = {}",
                        len,
                        a.name().len(),
                        a.to_bytes().len()
                    );
                }
            }
        }
    }
    // AssetName nested in a MultiAsset JSON
    {
        let ma = token_ma_by_hash(&script_hash(9), &[0xCD; 4], 10);
        let ma_json = ma.to_json().unwrap();
        let spliced = ma_json.replace("cdcdcdcd", &hex::encode(vec![0xCDu8; 33]));
        let r = catch_unwind(|| MultiAsset::from_json(&spliced));
        match r {
            Err(e) => println!("[T4 MultiAsset nested name 33] PANIC {}", panic_msg(e)),
            Ok(r) => {
                println!(
                    "[T4 MultiAsset nested name 33] valid json shape = {} ; from_json(with 33-byte asset name) -> {}",
                    ma_json,
                    describe(&r)
                );
                if let Ok(m) = r {
                    println!(
                        "[T4 MultiAsset nested name 33]   to_bytes hex = {}",
                        hex::encode(m.to_bytes())
                    );
                }
            }
        }
    }
}

// ---------------------------------------------------------------- T5

#[test]
fn t5_from_128_xprv_trailing_bytes() {
    let k = Bip32PrivateKey::generate_ed25519_bip32().unwrap();
    let x = k.to_128_xprv();
    println!("[T5] to_128_xprv len = {}", x.len());

    let cases: Vec<(&str, Vec<u8>)> = vec![
        ("exact 128 (CONTROL)", x.clone()),
        ("127 bytes (CONTROL too short)", x[..127].to_vec()),
        ("133 bytes = x ++ [0;5]", {
            let mut v = x.clone();
            v.extend(vec![0u8; 5]);
            v
        }),
        ("133 bytes = x ++ [0xFF;5]", {
            let mut v = x.clone();
            v.extend(vec![0xFFu8; 5]);
            v
        }),
        ("256 bytes = x ++ x", {
            let mut v = x.clone();
            v.extend(x.clone());
            v
        }),
        ("128 bytes, public-key part (64..96) overwritten with 0x00", {
            let mut v = x.clone();
            for b in v[64..96].iter_mut() {
                *b = 0;
            }
            v
        }),
    ];
    for (label, bytes) in cases {
        let r = catch_unwind(|| Bip32PrivateKey::from_128_xprv(&bytes));
        match r {
            Err(e) => println!("[T5 {}] PANIC {}", label, panic_msg(e)),
            Ok(Err(e)) => println!("[T5 {}] input len {} -> Err({:?})", label, bytes.len(), e),
            Ok(Ok(k2)) => {
                let x2 = k2.to_128_xprv();
                println!(
                    "[T5 {}] input len {} -> Ok ; result.to_128_xprv() == x ? {} ; result.to_128_xprv() == input ? {} ; as_bytes equal to original key ? {}",
                    label,
                    bytes.len(),
                    x2 == x,
                    x2 == bytes,
                    k2.as_bytes() == k.as_bytes()
                );
            }
        }
    }
    // sibling decoder for comparison
    let mut raw = k.as_bytes();
    println!(
        "[T5] sibling Bip32PrivateKey::from_bytes: exact 96 -> {} ; 96+5 -> {}",
        describe(&Bip32PrivateKey::from_bytes(&raw)),
        {
            raw.extend(vec![0u8; 5]);
            describe(&Bip32PrivateKey::from_bytes(&raw))
        }
    );
}

// ---------------------------------------------------------------- T6 / T7 shared

struct TxNumbers {
    outputs_total: u64,
    fee: u64,
    n_inputs: usize,
    unsigned_size: usize,
    signed_size: usize,
}

fn analyse_tx(lbl: &str, tx: &Transaction, n_vkeys: usize) -> TxNumbers {
    let body = tx.body();
    let outs = body.outputs();
    let mut outputs_total = 0u64;
    let mut out_s = vec![];
    for i in 0..outs.len() {
        let o = outs.get(i);
        let c = num(&o.amount().coin());
        outputs_total += c;
        let ma = o
            .amount()
            .multiasset()
            .map(|m| m.to_json().unwrap())
            .unwrap_or("none".to_string());
        out_s.push(format!("{} lovelace (coin cbor {}), ma={}", c, hex::encode(o.amount().coin().to_bytes()), ma));
    }
    let fee = num(&body.fee());
    let unsigned_size = tx.to_bytes().len();
    // signed variant with n_vkeys real vkey witnesses (size is what matters)
    let hash = FixedTransaction::new_from_body_bytes(&body.to_bytes())
        .unwrap()
        .transaction_hash();
    let mut vk = Vkeywitnesses::new();
    for i in 0..n_vkeys {
        let sk = PrivateKey::from_normal_bytes(&[0x40u8 + i as u8; 32]).unwrap();
        vk.add(&make_vkey_witness(&hash, &sk));
    }
    let mut ws = tx.witness_set();
    ws.set_vkeys(&vk);
    let signed = Transaction::new(&body, &ws, tx.auxiliary_data());
    let signed_size = signed.to_bytes().len();
    println!(
        "[{}]   tx: {} input(s), outputs {:?}, fee {} (fee cbor {}), body hex {}",
        lbl,
        body.inputs().len(),
        out_s,
        fee,
        hex::encode(body.fee().to_bytes()),
        hex::encode(body.to_bytes())
    );
    TxNumbers {
        outputs_total,
        fee,
        n_inputs: body.inputs().len(),
        unsigned_size,
        signed_size,
    }
}

fn send_all_report(lbl: &str, utxos: &TransactionUnspentOutputs, inputs_total: u64, n_vkeys: usize) {
    let cfg = cfg_plain();
    let dest = base_address(50);
    let r = catch_unwind(AssertUnwindSafe(|| create_send_all(&dest, utxos, &cfg)));
    match r {
        Err(e) => println!("[{}] create_send_all PANIC {}", lbl, panic_msg(e)),
        Ok(Err(e)) => println!("[{}] create_send_all -> Err({:?}) ; inputs total {}", lbl, e, inputs_total),
        Ok(Ok(batches)) => {
            let mut out_plus_fee = 0u64;
            let mut n_tx = 0usize;
            let mut n_in = 0usize;
            let mut fee_notes = vec![];
            for b in 0..batches.len() {
                let batch = batches.get(b);
                for t in 0..batch.len() {
                    let tx = batch.get(t);
                    let nums = analyse_tx(lbl, &tx, n_vkeys);
                    out_plus_fee += nums.outputs_total + nums.fee;
                    n_tx += 1;
                    n_in += nums.n_inputs;
                    let lb_unsigned = 44 * nums.unsigned_size as u64 + 155381;
                    let lb_signed = 44 * nums.signed_size as u64 + 155381;
                    fee_notes.push(format!(
                        "fee {} ; unsigned size {} -> 44*size+155381 = {} ; with {} vkey witness(es) size {} -> min fee {} ; fee >= signed min fee ? {} (fee - min = {})",
                        nums.fee,
                        nums.unsigned_size,
                        lb_unsigned,
                        n_vkeys,
                        nums.signed_size,
                        lb_signed,
                        nums.fee >= lb_signed,
                        nums.fee as i128 - lb_signed as i128
                    ));
                }
            }
            println!(
                "[{}] create_send_all -> Ok ; {} tx, {} inputs spent ; inputs total {} ; outputs+fee {} ; difference (inputs - outputs - fee) = {} ; balanced ? {}",
                lbl,
                n_tx,
                n_in,
                inputs_total,
                out_plus_fee,
                inputs_total as i128 - out_plus_fee as i128,
                inputs_total == out_plus_fee
            );
            for f in fee_notes {
                println!("[{}]   {}", lbl, f);
            }
        }
    }
}

/// compact classification of one create_send_all call: Err / balanced / UNBALANCED
fn send_all_class(utxos: &TransactionUnspentOutputs, inputs_total: u64) -> String {
    let cfg = cfg_plain();
    let dest = base_address(50);
    let r = catch_unwind(AssertUnwindSafe(|| create_send_all(&dest, utxos, &cfg)));
    match r {
        Err(e) => format!("PANIC {}", panic_msg(e)),
        Ok(Err(e)) => format!("Err({:?})", e),
        Ok(Ok(batches)) => {
            let mut out_plus_fee = 0u64;
            let mut fee_short = 0i128;
            for b in 0..batches.len() {
                let batch = batches.get(b);
                for t in 0..batch.len() {
                    let tx = batch.get(t);
                    let body = tx.body();
                    let outs = body.outputs();
                    for i in 0..outs.len() {
                        out_plus_fee += num(&outs.get(i).amount().coin());
                    }
                    let fee = num(&body.fee());
                    out_plus_fee += fee;
                    // the returned tx already carries mock vkey witnesses, so its size is the signed size
                    let min = 44 * tx.to_bytes().len() as u64 + 155381;
                    fee_short += min as i128 - fee as i128;
                }
            }
            let diff = inputs_total as i128 - out_plus_fee as i128;
            if diff == 0 && fee_short <= 0 {
                "Ok balanced, fee >= min fee".to_string()
            } else {
                format!(
                    "Ok UNBALANCED: inputs - (outputs+fee) = {} ; min_fee(size) - fee = {}",
                    diff, fee_short
                )
            }
        }
    }
}

/// run-length encoded scan over v in [from, to] with the given step
fn scan_rle<F: Fn(u64) -> String>(lbl: &str, from: u64, to: u64, step: u64, f: F) {
    let mut cur: Option<(u64, u64, String)> = None;
    let mut v = from;
    while v <= to {
        let c = f(v);
        match &mut cur {
            Some((_, last, cls)) if *cls == c => {
                *last = v;
            }
            _ => {
                if let Some((a, b, cls)) = cur.take() {
                    println!("[{}] {}..={} (step {}): {}", lbl, a, b, step, cls);
                }
                cur = Some((v, v, c));
            }
        }
        v += step;
    }
    if let Some((a, b, cls)) = cur.take() {
        println!("[{}] {}..={} (step {}): {}", lbl, a, b, step, cls);
    }
}

// ---------------------------------------------------------------- T6

#[test]
fn t6_send_all_width_boundary() {
    let from = base_address(1);
    let p32: u64 = 1u64 << 32;
    let values: Vec<(String, u64)> = vec![
        ("2^32 - 50000".to_string(), p32 - 50_000),
        ("2^32 + 100".to_string(), p32 + 100),
        ("2^32 + 100000".to_string(), p32 + 100_000),
        ("2^32 + 160000".to_string(), p32 + 160_000),
        ("2^32 + 165000".to_string(), p32 + 165_000),
        ("2^32 + 170000".to_string(), p32 + 170_000),
        ("2^32 + 180000".to_string(), p32 + 180_000),
        ("2^32 + 220000".to_string(), p32 + 220_000),
        ("2^32 + 500000".to_string(), p32 + 500_000),
        ("CONTROL 10 ADA".to_string(), 10_000_000),
        ("CONTROL 2^33".to_string(), 1u64 << 33),
    ];
    println!("[T6] config fee 44/155381, max_tx_size 8000, max_value_size 4000, coins_per_utxo_byte 4310 ; one pure-ADA utxo at a base address");
    for (name, v) in values {
        let lbl = format!("T6 v={} ({})", name, v);
        let mut utxos = TransactionUnspentOutputs::new();
        utxos.add(&ada_utxo(&from, 0x61, 0, v));
        send_all_report(&lbl, &utxos, v, 1);
    }

    // exact boundaries: offsets are relative to 2^32
    let f = |off: u64| {
        let v = p32 + off;
        let mut utxos = TransactionUnspentOutputs::new();
        utxos.add(&ada_utxo(&from, 0x61, 0, v));
        send_all_class(&utxos, v)
    };
    scan_rle("T6 scan v = 2^32 + offset, coarse", 150_000, 600_000, 1000, &f);
    scan_rle("T6 scan v = 2^32 + offset, fine lower edge", 165_200, 165_500, 1, &f);
    scan_rle("T6 scan v = 2^32 + offset, fine upper edge", 330_000, 331_000, 1, &f);
}

// ---------------------------------------------------------------- T7

#[test]
fn t7_send_all_dust_top_up() {
    let from = base_address(1);
    let policy = script_hash(0x09);
    println!("[T7] utxo A: 1200000 lovelace + 10 x (policy 09*28, name \"tok\") ; utxo B: pure ADA, swept ; same base address");
    for b in [
        100_000u64, 100_500, 101_000, 102_000, 102_250, 150_000, 183_500, 185_000, 187_000, 189_000,
        300_000, 1_000_000,
    ] {
        let lbl = format!("T7 pureADA={}", b);
        let mut utxos = TransactionUnspentOutputs::new();
        utxos.add(&TransactionUnspentOutput::new(
            &tx_input(0x71, 0),
            &TransactionOutput::new(
                &from,
                &Value::new_with_assets(
                    &BigNum::from(1_200_000u64),
                    &token_ma_by_hash(&policy, b"tok", 10),
                ),
            ),
        ));
        utxos.add(&ada_utxo(&from, 0x71, 1, b));
        send_all_report(&lbl, &utxos, 1_200_000 + b, 1);
    }
    // control: the token utxo alone, and reversed order of the offered list
    {
        let mut utxos = TransactionUnspentOutputs::new();
        utxos.add(&TransactionUnspentOutput::new(
            &tx_input(0x71, 0),
            &TransactionOutput::new(
                &from,
                &Value::new_with_assets(
                    &BigNum::from(1_200_000u64),
                    &token_ma_by_hash(&policy, b"tok", 10),
                ),
            ),
        ));
        send_all_report("T7 CONTROL token utxo alone", &utxos, 1_200_000, 1);
    }
    for b in [185_000u64, 187_000u64] {
        let mut utxos = TransactionUnspentOutputs::new();
        utxos.add(&ada_utxo(&from, 0x71, 1, b));
        utxos.add(&TransactionUnspentOutput::new(
            &tx_input(0x71, 0),
            &TransactionOutput::new(
                &from,
                &Value::new_with_assets(
                    &BigNum::from(1_200_000u64),
                    &token_ma_by_hash(&policy, b"tok", 10),
                ),
            ),
        ));
        send_all_report(
            &format!("T7 reversed list order pureADA={}", b),
            &utxos,
            1_200_000 + b,
            1,
        );
    }
}

#[test]
fn t7b_send_all_dust_top_up_scan() {
    let from = base_address(1);
    let policy = script_hash(0x09);
    for token_ada in [1_000_000u64, 1_100_000, 1_150_000, 1_163_000, 1_200_000, 1_300_000, 1_400_000] {
        let f = |b: u64| {
            let mut utxos = TransactionUnspentOutputs::new();
            utxos.add(&TransactionUnspentOutput::new(
                &tx_input(0x71, 0),
                &TransactionOutput::new(
                    &from,
                    &Value::new_with_assets(
                        &BigNum::from(token_ada),
                        &token_ma_by_hash(&policy, b"tok", 10),
                    ),
                ),
            ));
            utxos.add(&ada_utxo(&from, 0x71, 1, b));
            send_all_class(&utxos, token_ada + b)
        };
        scan_rle(
            &format!("T7 scan token utxo ada={} ; pure-ADA utxo amount", token_ada),
            1000,
            500_000,
            250,
            &f,
        );
    }
    // fine scan of the window for the token utxo holding 1200000
    {
        let token_ada = 1_200_000u64;
        let f = |b: u64| {
            let mut utxos = TransactionUnspentOutputs::new();
            utxos.add(&TransactionUnspentOutput::new(
                &tx_input(0x71, 0),
                &TransactionOutput::new(
                    &from,
                    &Value::new_with_assets(
                        &BigNum::from(token_ada),
                        &token_ma_by_hash(&policy, b"tok", 10),
                    ),
                ),
            ));
            utxos.add(&ada_utxo(&from, 0x71, 1, b));
            let c = send_all_class(&utxos, token_ada + b);
            // collapse the varying difference so the window shows up as one run
            if c.starts_with("Ok UNBALANCED") {
                "Ok UNBALANCED (outputs+fee > inputs)".to_string()
            } else {
                c
            }
        };
        scan_rle("T7 FINE scan token utxo ada=1200000 ; pure-ADA utxo amount", 100_000, 102_300, 1, &f);
    }
    // simplest form: ONE utxo (token + ada), no pure-ADA utxo at all
    {
        let f = |token_ada: u64| {
            let mut utxos = TransactionUnspentOutputs::new();
            utxos.add(&TransactionUnspentOutput::new(
                &tx_input(0x71, 0),
                &TransactionOutput::new(
                    &from,
                    &Value::new_with_assets(
                        &BigNum::from(token_ada),
                        &token_ma_by_hash(&policy, b"tok", 10),
                    ),
                ),
            ));
            send_all_class(&utxos, token_ada)
        };
        scan_rle("T7 scan SINGLE token utxo, its ada amount", 1_290_000, 1_340_000, 250, &f);
    }
}

// ---------------------------------------------------------------- T8

#[test]
fn t8_add_inputs_from_duplicate_utxo() {
    let from = base_address(1);
    for strategy in [
        LF,
        RI,
        LFMA,
        RIMA,
    ] {
        for (olabel, second_idx) in [("offered = [U, U] (SAME input, 6 ADA each entry)", 0u32), ("CONTROL offered = [U0, U1] (distinct, 6 ADA each)", 1u32)] {
            let lbl = format!("T8 {} {}", strategy_name(strategy), olabel);
            let mut tb = TransactionBuilder::new(&cfg_plain());
            tb.add_output(&TransactionOutput::new(
                &base_address(2),
                &Value::new(&BigNum::from(10_000_000u64)),
            ))
            .unwrap();
            let mut utxos = TransactionUnspentOutputs::new();
            utxos.add(&ada_utxo(&from, 0x81, 0, 6_000_000));
            utxos.add(&ada_utxo(&from, 0x81, second_idx, 6_000_000));
            let r = catch_unwind(AssertUnwindSafe(|| tb.add_inputs_from(&utxos, strat(strategy))));
            match r {
                Err(e) => println!("[{}] add_inputs_from PANIC {}", lbl, panic_msg(e)),
                Ok(r) => {
                    println!("[{}] output 10000000 ; add_inputs_from -> {}", lbl, describe(&r));
                    print_balance(&lbl, &tb);
                    if r.is_ok() {
                        print_follow_up(&lbl, &tb);
                    }
                }
            }
        }
    }
}

// ---------------------------------------------------------------- T9

fn t9_builder(policy_script: &NativeScript, asset: &AssetName) -> TransactionBuilder {
    let mut tb = TransactionBuilder::new(&cfg_plain());
    tb.add_mint_asset(policy_script, asset, &Int::new_i32(-5)).unwrap();
    tb.add_output(&TransactionOutput::new(
        &base_address(2),
        &Value::new(&BigNum::from(2_000_000u64)),
    ))
    .unwrap();
    tb
}

fn t9_report(lbl: &str, tb: &TransactionBuilder, r: &Result<(), JsError>) {
    println!("[{}] add_inputs_from -> {}", lbl, describe(r));
    println!(
        "[{}] get_total_input  = {}",
        lbl,
        tb.get_total_input()
            .map(|v| v.to_json().unwrap())
            .unwrap_or_else(|e| format!("Err({:?})", e))
    );
    println!(
        "[{}] get_total_output = {}",
        lbl,
        tb.get_total_output()
            .map(|v| v.to_json().unwrap())
            .unwrap_or_else(|e| format!("Err({:?})", e))
    );
    println!(
        "[{}] get_explicit_input = {}",
        lbl,
        tb.get_explicit_input()
            .map(|v| v.to_json().unwrap())
            .unwrap_or_else(|e| format!("Err({:?})", e))
    );
    println!("[{}] builder holds {}", lbl, builder_inputs(tb));
}

#[test]
fn t9_add_inputs_from_with_burn() {
    let from = base_address(1);
    let policy_script = NativeScript::new_script_pubkey(&ScriptPubkey::new(&key_hash(5)));
    let policy = policy_script.hash();
    let asset = AssetName::new(b"X".to_vec()).unwrap();
    println!(
        "[T9] policy {} asset name 58 ('X') ; builder burns 5 X (mint -5), one 2 ADA output, no inputs",
        policy.to_hex()
    );

    let pure_offered = || {
        let mut utxos = TransactionUnspentOutputs::new();
        utxos.add(&ada_utxo(&from, 0x91, 0, 3_000_000));
        utxos.add(&ada_utxo(&from, 0x91, 1, 4_000_000));
        utxos.add(&ada_utxo(&from, 0x91, 2, 5_000_000));
        utxos
    };
    let with_x_offered = || {
        let mut utxos = pure_offered();
        utxos.add(&TransactionUnspentOutput::new(
            &tx_input(0x91, 3),
            &TransactionOutput::new(
                &from,
                &Value::new_with_assets(
                    &BigNum::from(2_000_000u64),
                    &token_ma_by_hash(&policy, b"X", 5),
                ),
            ),
        ));
        utxos
    };

    // candidate: no offered utxo holds X
    for strategy in [
        LF,
        RI,
        LFMA,
        RIMA,
    ] {
        let lbl = format!(
            "T9 {} offered = 3/4/5 ADA pure, NONE holds X",
            strategy_name(strategy)
        );
        let mut tb = t9_builder(&policy_script, &asset);
        let utxos = pure_offered();
        let r = catch_unwind(AssertUnwindSafe(|| tb.add_inputs_from(&utxos, strat(strategy))));
        match r {
            Err(e) => println!("[{}] add_inputs_from PANIC {}", lbl, panic_msg(e)),
            Ok(r) => {
                t9_report(&lbl, &tb, &r);
                if r.is_ok() {
                    print_follow_up(&lbl, &tb);
                }
            }
        }
    }

    // control: offered list contains a utxo with 5 X
    for strategy in [
        LFMA,
        RIMA,
        LF,
    ] {
        let lbl = format!(
            "T9 CONTROL {} offered = 3/4/5 ADA pure + (2 ADA, 5 X)",
            strategy_name(strategy)
        );
        let mut tb = t9_builder(&policy_script, &asset);
        let utxos = with_x_offered();
        let r = catch_unwind(AssertUnwindSafe(|| tb.add_inputs_from(&utxos, strat(strategy))));
        match r {
            Err(e) => println!("[{}] add_inputs_from PANIC {}", lbl, panic_msg(e)),
            Ok(r) => {
                t9_report(&lbl, &tb, &r);
                if r.is_ok() {
                    print_follow_up(&lbl, &tb);
                }
            }
        }
    }
}
