use cardano_serialization_lib::*;

fn show<T, E: std::fmt::Debug>(name: &str, r: Result<T, E>, f: impl Fn(&T) -> String) {
    match r {
        Ok(v) => println!("{name}: Ok -> {}", f(&v)),
        Err(e) => println!("{name}: Err {:?}", e),
    }
}

#[test]
fn triage() {
    // general-form constr: tag 102, array(3) [alt, fields, extra]
    show("PlutusData d866 83 00 80 00", PlutusData::from_hex("d86683008000"), |v| v.to_hex());
    show("ConstrPlutusData d866 83 00 80 00", ConstrPlutusData::from_hex("d86683008000"), |v| v.to_hex());
    show("ExUnits 83 01 02 03", ExUnits::from_hex("83010203"), |v| v.to_hex());
    show("ExUnitPrices 83 d81e820102 d81e820102 00", ExUnitPrices::from_hex("83d81e820102d81e82010200"), |v| v.to_hex());
    // redeemer array of 5: tag, index, data, ex_units, extra
    show("Redeemer 85 00 00 01 820102 00", Redeemer::from_hex("85000001820102 00".replace(' ', "").as_str()), |v| v.to_hex());
    // datum inside a list: [constr-overlong, 7]  => the extra item shifts
    show("PlutusList 82 d86683008000 07", PlutusList::from_hex("82d8668300800007"), |v| format!("{} len {}", v.to_hex(), v.len()));
    show("PlutusData list 82 d86683008000 07", PlutusData::from_hex("82d8668300800007"), |v| v.to_hex());
    // aux data: array of 3
    show("AuxiliaryData 83 a0 80 00", AuxiliaryData::from_hex("83a08000"), |v| v.to_hex());
    let body = TransactionBody::new_tx_body(&TransactionInputs::new(), &TransactionOutputs::new(), &Coin::zero());
    let bh = body.to_hex();
    let tx = format!("84{}a0f583a08000", bh);
    show("FixedTransaction aux 83a08000", FixedTransaction::from_hex(&tx), |v| format!("same={} out={}", v.to_hex() == tx, v.to_hex()));
    let tx2 = format!("84{}a0f5d866830080", bh);
    println!("input  {}", tx);
}
