// triage: ByronAddress::from_base58 / is_valid with bytes after the address. Prints only.
use cardano_serialization_lib::*;
#[test]
fn b58_trailing() {
    let a = ByronAddress::from_base58("Ae2tdPwUPEZ3MHKkpT5Bpj549vrRH7nBqYjNXnCV8G2Bc2YxNcGHEa8ykDp").unwrap();
    let mut bytes = a.to_bytes();
    bytes.push(0);
    let s = b58(&bytes);
    let r = ByronAddress::from_base58(&s);
    println!("from_bytes(tail) ok={} ; from_base58(tail) ok={} ; is_valid(tail)={} ; reencoded same={:?}",
        ByronAddress::from_bytes(bytes.clone()).is_ok(), r.is_ok(), ByronAddress::is_valid(&s), r.ok().map(|x| x.to_base58() == s));
}

fn b58(input: &[u8]) -> String {
    const A: &[u8] = b"123456789ABCDEFGHJKLMNPQRSTUVWXYZabcdefghijkmnopqrstuvwxyz";
    let mut digits: Vec<u8> = vec![0];
    for &b in input {
        let mut carry = b as u32;
        for d in digits.iter_mut() {
            carry += (*d as u32) << 8;
            *d = (carry % 58) as u8;
            carry /= 58;
        }
        while carry > 0 {
            digits.push((carry % 58) as u8);
            carry /= 58;
        }
    }
    let mut out = String::new();
    for &b in input {
        if b == 0 { out.push('1'); } else { break; }
    }
    for d in digits.iter().rev() {
        out.push(A[*d as usize] as char);
    }
    out
}
