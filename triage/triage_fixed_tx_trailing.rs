// triage: FixedTransaction built from raw parts that carry bytes after the item. Prints only.
use cardano_serialization_lib::*;
#[test]
fn fixed_tail() {
    let body = TransactionBody::new_tx_body(&TransactionInputs::new(), &TransactionOutputs::new(), &BigNum::from(0u64));
    let mut raw = body.to_bytes();
    raw.push(0x00);
    let r = FixedTransaction::new_from_body_bytes(&raw);
    println!("new_from_body_bytes(body ++ 00) -> {}", r.is_ok());
    if let Ok(tx) = r {
        let out = tx.to_bytes();
        println!("  to_bytes = {} ; FixedTransaction::from_bytes(to_bytes) -> {} ; Transaction::from_bytes(to_bytes) -> {}", hex::encode(&out), FixedTransaction::from_bytes(out.clone()).is_ok(), Transaction::from_bytes(out).is_ok());
    }
    let mut tx = FixedTransaction::new_from_body_bytes(&body.to_bytes()).unwrap();
    println!("set_body(body ++ 00) -> {} ; to_bytes = {}", tx.set_body(&raw).is_ok(), hex::encode(tx.to_bytes()));
}
