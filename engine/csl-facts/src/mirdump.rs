// MIR -> JSON (one "fn" record per body). Faithful, rule-free dump.
use crate::json::*;
use crate::{Ctx, Loc};
use rustc_hir::def::DefKind;
use rustc_middle::mir::{
    self, AggregateKind, AssertKind, BasicBlock, Body, BorrowKind, Operand, Place, PlaceElem, Rvalue,
    StatementKind, TerminatorKind, UnwindAction,
};
use rustc_middle::ty::{self, Instance, TyCtxt, TypingEnv};
use rustc_middle::ty::print::PrintTraitRefExt;
use rustc_span::def_id::{DefId, LocalDefId};
use rustc_span::Span;
use std::fmt::Write as _;

struct FnCx<'a, 'tcx> {
    cx: &'a Ctx<'tcx>,
    body: &'a Body<'tcx>,
    te: TypingEnv<'tcx>,
    file: String,
}

impl<'a, 'tcx> FnCx<'a, 'tcx> {
    fn loc(&self, sp: Span) -> String {
        let l = self.cx.loc(sp);
        compact_loc(&l, &self.file)
    }

    fn place(&self, p: &Place<'tcx>) -> String {
        let tcx = self.cx.tcx;
        let mut s = format!("_{}", p.local.as_usize());
        let mut pty = mir::PlaceTy::from_ty(self.body.local_decls[p.local].ty);
        for elem in p.projection.iter() {
            match elem {
                PlaceElem::Deref => s.push_str("|*"),
                PlaceElem::Field(f, _) => match pty.ty.kind() {
                    ty::Adt(adt, _) => {
                        let vi = pty.variant_index.unwrap_or(rustc_abi::FIRST_VARIANT);
                        let v = adt.variant(vi);
                        let fname = v.fields[f].name;
                        let _ = write!(
                            s,
                            "|f:{}:{}:{}",
                            self.cx.path(adt.did()),
                            if adt.is_enum() { v.name.to_string() } else { "-".to_string() },
                            fname
                        );
                    }
                    ty::Tuple(_) => {
                        let _ = write!(s, "|t:{}", f.as_usize());
                    }
                    ty::Closure(..) => {
                        let _ = write!(s, "|u:{}", f.as_usize());
                    }
                    _ => {
                        let _ = write!(s, "|t:{}", f.as_usize());
                    }
                },
                PlaceElem::Downcast(name, vi) => {
                    let n = match pty.ty.kind() {
                        ty::Adt(adt, _) => adt.variant(vi).name.to_string(),
                        _ => format!("{}", vi.as_usize()),
                    };
                    let _ = write!(s, "|d:{}", n);
                }
                PlaceElem::Index(l) => {
                    let _ = write!(s, "|i:_{}", l.as_usize());
                }
                PlaceElem::ConstantIndex { offset, from_end, .. } => {
                    let _ = write!(s, "|c:{}{}", if from_end { "-" } else { "" }, offset);
                }
                PlaceElem::Subslice { .. } => s.push_str("|s"),
                _ => s.push_str("|o"),
            }
            pty = pty.projection_ty(tcx, elem);
        }
        s
    }

    fn operand(&self, o: &Operand<'tcx>) -> String {
        match o {
            Operand::Copy(p) => format!("[\"c\",{}]", jstr(&self.place(p))),
            Operand::Move(p) => format!("[\"m\",{}]", jstr(&self.place(p))),
            Operand::Constant(c) => {
                let t = c.const_.ty();
                let (fnp, ga) = match t.kind() {
                    ty::FnDef(d, ga) => (jstr(&self.cx.path(*d)), jstr(&ty::print::with_no_trimmed_paths!(format!("{:?}", ga)))),
                    ty::Closure(d, _) => (jstr(&self.cx.path(*d)), "null".to_string()),
                    _ => ("null".to_string(), "null".to_string()),
                };
                let evaluated = if t.is_integral() || t.is_bool() || t.is_char() {
                    c.const_.try_eval_scalar_int(self.cx.tcx, self.te).map(|si| {
                        if t.is_signed() {
                            format!("{}_{}", si.to_int(si.size()), t)
                        } else if t.is_bool() {
                            (if si.to_uint(si.size()) != 0 { "true" } else { "false" }).to_string()
                        } else {
                            format!("{}_{}", si.to_uint(si.size()), t)
                        }
                    })
                } else {
                    None
                };
                let static_ref = match c.const_ {
                    rustc_middle::mir::Const::Val(rustc_middle::mir::ConstValue::Scalar(rustc_middle::mir::interpret::Scalar::Ptr(p, _)), _) => {
                        match self.cx.tcx.try_get_global_alloc(p.provenance.alloc_id()) {
                            Some(rustc_middle::mir::interpret::GlobalAlloc::Static(d)) => Some(format!("static:{}", self.cx.path(d))),
                            _ => None,
                        }
                    }
                    _ => None,
                };
                let disp = if matches!(t.kind(), ty::FnDef(..)) {
                    String::from("fn")
                } else if let Some(v) = static_ref {
                    v
                } else if let Some(v) = evaluated {
                    v
                } else {
                    let mut v = ty::print::with_no_trimmed_paths!(format!("{}", c.const_));
                    if v.len() > 200 {
                        v.truncate(200);
                    }
                    v
                };
                format!("[\"k\",{},{},{}]", jstr(&disp), fnp, jstr(&self.cx.ty_str(t)))
            }
            #[allow(unreachable_patterns)]
            _ => format!("[\"o\",{}]", jstr(&format!("{:?}", o))),
        }
    }

    fn rvalue(&self, rv: &Rvalue<'tcx>) -> String {
        let tcx = self.cx.tcx;
        match rv {
            Rvalue::Use(o, ..) => format!("[\"use\",{}]", self.operand(o)),
            Rvalue::Ref(_, bk, p) => {
                let k = match bk {
                    BorrowKind::Shared => "shared",
                    BorrowKind::Mut { .. } => "mut",
                    _ => "fake",
                };
                format!("[\"ref\",\"{}\",{}]", k, jstr(&self.place(p)))
            }
            Rvalue::RawPtr(k, p) => format!("[\"rawptr\",{},{}]", jstr(&format!("{:?}", k)), jstr(&self.place(p))),
            Rvalue::Cast(k, o, t) => {
                let from = o.ty(&self.body.local_decls, tcx);
                let kind = format!("{:?}", k);
                let kind = kind.split('(').next().unwrap_or("").to_string();
                format!(
                    "[\"cast\",{},{},{},{}]",
                    jstr(&kind),
                    self.operand(o),
                    jstr(&self.cx.ty_str(from)),
                    jstr(&self.cx.ty_str(*t))
                )
            }
            Rvalue::BinaryOp(op, ab) => {
                let (a, b) = &**ab;
                let t = a.ty(&self.body.local_decls, tcx);
                format!(
                    "[\"bin\",{},{},{},{}]",
                    jstr(&format!("{:?}", op)),
                    self.operand(a),
                    self.operand(b),
                    jstr(&self.cx.ty_str(t))
                )
            }
            Rvalue::UnaryOp(op, a) => {
                let t = a.ty(&self.body.local_decls, tcx);
                format!("[\"un\",{},{},{}]", jstr(&format!("{:?}", op)), self.operand(a), jstr(&self.cx.ty_str(t)))
            }
            Rvalue::Discriminant(p) => format!("[\"discr\",{}]", jstr(&self.place(p))),
            Rvalue::Aggregate(k, ops) => {
                let opsj: Vec<String> = ops.iter().map(|o| self.operand(o)).collect();
                let (kind, name, variant) = match &**k {
                    AggregateKind::Adt(did, vi, _, _, _) => {
                        let adt = tcx.adt_def(*did);
                        let v = adt.variant(*vi);
                        ("adt", self.cx.path(*did), if adt.is_enum() { v.name.to_string() } else { "-".to_string() })
                    }
                    AggregateKind::Tuple => ("tuple", String::new(), String::new()),
                    AggregateKind::Array(_) => ("array", String::new(), String::new()),
                    AggregateKind::Closure(did, _) => ("closure", self.cx.path(*did), String::new()),
                    _ => ("other", String::new(), String::new()),
                };
                format!("[\"agg\",\"{}\",{},{},{}]", kind, jstr(&name), jstr(&variant), jarr(&opsj))
            }
            Rvalue::Repeat(o, n) => format!("[\"repeat\",{},{}]", self.operand(o), jstr(&format!("{}", n))),
            Rvalue::CopyForDeref(p) => format!("[\"deref\",{}]", jstr(&self.place(p))),
            _ => {
                let mut d = format!("{:?}", rv);
                if d.len() > 160 {
                    d.truncate(160);
                }
                format!("[\"other\",{}]", jstr(&d))
            }
        }
    }

    fn callee(&self, func: &Operand<'tcx>) -> String {
        let tcx = self.cx.tcx;
        let fty = func.ty(&self.body.local_decls, tcx);
        match fty.kind() {
            ty::FnDef(did, ga) => {
                let orig = self.cx.path(*did);
                let mut to = orig.clone();
                let mut res = false;
                let mut rdid = *did;
                let mut ikind = "item".to_string();
                let mut rga = *ga;
                match Instance::try_resolve(tcx, self.te, *did, ga) {
                    Ok(Some(i)) => {
                        res = true;
                        rdid = i.def_id();
                        rga = i.args;
                        to = self.cx.path(rdid);
                        let dk = format!("{:?}", i.def);
                        ikind = dk.split('(').next().unwrap_or("").split(' ').next().unwrap_or("").to_string();
                    }
                    _ => {}
                }
                let is_trait_item = tcx.trait_of_assoc(rdid).is_some();
                let has_body = if rdid.is_local() {
                    true
                } else {
                    tcx.is_mir_available(rdid)
                };
                let default_body = is_trait_item && matches!(tcx.def_kind(rdid), DefKind::AssocFn) && tcx.defaultness(rdid).has_value();
                let (df, dl) = if rdid.is_local() {
                    ("null".to_string(), 0)
                } else {
                    let sp = tcx.def_span(rdid);
                    if sp.is_dummy() {
                        ("null".to_string(), 0)
                    } else {
                        let l = tcx.sess.source_map().lookup_char_pos(sp.lo());
                        (jstr(&format!("{}", l.file.name.prefer_local_unconditionally())), l.line)
                    }
                };
                let gas = ty::print::with_no_trimmed_paths!(format!("{:?}", rga));
                // local ADTs / closures mentioned in the generic args (for callback edges)
                let mut mentioned: Vec<String> = Vec::new();
                for a in rga.iter() {
                    if let Some(t) = a.as_type() {
                        for inner in t.walk() {
                            if let Some(it) = inner.as_type() {
                                match it.kind() {
                                    ty::Adt(ad, _) if ad.did().is_local() => mentioned.push(format!("adt:{}", self.cx.path(ad.did()))),
                                    ty::Closure(cd, _) => mentioned.push(format!("closure:{}", self.cx.path(*cd))),
                                    ty::FnDef(fd, _) => mentioned.push(format!("fn:{}", self.cx.path(*fd))),
                                    ty::Param(_) => mentioned.push("param".to_string()),
                                    _ => {}
                                }
                            }
                        }
                    }
                }
                mentioned.sort();
                mentioned.dedup();
                format!(
                    "{{\"to\":{},\"orig\":{},\"crate\":{},\"local\":{},\"res\":{},\"trait_item\":{},\"default_body\":{},\"ik\":{},\"ga\":{},\"men\":{},\"df\":{},\"dl\":{}}}",
                    jstr(&to),
                    if to == orig { "null".to_string() } else { jstr(&orig) },
                    jstr(tcx.crate_name(rdid.krate).as_str()),
                    rdid.is_local(),
                    res,
                    is_trait_item,
                    default_body,
                    jstr(&ikind),
                    jstr(&gas),
                    jstrs(&mentioned),
                    df,
                    dl
                )
            }
            _ => format!(
                "{{\"to\":null,\"indirect\":{},\"fty\":{}}}",
                self.operand(func),
                jstr(&self.cx.ty_str(fty))
            ),
        }
    }
}

pub fn compact_loc(l: &Loc, fn_file: &str) -> String {
    if l.macros.is_empty() && l.file == fn_file && l.desugar.is_none() {
        format!("{}", l.line)
    } else {
        format!(
            "{{\"l\":{},\"f\":{},\"m\":{},\"rf\":{},\"rl\":{},\"ds\":{}}}",
            l.line,
            if l.file == fn_file { "null".to_string() } else { jstr(&l.file) },
            jstrs(&l.macros),
            jopt(&l.rfile),
            l.rline,
            jopt(&l.desugar)
        )
    }
}

fn unwind_target(u: &UnwindAction) -> String {
    match u {
        UnwindAction::Cleanup(bb) => format!("{}", bb.as_usize()),
        _ => "null".to_string(),
    }
}

fn write_bbs<'a, 'tcx>(f: &FnCx<'a, 'tcx>, body: &Body<'tcx>, out: &mut String) {
    let cx = f.cx;
    let tcx = cx.tcx;
    for (bbi, data) in body.basic_blocks.iter_enumerated() {
        if bbi.as_usize() > 0 {
            out.push(',');
        }
        let mut sts = Vec::new();
        for st in data.statements.iter() {
            match &st.kind {
                StatementKind::Assign(b) => {
                    let (p, rv) = &**b;
                    sts.push(format!("[{},\"=\",{},{}]", f.loc(st.source_info.span), jstr(&f.place(p)), f.rvalue(rv)));
                }
                StatementKind::SetDiscriminant { place, variant_index } => {
                    sts.push(format!(
                        "[{},\"setdiscr\",{},{}]",
                        f.loc(st.source_info.span),
                        jstr(&f.place(place)),
                        variant_index.as_usize()
                    ));
                }
                _ => {}
            }
        }
        let term = data.terminator();
        let tl = f.loc(term.source_info.span);
        let tj = match &term.kind {
            TerminatorKind::Goto { target } => format!("[{},\"goto\",{}]", tl, target.as_usize()),
            TerminatorKind::SwitchInt { discr, targets } => {
                let mut ts = Vec::new();
                for (v, t) in targets.iter() {
                    ts.push(format!("[{},{}]", jstr(&format!("{}", v)), t.as_usize()));
                }
                let dty = discr.ty(&body.local_decls, tcx);
                format!(
                    "[{},\"switch\",{},{},{},{}]",
                    tl,
                    f.operand(discr),
                    jarr(&ts),
                    targets.otherwise().as_usize(),
                    jstr(&cx.ty_str(dty))
                )
            }
            TerminatorKind::Return => format!("[{},\"ret\"]", tl),
            TerminatorKind::Unreachable => format!("[{},\"unreachable\"]", tl),
            TerminatorKind::UnwindResume => format!("[{},\"resume\"]", tl),
            TerminatorKind::UnwindTerminate(_) => format!("[{},\"abort\"]", tl),
            TerminatorKind::Drop { place, target, unwind, .. } => format!(
                "[{},\"drop\",{},{},{}]",
                tl,
                jstr(&f.place(place)),
                target.as_usize(),
                unwind_target(unwind)
            ),
            TerminatorKind::Call { func, args, destination, target, unwind, fn_span, .. } => {
                let a: Vec<String> = args.iter().map(|a| f.operand(&a.node)).collect();
                format!(
                    "[{},\"call\",{},{},{},{},{}]",
                    tl,
                    f.callee(func),
                    jarr(&a),
                    jstr(&f.place(destination)),
                    match target { Some(t) => format!("{}", t.as_usize()), None => "null".to_string() },
                    unwind_target(unwind)
                )
            }
            TerminatorKind::TailCall { func, args, .. } => {
                let a: Vec<String> = args.iter().map(|a| f.operand(&a.node)).collect();
                format!("[{},\"tailcall\",{},{}]", tl, f.callee(func), jarr(&a))
            }
            TerminatorKind::Assert { cond, expected, msg, target, unwind } => {
                let (k, ops): (String, Vec<String>) = match &**msg {
                    AssertKind::BoundsCheck { len, index } => ("BoundsCheck".into(), vec![f.operand(len), f.operand(index)]),
                    AssertKind::Overflow(op, a, b) => (format!("Overflow:{:?}", op), vec![f.operand(a), f.operand(b)]),
                    AssertKind::OverflowNeg(a) => ("OverflowNeg".into(), vec![f.operand(a)]),
                    AssertKind::DivisionByZero(a) => ("DivisionByZero".into(), vec![f.operand(a)]),
                    AssertKind::RemainderByZero(a) => ("RemainderByZero".into(), vec![f.operand(a)]),
                    other => {
                        let d = format!("{:?}", other);
                        (d.split(|c: char| !c.is_alphanumeric()).next().unwrap_or("Other").to_string(), vec![])
                    }
                };
                format!(
                    "[{},\"assert\",{},{},{},{},{},{}]",
                    tl,
                    f.operand(cond),
                    expected,
                    jstr(&k),
                    jarr(&ops),
                    target.as_usize(),
                    unwind_target(unwind)
                )
            }
            other => {
                let d = format!("{:?}", other);
                let succ: Vec<String> = other.successors().map(|b| format!("{}", b.as_usize())).collect();
                format!("[{},\"other\",{},{}]", tl, jstr(d.split(|c: char| !c.is_alphanumeric()).next().unwrap_or("")), jarr(&succ))
            }
        };
        let _ = write!(out, "{{\"c\":{},\"st\":{},\"t\":{}}}", data.is_cleanup, jarr(&sts), tj);
    }
}

/// promoted constants of a body (`&(-B..=B)` and the like): their MIR still shows how the constant is built
pub fn dump_promoted<'tcx>(cx: &Ctx<'tcx>, ldid: LocalDefId, out: &mut String) {
    let tcx = cx.tcx;
    let did = ldid.to_def_id();
    let te = TypingEnv::post_analysis(tcx, did);
    let dl = cx.loc(tcx.def_span(did));
    for (pi, body) in tcx.promoted_mir(did).iter_enumerated() {
        let f = FnCx { cx, body, te, file: dl.file.clone() };
        let locals: Vec<String> = body.local_decls.iter().map(|d| jstr(&cx.ty_str(d.ty))).collect();
        let _ = write!(
            out,
            "{{\"t\":\"promoted\",\"id\":{},\"parent\":{},\"locals\":{},\"bbs\":[",
            jstr(&format!("{}::promoted[{}]", cx.path(did), pi.as_usize())),
            jstr(&cx.path(did)),
            jarr(&locals)
        );
        write_bbs(&f, body, out);
        out.push_str("]}\n");
    }
}

pub fn dump_fn<'tcx>(cx: &Ctx<'tcx>, ldid: LocalDefId, out: &mut String) {
    let tcx = cx.tcx;
    let did = ldid.to_def_id();
    let body: &Body<'tcx> = tcx.optimized_mir(did);
    let te = TypingEnv::post_analysis(tcx, did);
    let dl = cx.loc(tcx.def_span(did));
    let f = FnCx { cx, body, te, file: dl.file.clone() };
    let kind = tcx.def_kind(did);
    let vis = if matches!(kind, DefKind::Fn | DefKind::AssocFn) {
        if tcx.visibility(did).is_public() { "pub" } else { "restricted" }
    } else {
        "closure"
    };
    // enclosing impl / trait
    let mut impl_trait = "null".to_string();
    let mut impl_trait_full = "null".to_string();
    let mut self_ty = "null".to_string();
    let mut self_adt = "null".to_string();
    let mut in_trait = "null".to_string();
    let mut parent_fn = "null".to_string();
    let mut impl_derive = None;
    if matches!(kind, DefKind::AssocFn) {
        let p = tcx.parent(did);
        match tcx.def_kind(p) {
            DefKind::Impl { .. } => {
                if let Some(tr) = tcx.impl_opt_trait_ref(p) {
                    let trr = tr.instantiate_identity().skip_norm_wip();
                    impl_trait = jstr(&cx.path(trr.def_id));
                    impl_trait_full = jstr(&ty::print::with_no_trimmed_paths!(format!("{}", trr.print_only_trait_path())));
                }
                let st = tcx.type_of(p).instantiate_identity().skip_norm_wip();
                self_ty = jstr(&cx.ty_str(st));
                if let ty::Adt(a, _) = st.kind() {
                    self_adt = jstr(&cx.path(a.did()));
                }
                impl_derive = cx.loc(tcx.def_span(p)).derive;
            }
            DefKind::Trait => in_trait = jstr(&cx.path(p)),
            _ => {}
        }
    }
    if matches!(kind, DefKind::Closure) {
        let root = tcx.typeck_root_def_id(did);
        parent_fn = jstr(&cx.path(root));
    }
    let derive = dl.derive.clone().or(impl_derive);

    let _ = write!(
        out,
        "{{\"t\":\"fn\",\"id\":{},\"kind\":{},\"vis\":\"{}\",\"file\":{},\"line\":{},\"macros\":{},\"rfile\":{},\"rline\":{},\"derive\":{},\"impl_trait\":{},\"impl_trait_full\":{},\"self_ty\":{},\"self_adt\":{},\"in_trait\":{},\"parent_fn\":{},\"name\":{},\"argc\":{},",
        jstr(&cx.path(did)),
        jstr(&format!("{:?}", kind)),
        vis,
        jstr(&dl.file),
        dl.line,
        jstrs(&dl.macros),
        jopt(&dl.rfile),
        dl.rline,
        jopt(&derive),
        impl_trait,
        impl_trait_full,
        self_ty,
        self_adt,
        in_trait,
        parent_fn,
        jstr(&if matches!(kind, DefKind::Closure) { "{closure}".to_string() } else { tcx.item_name(did).to_string() }),
        body.arg_count
    );
    // locals
    let locals: Vec<String> = body.local_decls.iter().map(|d| jstr(&cx.ty_str(d.ty))).collect();
    let _ = write!(out, "\"locals\":{},", jarr(&locals));
    // user variable names
    let mut names = Vec::new();
    for vdi in body.var_debug_info.iter() {
        if let mir::VarDebugInfoContents::Place(p) = &vdi.value {
            names.push(format!("[{},{}]", jstr(vdi.name.as_str()), jstr(&f.place(p))));
        }
    }
    let _ = write!(out, "\"names\":{},", jarr(&names));
    // dominators
    let doms = body.basic_blocks.dominators();
    let idom: Vec<String> = body
        .basic_blocks
        .indices()
        .map(|bb| match doms.immediate_dominator(bb) {
            Some(d) => format!("{}", d.as_usize()),
            None => "null".to_string(),
        })
        .collect();
    let _ = write!(out, "\"idom\":{},\"bbs\":[", jarr(&idom));
    write_bbs(&f, body, out);
    out.push_str("]}\n");
}
