// minimal JSON string helpers (no dependencies available offline for a rustc_private driver)
use std::fmt::Write as _;

pub fn jstr(s: &str) -> String {
    let mut o = String::with_capacity(s.len() + 2);
    o.push('"');
    for c in s.chars() {
        match c {
            '"' => o.push_str("\\\""),
            '\\' => o.push_str("\\\\"),
            '\n' => o.push_str("\\n"),
            '\r' => o.push_str("\\r"),
            '\t' => o.push_str("\\t"),
            c if (c as u32) < 0x20 => {
                let _ = write!(o, "\\u{:04x}", c as u32);
            }
            c => o.push(c),
        }
    }
    o.push('"');
    o
}

pub fn jstrs(v: &[String]) -> String {
    let mut o = String::from("[");
    for (i, s) in v.iter().enumerate() {
        if i > 0 {
            o.push(',');
        }
        o.push_str(&jstr(s));
    }
    o.push(']');
    o
}

pub fn jopt(s: &Option<String>) -> String {
    match s {
        Some(x) => jstr(x),
        None => "null".to_string(),
    }
}

pub fn jarr(v: &[String]) -> String {
    let mut o = String::from("[");
    for (i, s) in v.iter().enumerate() {
        if i > 0 {
            o.push(',');
        }
        o.push_str(s);
    }
    o.push(']');
    o
}
