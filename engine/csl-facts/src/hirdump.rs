// HIR -> JSON (one "hir" record per fn / assoc fn, closures inlined). Method and path callees are
// resolved through the type checker; `?`, `for` desugarings are folded back. Rule-free.
use crate::json::*;
use crate::Ctx;
use rustc_hir as hir;
use rustc_hir::def::{DefKind, Res};
use rustc_hir::{Expr, ExprKind, LoopSource, MatchSource, Pat, PatKind, QPath, StmtKind};
use rustc_middle::ty::{self, Instance, TyCtxt, TypeckResults, TypingEnv};
use rustc_span::def_id::{DefId, LocalDefId};
use rustc_span::Span;
use std::fmt::Write as _;

struct H<'a, 'tcx> {
    cx: &'a Ctx<'tcx>,
    tr: &'tcx TypeckResults<'tcx>,
    te: TypingEnv<'tcx>,
    depth: usize,
}

impl<'a, 'tcx> H<'a, 'tcx> {
    fn line(&self, sp: Span) -> usize {
        let sm = self.cx.tcx.sess.source_map();
        let cs = sp.source_callsite();
        if cs.is_dummy() {
            0
        } else {
            sm.lookup_char_pos(cs.lo()).line
        }
    }

    fn resolve_fn(&self, did: DefId, args: ty::GenericArgsRef<'tcx>) -> String {
        let tcx = self.cx.tcx;
        if matches!(tcx.def_kind(did), DefKind::Fn | DefKind::AssocFn) {
            if let Ok(Some(i)) = Instance::try_resolve(tcx, self.te, did, args) {
                return self.cx.path(i.def_id());
            }
        }
        self.cx.path(did)
    }

    fn res(&self, r: Res, hir_id: hir::HirId) -> String {
        let tcx = self.cx.tcx;
        match r {
            Res::Local(id) => format!("[\"local\",{}]", jstr(tcx.hir_name(id).as_str())),
            Res::Def(k, did) => {
                let p = match k {
                    DefKind::Fn | DefKind::AssocFn => self.resolve_fn(did, self.tr.node_args(hir_id)),
                    _ => self.cx.path(did),
                };
                let kname = format!("{:?}", k);
                let kname = kname.split(|c: char| !c.is_alphanumeric()).next().unwrap_or("").to_string();
                format!("[\"def\",{},{}]", jstr(&kname), jstr(&p))
            }
            Res::SelfCtor(d) => format!("[\"selfctor\",{}]", jstr(&self.cx.path(d))),
            Res::SelfTyAlias { alias_to, .. } => format!("[\"selfty\",{}]", jstr(&self.cx.path(alias_to))),
            other => format!("[\"res\",{}]", jstr(&format!("{:?}", other).chars().take(60).collect::<String>())),
        }
    }

    fn ty_of(&self, e: &Expr<'tcx>) -> String {
        match self.tr.expr_ty_opt(e) {
            Some(t) => jstr(&self.cx.ty_str(t)),
            None => "null".to_string(),
        }
    }

    fn block(&mut self, b: &'tcx hir::Block<'tcx>) -> String {
        let mut sts = Vec::new();
        for s in b.stmts {
            match &s.kind {
                StmtKind::Let(l) => {
                    sts.push(format!(
                        "[\"let\",{},{},{},{}]",
                        self.line(s.span),
                        self.pat(l.pat),
                        match l.init { Some(e) => self.expr(e), None => "null".into() },
                        match l.els { Some(b) => self.block(b), None => "null".into() }
                    ));
                }
                StmtKind::Expr(e) => sts.push(format!("[\"expr\",{},{}]", self.line(s.span), self.expr(e))),
                StmtKind::Semi(e) => sts.push(format!("[\"semi\",{},{}]", self.line(s.span), self.expr(e))),
                StmtKind::Item(_) => {}
            }
        }
        format!(
            "[\"block\",{},{},{}]",
            self.line(b.span),
            jarr(&sts),
            match b.expr { Some(e) => self.expr(e), None => "null".into() }
        )
    }

    fn pat(&mut self, p: &'tcx Pat<'tcx>) -> String {
        let tcx = self.cx.tcx;
        match &p.kind {
            PatKind::Wild => "[\"wild\"]".to_string(),
            PatKind::Binding(mode, _, ident, sub) => format!(
                "[\"bind\",{},{},{}]",
                jstr(ident.name.as_str()),
                jstr(&format!("{:?}", mode).chars().filter(|c| c.is_alphanumeric()).collect::<String>()),
                match sub { Some(s) => self.pat(s), None => "null".into() }
            ),
            PatKind::Struct(qp, fields, _) => {
                let r = self.tr.qpath_res(qp, p.hir_id);
                let fs: Vec<String> = fields.iter().map(|f| format!("[{},{}]", jstr(f.ident.name.as_str()), self.pat(f.pat))).collect();
                format!("[\"pstruct\",{},{}]", self.res(r, p.hir_id), jarr(&fs))
            }
            PatKind::TupleStruct(qp, pats, _) => {
                let r = self.tr.qpath_res(qp, p.hir_id);
                let ps: Vec<String> = pats.iter().map(|x| self.pat(x)).collect();
                format!("[\"pts\",{},{}]", self.res(r, p.hir_id), jarr(&ps))
            }
            PatKind::Or(pats) => {
                let ps: Vec<String> = pats.iter().map(|x| self.pat(x)).collect();
                format!("[\"por\",{}]", jarr(&ps))
            }
            PatKind::Tuple(pats, _) => {
                let ps: Vec<String> = pats.iter().map(|x| self.pat(x)).collect();
                format!("[\"ptuple\",{}]", jarr(&ps))
            }
            PatKind::Ref(inner, ..) => format!("[\"pref\",{}]", self.pat(inner)),
            PatKind::Box(inner) => format!("[\"pref\",{}]", self.pat(inner)),
            PatKind::Deref(inner) => format!("[\"pref\",{}]", self.pat(inner)),
            PatKind::Expr(pe) => self.pat_expr(pe),
            PatKind::Range(lo, hi, end) => format!(
                "[\"prange\",{},{},{}]",
                match lo { Some(x) => self.pat_expr(x), None => "null".into() },
                match hi { Some(x) => self.pat_expr(x), None => "null".into() },
                jstr(&format!("{:?}", end))
            ),
            PatKind::Slice(a, m, b) => {
                let ps: Vec<String> = a.iter().chain(b.iter()).map(|x| self.pat(x)).collect();
                format!("[\"pslice\",{},{}]", jarr(&ps), m.is_some())
            }
            other => {
                let d = format!("{:?}", other);
                format!("[\"pother\",{}]", jstr(d.split(|c: char| !c.is_alphanumeric()).next().unwrap_or("")))
            }
        }
    }

    fn pat_expr(&mut self, pe: &'tcx hir::PatExpr<'tcx>) -> String {
        match &pe.kind {
            hir::PatExprKind::Lit { lit, negated } => format!("[\"plit\",{},{}]", self.lit(&lit.node), negated),
            hir::PatExprKind::Path(qp) => {
                let r = self.tr.qpath_res(qp, pe.hir_id);
                format!("[\"ppath\",{}]", self.res(r, pe.hir_id))
            }
            #[allow(unreachable_patterns)]
            _ => "[\"pother\",\"patexpr\"]".to_string(),
        }
    }

    fn lit(&self, l: &rustc_ast::LitKind) -> String {
        use rustc_ast::LitKind as L;
        match l {
            L::Str(s, _) => format!("[\"str\",{}]", jstr(s.as_str())),
            L::Int(v, _) => format!("[\"int\",{}]", jstr(&format!("{}", v.get()))),
            L::Bool(b) => format!("[\"bool\",{}]", b),
            L::Char(c) => format!("[\"char\",{}]", jstr(&c.to_string())),
            L::Byte(b) => format!("[\"int\",{}]", jstr(&format!("{}", b))),
            L::Float(s, _) => format!("[\"float\",{}]", jstr(s.as_str())),
            L::ByteStr(b, _) => format!("[\"bytes\",{}]", jstr(&b.as_byte_str().iter().map(|x| format!("{:02x}", x)).collect::<String>())),
            _ => "[\"olit\"]".to_string(),
        }
    }

    fn exprs(&mut self, es: &'tcx [Expr<'tcx>]) -> String {
        let v: Vec<String> = es.iter().map(|e| self.expr(e)).collect();
        jarr(&v)
    }

    fn expr(&mut self, e: &'tcx Expr<'tcx>) -> String {
        self.depth += 1;
        let r = if self.depth > 400 { "[\"deep\",0]".to_string() } else { self.expr_inner(e) };
        self.depth -= 1;
        r
    }

    fn expr_inner(&mut self, e: &'tcx Expr<'tcx>) -> String {
        let tcx = self.cx.tcx;
        let ln = self.line(e.span);
        match &e.kind {
            ExprKind::Lit(l) => format!("[\"lit\",{},{}]", ln, self.lit(&l.node)),
            ExprKind::Path(qp) => {
                let r = self.tr.qpath_res(qp, e.hir_id);
                let mut extra = String::from("null");
                if let Res::Def(DefKind::Const { .. } | DefKind::AssocConst { .. }, _) = r {
                    extra = self.ty_of(e);
                }
                format!("[\"path\",{},{},{}]", ln, self.res(r, e.hir_id), extra)
            }
            ExprKind::Call(f, args) => {
                // `?` lowers to match Try::branch(x) {...}; handled under Match. Plain call here.
                let callee = match &f.kind {
                    ExprKind::Path(qp) => {
                        let r = self.tr.qpath_res(qp, f.hir_id);
                        match r {
                            Res::Def(DefKind::Fn | DefKind::AssocFn, did) => jstr(&self.resolve_fn(did, self.tr.node_args(f.hir_id))),
                            Res::Def(DefKind::Ctor(..), did) => jstr(&format!("ctor:{}", self.cx.path(did))),
                            Res::SelfCtor(d) => jstr(&format!("selfctor:{}", self.cx.path(d))),
                            _ => "null".to_string(),
                        }
                    }
                    _ => "null".to_string(),
                };
                format!("[\"call\",{},{},{},{}]", ln, callee, self.expr(f), self.exprs(args))
            }
            ExprKind::MethodCall(seg, recv, args, _) => {
                let callee = match self.tr.type_dependent_def_id(e.hir_id) {
                    Some(did) => jstr(&self.resolve_fn(did, self.tr.node_args(e.hir_id))),
                    None => "null".to_string(),
                };
                let rty = match self.tr.expr_ty_opt(recv) {
                    Some(t) => jstr(&self.cx.ty_str(t.peel_refs())),
                    None => "null".to_string(),
                };
                format!(
                    "[\"mcall\",{},{},{},{},{},{}]",
                    ln,
                    jstr(seg.ident.name.as_str()),
                    callee,
                    self.expr(recv),
                    self.exprs(args),
                    rty
                )
            }
            ExprKind::Field(b, ident) => {
                let bty = match self.tr.expr_ty_adjusted_opt(b) {
                    Some(t) => jstr(&self.cx.ty_str(t.peel_refs())),
                    None => "null".to_string(),
                };
                format!("[\"field\",{},{},{},{},{}]", ln, self.expr(b), jstr(ident.name.as_str()), bty, self.ty_of(e))
            }
            ExprKind::Unary(op, a) => format!("[\"unary\",{},{},{}]", ln, jstr(&format!("{:?}", op)), self.expr(a)),
            ExprKind::Binary(op, a, b) => format!("[\"binary\",{},{},{},{},{}]", ln, jstr(&format!("{:?}", op.node)), self.expr(a), self.expr(b), self.ty_of(a)),
            ExprKind::Assign(l, r, _) => format!("[\"assign\",{},{},{}]", ln, self.expr(l), self.expr(r)),
            ExprKind::AssignOp(op, l, r) => format!("[\"assignop\",{},{},{},{},{}]", ln, jstr(&format!("{:?}", op.node)), self.expr(l), self.expr(r), self.ty_of(l)),
            ExprKind::Cast(a, _) => format!("[\"cast\",{},{},{},{}]", ln, self.expr(a), self.ty_of(a), self.ty_of(e)),
            ExprKind::Type(a, _) => self.expr(a),
            ExprKind::DropTemps(a) => self.expr(a),
            ExprKind::Use(a, _) => self.expr(a),
            ExprKind::AddrOf(_, m, a) => format!("[\"ref\",{},{},{}]", ln, matches!(m, hir::Mutability::Mut), self.expr(a)),
            ExprKind::Let(l) => format!("[\"letx\",{},{},{}]", ln, self.pat(l.pat), self.expr(l.init)),
            ExprKind::If(c, t, el) => format!(
                "[\"if\",{},{},{},{}]",
                ln,
                self.expr(c),
                self.expr(t),
                match el { Some(x) => self.expr(x), None => "null".into() }
            ),
            ExprKind::Match(scrut, arms, src) => {
                match src {
                    MatchSource::TryDesugar(_) => {
                        // scrut = Try::branch(inner)
                        if let ExprKind::Call(_, a) = &scrut.kind {
                            if a.len() == 1 {
                                return format!("[\"try\",{},{}]", ln, self.expr(&a[0]));
                            }
                        }
                    }
                    MatchSource::ForLoopDesugar => {
                        // match IntoIterator::into_iter(it) { mut iter => loop { match next(&mut iter) { None => break, Some(pat) => body } } }
                        if let Some(r) = self.try_for(scrut, arms, ln) {
                            return r;
                        }
                    }
                    _ => {}
                }
                let mut av = Vec::new();
                for a in arms.iter() {
                    av.push(format!(
                        "[{},{},{}]",
                        self.pat(a.pat),
                        match a.guard { Some(g) => self.expr(g), None => "null".into() },
                        self.expr(a.body)
                    ));
                }
                let s = format!("{:?}", src);
                format!(
                    "[\"match\",{},{},{},{},{}]",
                    ln,
                    self.expr(scrut),
                    jarr(&av),
                    jstr(s.split(|c: char| !c.is_alphanumeric()).next().unwrap_or("")),
                    self.ty_of(scrut)
                )
            }
            ExprKind::Loop(b, _, src, _) => format!("[\"loop\",{},{},{}]", ln, self.block(b), jstr(&format!("{:?}", src))),
            ExprKind::Block(b, _) => self.block(b),
            ExprKind::Closure(c) => {
                let body = tcx.hir_body(c.body);
                let ps: Vec<String> = body.params.iter().map(|p| self.pat(p.pat)).collect();
                format!("[\"closure\",{},{},{},{}]", ln, jstr(&self.cx.path(c.def_id.to_def_id())), jarr(&ps), self.expr(body.value))
            }
            ExprKind::Ret(a) => format!("[\"ret\",{},{}]", ln, match a { Some(x) => self.expr(x), None => "null".into() }),
            ExprKind::Break(_, a) => format!("[\"break\",{},{}]", ln, match a { Some(x) => self.expr(x), None => "null".into() }),
            ExprKind::Continue(_) => format!("[\"continue\",{}]", ln),
            ExprKind::Struct(qp, fields, tail) => {
                let r = self.tr.qpath_res(qp, e.hir_id);
                let fs: Vec<String> = fields.iter().map(|f| format!("[{},{}]", jstr(f.ident.name.as_str()), self.expr(f.expr))).collect();
                let base = match tail {
                    hir::StructTailExpr::Base(b) => self.expr(b),
                    _ => "null".to_string(),
                };
                format!("[\"struct\",{},{},{},{},{}]", ln, self.res(r, e.hir_id), jarr(&fs), base, self.ty_of(e))
            }
            ExprKind::Tup(es) => format!("[\"tup\",{},{}]", ln, self.exprs(es)),
            ExprKind::Array(es) => format!("[\"array\",{},{}]", ln, self.exprs(es)),
            ExprKind::Repeat(a, _) => format!("[\"repeat\",{},{}]", ln, self.expr(a)),
            ExprKind::Index(b, i, _) => format!("[\"index\",{},{},{},{}]", ln, self.expr(b), self.expr(i), self.ty_of(b)),
            other => {
                let d = format!("{:?}", other);
                format!("[\"other\",{},{}]", ln, jstr(d.split(|c: char| !c.is_alphanumeric()).next().unwrap_or("")))
            }
        }
    }

    fn try_for(&mut self, scrut: &'tcx Expr<'tcx>, arms: &'tcx [hir::Arm<'tcx>], ln: usize) -> Option<String> {
        let iter_e = match &scrut.kind {
            ExprKind::Call(_, a) if a.len() == 1 => &a[0],
            _ => return None,
        };
        if arms.len() != 1 {
            return None;
        }
        let lp = match &arms[0].body.kind {
            ExprKind::Loop(b, _, LoopSource::ForLoop, _) => b,
            _ => return None,
        };
        // loop block: single statement/expr = match next(&mut iter) {...}
        let inner: &Expr<'tcx> = if let Some(e) = lp.expr {
            e
        } else if lp.stmts.len() == 1 {
            match &lp.stmts[0].kind {
                StmtKind::Expr(e) | StmtKind::Semi(e) => e,
                _ => return None,
            }
        } else {
            return None;
        };
        if let ExprKind::Match(_, iarms, _) = &inner.kind {
            for a in iarms.iter() {
                match &a.pat.kind {
                    PatKind::TupleStruct(_, pats, _) if pats.len() == 1 => {
                        let ity = match self.tr.expr_ty_opt(iter_e) {
                            Some(t) => jstr(&self.cx.ty_str(t)),
                            None => "null".into(),
                        };
                        return Some(format!(
                            "[\"for\",{},{},{},{},{}]",
                            ln,
                            self.pat(&pats[0]),
                            self.expr(iter_e),
                            self.expr(a.body),
                            ity
                        ));
                    }
                    PatKind::Struct(_, fps, _) if fps.len() == 1 => {
                        let ity = match self.tr.expr_ty_opt(iter_e) {
                            Some(t) => jstr(&self.cx.ty_str(t)),
                            None => "null".into(),
                        };
                        return Some(format!(
                            "[\"for\",{},{},{},{},{}]",
                            ln,
                            self.pat(fps[0].pat),
                            self.expr(iter_e),
                            self.expr(a.body),
                            ity
                        ));
                    }
                    _ => {}
                }
            }
        }
        None
    }
}

pub fn dump_fn<'tcx>(cx: &Ctx<'tcx>, ldid: LocalDefId, out: &mut String) {
    let tcx = cx.tcx;
    let did = ldid.to_def_id();
    // skip derive output: large and never the subject of a HIR rule
    let dl = cx.loc(tcx.def_span(did));
    if dl.derive.is_some() {
        return;
    }
    if matches!(tcx.def_kind(did), DefKind::AssocFn) {
        let p = tcx.parent(did);
        if cx.loc(tcx.def_span(p)).derive.is_some() {
            return;
        }
    }
    let body = tcx.hir_body_owned_by(ldid);
    let tr = tcx.typeck(ldid);
    let te = TypingEnv::post_analysis(tcx, did);
    let mut h = H { cx, tr, te, depth: 0 };
    let params: Vec<String> = body.params.iter().map(|p| h.pat(p.pat)).collect();
    let sig = tcx.fn_sig(did).instantiate_identity().skip_norm_wip().skip_binder();
    let ptys: Vec<String> = sig.inputs().iter().map(|t| jstr(&cx.ty_str(*t))).collect();
    let b = h.expr(body.value);
    let _ = writeln!(
        out,
        "{{\"t\":\"hir\",\"id\":{},\"file\":{},\"line\":{},\"macros\":{},\"params\":{},\"ptys\":{},\"ret\":{},\"body\":{}}}",
        jstr(&cx.path(did)),
        jstr(&dl.file),
        dl.line,
        jstrs(&dl.macros),
        jarr(&params),
        jarr(&ptys),
        jstr(&cx.ty_str(sig.output())),
        b
    );
}
