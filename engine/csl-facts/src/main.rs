// csl-facts: rustc_private driver that dumps the type-checked program of the analysed crate
// (MIR bodies, HIR bodies with resolved callees, ADTs, impls, integer constants) as JSON lines.
// It contains no rule logic: every verdict is computed by /verif/rules/*.py from these facts.
//
// Used as RUSTC_WORKSPACE_WRAPPER (argv[1] = path of the real rustc, dropped).
// Env: CSL_FACTS_DIR   directory to write <crate>.jsonl into (required to dump anything)
//      CSL_FACTS_CRATES comma separated crate names to dump (default cardano_serialization_lib)
//      CSL_FACTS_NONCE  copied into the meta record (freshness proof)
#![feature(rustc_private)]
#![allow(unused_imports, unused_variables, dead_code)]

extern crate rustc_abi;
extern crate rustc_ast;
extern crate rustc_data_structures;
extern crate rustc_driver;
extern crate rustc_hir;
extern crate rustc_index;
extern crate rustc_interface;
extern crate rustc_middle;
extern crate rustc_span;

mod hirdump;
mod json;
mod mirdump;

use json::*;
use rustc_driver::Compilation;
use rustc_hir::def::DefKind;
use rustc_interface::interface::Compiler;
use rustc_middle::ty::{self, TyCtxt};
use rustc_middle::ty::print::PrintTraitRefExt;
use rustc_span::def_id::{DefId, LOCAL_CRATE};
use rustc_span::Span;
use std::fmt::Write as _;

pub struct Ctx<'tcx> {
    pub tcx: TyCtxt<'tcx>,
}

impl<'tcx> Ctx<'tcx> {
    pub fn path(&self, did: DefId) -> String {
        ty::print::with_no_trimmed_paths!(self.tcx.def_path_str(did))
    }
    pub fn ty_str(&self, t: ty::Ty<'tcx>) -> String {
        ty::print::with_no_trimmed_paths!(format!("{}", t))
    }
    /// (callsite file, callsite line, macro chain innermost first, raw file, raw line, derive name)
    pub fn loc(&self, sp: Span) -> Loc {
        let sm = self.tcx.sess.source_map();
        let mut macros = Vec::new();
        let mut derive = None;
        let mut desugar = None;
        let mut cur = sp;
        let mut guard = 0;
        while cur.from_expansion() && guard < 64 {
            guard += 1;
            let ed = cur.ctxt().outer_expn_data();
            match ed.kind {
                rustc_span::ExpnKind::Macro(kind, name) => {
                    if matches!(kind, rustc_span::MacroKind::Derive) {
                        derive = Some(name.to_string());
                    }
                    macros.push(name.to_string());
                }
                rustc_span::ExpnKind::Desugaring(k) => {
                    if desugar.is_none() {
                        desugar = Some(format!("{:?}", k));
                    }
                }
                _ => {}
            }
            cur = ed.call_site;
        }
        let (file, line) = if cur.is_dummy() {
            (String::from("?"), 0)
        } else {
            let l = sm.lookup_char_pos(cur.lo());
            (format!("{}", l.file.name.prefer_local_unconditionally()), l.line)
        };
        let (rfile, rline) = if sp.from_expansion() && !sp.is_dummy() {
            let l = sm.lookup_char_pos(sp.lo());
            (Some(format!("{}", l.file.name.prefer_local_unconditionally())), l.line)
        } else {
            (None, 0)
        };
        Loc { file, line, macros, rfile, rline, derive, desugar }
    }
}

pub struct Loc {
    pub file: String,
    pub line: usize,
    pub macros: Vec<String>,
    pub rfile: Option<String>,
    pub rline: usize,
    pub derive: Option<String>,
    pub desugar: Option<String>,
}

struct Cb;

impl rustc_driver::Callbacks for Cb {
    fn after_analysis<'tcx>(&mut self, _c: &Compiler, tcx: TyCtxt<'tcx>) -> Compilation {
        let dir = match std::env::var("CSL_FACTS_DIR") {
            Ok(d) => d,
            Err(_) => return Compilation::Continue,
        };
        let wanted = std::env::var("CSL_FACTS_CRATES")
            .unwrap_or_else(|_| "cardano_serialization_lib".to_string());
        let cname = tcx.crate_name(LOCAL_CRATE).to_string();
        if !wanted.split(',').any(|w| w == cname) {
            return Compilation::Continue;
        }
        // skip build scripts / proc-macro style invocations of the same package
        let cx = Ctx { tcx };
        let mut out = String::with_capacity(64 << 20);
        let mut nbodies = 0usize;

        // ADTs, impls, consts
        let items = tcx.hir_crate_items(());
        for ldid in items.definitions() {
            let did = ldid.to_def_id();
            match tcx.def_kind(did) {
                DefKind::Struct | DefKind::Enum | DefKind::Union => dump_adt(&cx, did, &mut out),
                DefKind::Impl { .. } => dump_impl(&cx, did, &mut out),
                DefKind::Const { .. } | DefKind::AssocConst { .. } => dump_const(&cx, did, &mut out),
                DefKind::Static { .. } => dump_static(&cx, did, &mut out),
                DefKind::Trait => dump_trait(&cx, did, &mut out),
                _ => {}
            }
        }

        for ldid in tcx.hir_body_owners() {
            let did = ldid.to_def_id();
            let kind = tcx.def_kind(did);
            if !matches!(kind, DefKind::Fn | DefKind::AssocFn | DefKind::Closure) {
                continue;
            }
            nbodies += 1;
            mirdump::dump_fn(&cx, ldid, &mut out);
            mirdump::dump_promoted(&cx, ldid, &mut out);
            if matches!(kind, DefKind::Fn | DefKind::AssocFn) {
                hirdump::dump_fn(&cx, ldid, &mut out);
            }
        }
        let nonce = std::env::var("CSL_FACTS_NONCE").unwrap_or_default();
        let _ = writeln!(
            out,
            "{{\"t\":\"meta\",\"crate\":{},\"nonce\":{},\"bodies\":{},\"rustc\":{}}}",
            jstr(&cname),
            jstr(&nonce),
            nbodies,
            jstr(option_env!("CFG_VERSION").unwrap_or("nightly"))
        );
        let path = format!("{}/{}.jsonl", dir, cname);
        let tmp = format!("{}.tmp{}", path, std::process::id());
        std::fs::write(&tmp, out).expect("csl-facts: cannot write fact file");
        std::fs::rename(&tmp, &path).expect("csl-facts: cannot rename fact file");
        Compilation::Continue
    }
}

fn dump_adt<'tcx>(cx: &Ctx<'tcx>, did: DefId, out: &mut String) {
    let tcx = cx.tcx;
    let adt = tcx.adt_def(did);
    let l = cx.loc(tcx.def_span(did));
    let kind = if adt.is_enum() { "enum" } else if adt.is_union() { "union" } else { "struct" };
    let mut vs = Vec::new();
    let discrs: Vec<(rustc_abi::VariantIdx, ty::util::Discr<'tcx>)> =
        if adt.is_enum() { adt.discriminants(tcx).collect() } else { Vec::new() };
    for (vi, v) in adt.variants().iter_enumerated() {
        let mut fs = Vec::new();
        for f in v.fields.iter() {
            let fty = tcx.type_of(f.did).instantiate_identity().skip_norm_wip();
            let vis = if f.vis.is_public() { "pub" } else { "restricted" };
            fs.push(format!(
                "{{\"name\":{},\"ty\":{},\"vis\":{}}}",
                jstr(f.name.as_str()),
                jstr(&cx.ty_str(fty)),
                jstr(vis)
            ));
        }
        let d = discrs.iter().find(|(i, _)| *i == vi).map(|(_, d)| d.val as i128);
        vs.push(format!(
            "{{\"name\":{},\"discr\":{},\"ctor\":{},\"fields\":[{}]}}",
            jstr(v.name.as_str()),
            match d { Some(x) => format!("{}", x), None => "null".into() },
            match v.ctor_def_id() { Some(c) => jstr(&cx.path(c)), None => "null".into() },
            fs.join(",")
        ));
    }
    let _ = writeln!(
        out,
        "{{\"t\":\"adt\",\"id\":{},\"kind\":\"{}\",\"file\":{},\"line\":{},\"macros\":{},\"variants\":[{}]}}",
        jstr(&cx.path(did)),
        kind,
        jstr(&l.file),
        l.line,
        jstrs(&l.macros),
        vs.join(",")
    );
}

fn dump_impl<'tcx>(cx: &Ctx<'tcx>, did: DefId, out: &mut String) {
    let tcx = cx.tcx;
    let l = cx.loc(tcx.def_span(did));
    let self_ty = tcx.type_of(did).instantiate_identity().skip_norm_wip();
    let tr = tcx.impl_opt_trait_ref(did).map(|t| {
        let t = t.instantiate_identity().skip_norm_wip();
        (cx.path(t.def_id), ty::print::with_no_trimmed_paths!(format!("{}", t.print_only_trait_path())))
    });
    let mut ms = Vec::new();
    for m in tcx.associated_item_def_ids(did) {
        let k = tcx.def_kind(*m);
        if matches!(k, DefKind::AssocFn) {
            let vis = if tcx.visibility(*m).is_public() { "pub" } else { "restricted" };
            ms.push(format!("{{\"id\":{},\"name\":{},\"vis\":\"{}\"}}", jstr(&cx.path(*m)), jstr(tcx.item_name(*m).as_str()), vis));
        }
    }
    let self_adt = match self_ty.kind() {
        ty::Adt(a, _) => jstr(&cx.path(a.did())),
        _ => "null".into(),
    };
    let _ = writeln!(
        out,
        "{{\"t\":\"impl\",\"trait\":{},\"trait_full\":{},\"self_ty\":{},\"self_adt\":{},\"derive\":{},\"macros\":{},\"file\":{},\"line\":{},\"methods\":[{}]}}",
        match &tr { Some((p, _)) => jstr(p), None => "null".into() },
        match &tr { Some((_, f)) => jstr(f), None => "null".into() },
        jstr(&cx.ty_str(self_ty)),
        self_adt,
        match &l.derive { Some(d) => jstr(d), None => "null".into() },
        jstrs(&l.macros),
        jstr(&l.file),
        l.line,
        ms.join(",")
    );
}

fn dump_trait<'tcx>(cx: &Ctx<'tcx>, did: DefId, out: &mut String) {
    let tcx = cx.tcx;
    let mut ms = Vec::new();
    for m in tcx.associated_item_def_ids(did) {
        if matches!(tcx.def_kind(*m), DefKind::AssocFn) {
            let has_default = tcx.defaultness(*m).has_value();
            ms.push(format!("{{\"id\":{},\"name\":{},\"default\":{}}}", jstr(&cx.path(*m)), jstr(tcx.item_name(*m).as_str()), has_default));
        }
    }
    let _ = writeln!(out, "{{\"t\":\"trait\",\"id\":{},\"methods\":[{}]}}", jstr(&cx.path(did)), ms.join(","));
}

fn dump_const<'tcx>(cx: &Ctx<'tcx>, did: DefId, out: &mut String) {
    let tcx = cx.tcx;
    let t = tcx.type_of(did).instantiate_identity().skip_norm_wip();
    if !(t.is_integral() || t.is_bool()) {
        return;
    }
    // generic parents cannot be evaluated polymorphically
    if tcx.generics_of(did).requires_monomorphization(tcx) {
        return;
    }
    let val = match tcx.const_eval_poly(did) {
        Ok(v) => match v.try_to_scalar_int() {
            Some(si) => {
                let bits = si.to_bits_unchecked();
                if t.is_signed() {
                    let size = si.size();
                    format!("{}", size.sign_extend(bits) as i128)
                } else {
                    format!("{}", bits)
                }
            }
            None => return,
        },
        Err(_) => return,
    };
    let l = cx.loc(tcx.def_span(did));
    let _ = writeln!(
        out,
        "{{\"t\":\"const\",\"id\":{},\"ty\":{},\"val\":{},\"file\":{},\"line\":{}}}",
        jstr(&cx.path(did)),
        jstr(&cx.ty_str(t)),
        jstr(&val),
        jstr(&l.file),
        l.line
    );
}

fn dump_static<'tcx>(cx: &Ctx<'tcx>, did: DefId, out: &mut String) {
    let tcx = cx.tcx;
    let t = tcx.type_of(did).instantiate_identity().skip_norm_wip();
    if !(t.is_integral() || t.is_bool()) {
        return;
    }
    let alloc = match tcx.eval_static_initializer(did) {
        Ok(a) => a,
        Err(_) => return,
    };
    let a = alloc.inner();
    let n = a.len();
    if n == 0 || n > 16 {
        return;
    }
    let bytes = a.inspect_with_uninit_and_ptr_outside_interpreter(0..n);
    let mut v: u128 = 0;
    for (i, b) in bytes.iter().enumerate() {
        v |= (*b as u128) << (8 * i);
    }
    let val = if t.is_signed() {
        let sh = 128 - 8 * n as u32;
        format!("{}", ((v << sh) as i128) >> sh)
    } else {
        format!("{}", v)
    };
    let l = cx.loc(tcx.def_span(did));
    let _ = writeln!(
        out,
        "{{\"t\":\"const\",\"id\":{},\"ty\":{},\"val\":{},\"file\":{},\"line\":{},\"static\":true}}",
        jstr(&cx.path(did)),
        jstr(&cx.ty_str(t)),
        jstr(&val),
        jstr(&l.file),
        l.line
    );
}

fn main() {
    let mut args: Vec<String> = std::env::args().collect();
    // RUSTC_WORKSPACE_WRAPPER: argv[1] is the real rustc
    if args.len() > 1 && (args[1].ends_with("rustc") || args[1].contains("/rustc")) {
        args.remove(1);
    }
    rustc_driver::run_compiler(&args, &mut Cb);
}
