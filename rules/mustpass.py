"""E5 mustpass: path rules on the MIR CFG decided with dominators.

  must_pass(F, fid, callee)     every success store to _0 is dominated by the Continue edge of the `?` that consumes a
                                call to `callee` (i.e. the check ran and did not fail on every path that returns Ok)
  gate(F, fid, cmp)             a success store is dominated by a given edge of a comparison
"""
from e1_panicpath import dominators, defs_of, op_place


def success_stores(F, fid):
    """[(bb, kind, loc)] — stores to _0 that are not Err aggregates / from_residual results"""
    fn = F.fns[fid]
    out = []
    for bi, bb in enumerate(fn["bbs"]):
        if bb["c"]:
            continue
        for st in bb["st"]:
            if st[1] == "=" and (st[2] == "_0" or st[2].startswith("_0|")):
                rv = st[3]
                if rv[0] == "agg" and rv[1] == "adt" and rv[2].endswith("result::Result") and rv[3] == "Err":
                    continue
                kind = "ok" if (rv[0] == "agg" and rv[3] == "Ok") else rv[0]
                out.append((bi, kind, st[0]))
        t = bb["t"]
        if t[1] == "call" and t[4] == "_0":
            to = t[2].get("to") or ""
            if to.endswith("from_residual"):
                continue
            out.append((bi, "call:" + to, t[0]))
        if t[1] == "tailcall":
            out.append((bi, "tailcall:" + (t[2].get("to") or ""), t[0]))
    return out


def error_stores(F, fid):
    fn = F.fns[fid]
    out = []
    for bi, bb in enumerate(fn["bbs"]):
        if bb["c"]:
            continue
        for st in bb["st"]:
            if st[1] == "=" and st[2] == "_0" and st[3][0] == "agg" and st[3][2].endswith("result::Result") and st[3][3] == "Err":
                out.append((bi, "err", st[0]))
        t = bb["t"]
        if t[1] == "call" and t[4] == "_0" and (t[2].get("to") or "").endswith("from_residual"):
            out.append((bi, "residual", t[0]))
    return out


def dominated_by(fn, bb, by):
    return by == bb or by in dominators(fn, bb)


def try_continue(F, fid, call):
    """Block entered when the `?` applied to `call`'s result continues (Ok/Some); None if the result is not consumed by `?`."""
    fn = F.fns[fid]
    dest = call.dest
    cur = call.target
    moved = {dest}
    for _ in range(12):
        if cur is None:
            return None
        bb = fn["bbs"][cur]
        for st in bb["st"]:
            if st[1] == "=" and st[3][0] == "use" and op_place(st[3][1]) in moved:
                moved.add(st[2])
        t = bb["t"]
        if t[1] == "call" and (t[2].get("to") or "").endswith("Try>::branch") and op_place(t[3][0]) in moved:
            b = t[4]
            nxt = t[5]
            # switch on discriminant of b
            for _ in range(4):
                if nxt is None:
                    return None
                nb = fn["bbs"][nxt]
                tt = nb["t"]
                if tt[1] == "switch":
                    for v, tgt in tt[3]:
                        if v == "0":
                            return tgt
                    return None
                if tt[1] == "goto":
                    nxt = tt[2]
                    continue
                return None
            return None
        if t[1] == "goto":
            cur = t[2]
            continue
        if t[1] == "drop":
            cur = t[3]
            continue
        return None
    return None


def must_pass(F, fid, callee_pred):
    """-> (calls found, [undominated success stores])"""
    fn = F.fns[fid]
    calls = [c for c in F.calls(fid) if c.to and callee_pred(c.to)]
    conts = []
    for c in calls:
        k = try_continue(F, fid, c)
        if k is not None:
            conts.append(k)
    bad = []
    for bi, kind, loc in success_stores(F, fid):
        if not any(dominated_by(fn, bi, k) for k in conts):
            bad.append((bi, kind, loc))
    return calls, conts, bad


def bool_gate(F, fid, call):
    """For a call returning bool consumed by a switch: (block_if_false, block_if_true) or None."""
    fn = F.fns[fid]
    cur = call.target
    moved = {call.dest}
    neg = False
    for _ in range(8):
        if cur is None:
            return None
        bb = fn["bbs"][cur]
        for st in bb["st"]:
            if st[1] == "=" and st[3][0] == "use" and op_place(st[3][1]) in moved:
                moved.add(st[2])
            if st[1] == "=" and st[3][0] == "un" and st[3][1] == "Not" and op_place(st[3][2]) in moved:
                moved = {st[2]}
                neg = not neg
        t = bb["t"]
        if t[1] == "switch" and op_place(t[2]) in moved:
            f = None
            for v, tgt in t[3]:
                if v == "0":
                    f = tgt
            tr = t[4]
            if f is None:
                return None
            return (tr, f) if neg else (f, tr)
        if t[1] == "goto":
            cur = t[2]
            continue
        if t[1] == "drop":
            cur = t[3]
            continue
        return None
    return None
