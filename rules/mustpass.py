"""E5 mustpass: path rules on the MIR CFG decided with dominators.

  must_pass(F, fid, callee)     every success store to _0 is dominated by the Continue edge of the `?` that consumes a
                                call to `callee` (i.e. the check ran and did not fail on every path that returns Ok)
  gate(F, fid, cmp)             a success store is dominated by a given edge of a comparison
"""
from e1_panicpath import dominators, defs_of, op_place


def success_stores(F, fid):
    """[(bb, kind, loc)] — stores to _0 that are not Err aggregates / from_residual results"""
    fn = F.fns[fid]
    out = []
    for bi, bb in enumerate(fn["bbs"]):
        if bb["c"]:
            continue
        for st in bb["st"]:
            if st[1] == "=" and (st[2] == "_0" or st[2].startswith("_0|")):
                rv = st[3]
                if rv[0] == "agg" and rv[1] == "adt" and rv[2].endswith("result::Result") and rv[3] == "Err":
                    continue
                kind = "ok" if (rv[0] == "agg" and rv[3] == "Ok") else rv[0]
                out.append((bi, kind, st[0]))
        t = bb["t"]
        if t[1] == "call" and t[4] == "_0":
            to = t[2].get("to") or ""
            if to.endswith("from_residual"):
                continue
            out.append((bi, "call:" + to, t[0]))
        if t[1] == "tailcall":
            out.append((bi, "tailcall:" + (t[2].get("to") or ""), t[0]))
    return out


def error_stores(F, fid):
    fn = F.fns[fid]
    out = []
    for bi, bb in enumerate(fn["bbs"]):
        if bb["c"]:
            continue
        for st in bb["st"]:
            if st[1] == "=" and st[2] == "_0" and st[3][0] == "agg" and st[3][2].endswith("result::Result") and st[3][3] == "Err":
                out.append((bi, "err", st[0]))
        t = bb["t"]
        if t[1] == "call" and t[4] == "_0" and (t[2].get("to") or "").endswith("from_residual"):
            out.append((bi, "residual", t[0]))
    return out


def dominated_by(fn, bb, by):
    return by == bb or by in dominators(fn, bb)


def try_continue(F, fid, call):
    """Block entered when the `?` applied to `call`'s result continues (Ok/Some); None if the result is not consumed by `?`."""
    fn = F.fns[fid]
    dest = call.dest
    cur = call.target
    moved = {dest}
    for _ in range(12):
        if cur is None:
            return None
        bb = fn["bbs"][cur]
        for st in bb["st"]:
            if st[1] == "=" and st[3][0] == "use" and op_place(st[3][1]) in moved:
                moved.add(st[2])
        t = bb["t"]
        if t[1] == "call" and (t[2].get("to") or "").endswith("Try>::branch") and op_place(t[3][0]) in moved:
            b = t[4]
            nxt = t[5]
            # switch on discriminant of b
            for _ in range(4):
                if nxt is None:
                    return None
                nb = fn["bbs"][nxt]
                tt = nb["t"]
                if tt[1] == "switch":
                    for v, tgt in tt[3]:
                        if v == "0":
                            return tgt
                    return None
                if tt[1] == "goto":
                    nxt = tt[2]
                    continue
                return None
            return None
        if t[1] == "goto":
            cur = t[2]
            continue
        if t[1] == "drop":
            cur = t[3]
            continue
        return None
    return None


def must_pass(F, fid, callee_pred):
    """-> (calls found, [undominated success stores])"""
    fn = F.fns[fid]
    calls = [c for c in F.calls(fid) if c.to and callee_pred(c.to)]
    conts = []
    for c in calls:
        k = try_continue(F, fid, c)
        if k is not None:
            conts.append(k)
    bad = []
    for bi, kind, loc in success_stores(F, fid):
        if not any(dominated_by(fn, bi, k) for k in conts):
            bad.append((bi, kind, loc))
    return calls, conts, bad


def bool_gate(F, fid, call):
    """For a call returning bool consumed by a switch: (block_if_false, block_if_true) or None."""
    fn = F.fns[fid]
    cur = call.target
    moved = {call.dest}
    neg = False
    for _ in range(8):
        if cur is None:
            return None
        bb = fn["bbs"][cur]
        for st in bb["st"]:
            if st[1] == "=" and st[3][0] == "use" and op_place(st[3][1]) in moved:
                moved.add(st[2])
            if st[1] == "=" and st[3][0] == "un" and st[3][1] == "Not" and op_place(st[3][2]) in moved:
                moved = {st[2]}
                neg = not neg
        t = bb["t"]
        if t[1] == "switch" and op_place(t[2]) in moved:
            f = None
            for v, tgt in t[3]:
                if v == "0":
                    f = tgt
            tr = t[4]
            if f is None:
                return None
            return (tr, f) if neg else (f, tr)
        if t[1] == "goto":
            cur = t[2]
            continue
        if t[1] == "drop":
            cur = t[3]
            continue
        return None
    return None


def dominating_guards(F, fid, bb, org=None):
    """For block bb: [(switch_bb, edge, cond)] for every dominating switch where exactly one successor dominates bb.
    edge = '0' (false / first variant) or 'other'/value string; cond = dict(kind='bin'|'call'|'discr'|'other', op/callee, lhs/rhs/args origins)."""
    import fieldflow as ff
    fn = F.fns[fid]
    org = org or ff.Origins(F, fid)
    out = []
    for s in dominators(fn, bb):
        t = fn["bbs"][s]["t"]
        if t[1] != "switch":
            continue
        # group the switch values by target: several values may share the one target that dominates bb (`Equal | Greater => ..`)
        by_tgt = {}
        for v, tgt in t[3]:
            by_tgt.setdefault(tgt, []).append(v)
        if t[4] not in by_tgt:
            by_tgt[t[4]] = ["other"]
        dom_t = [tg for tg in by_tgt if dominated_by(fn, bb, tg)]
        if len(dom_t) != 1:
            continue
        edge = "|".join(by_tgt[dom_t[0]])
        out.append((s, edge, describe_cond(F, fid, s, org)))
    return out


ORD_LESS, ORD_EQUAL, ORD_GREATER = "255", "0", "1"


def cmp3_implies(edge, rel):
    """edge = the Ordering discriminants (of `a.cmp(&b)`) under which the block is reached, e.g. '0|1'; True when every one of them
    satisfies  a <rel> b  (rel in ge gt le lt eq ne). 'other' stands for the values not listed and proves nothing."""
    vals = set(edge.split("|"))
    if "other" in vals or not vals <= {ORD_LESS, ORD_EQUAL, ORD_GREATER}:
        return False
    ok = {"ge": {ORD_EQUAL, ORD_GREATER}, "gt": {ORD_GREATER}, "le": {ORD_LESS, ORD_EQUAL}, "lt": {ORD_LESS}, "eq": {ORD_EQUAL}, "ne": {ORD_LESS, ORD_GREATER}}[rel]
    return vals <= ok


def describe_cond(F, fid, s, org):
    fn = F.fns[fid]
    t = fn["bbs"][s]["t"]
    pl = op_place(t[2])
    neg = False
    cur = pl
    for _ in range(6):
        ds = [d for d in org.defs.get((cur or "_x").split("|")[0], []) if d[2] == cur]
        if len(ds) != 1:
            break
        kind, bi, dest, x = ds[0]
        if kind == "call":
            to = x[2].get("to") or ""
            return {"kind": "call", "callee": to, "neg": neg, "args": [sorted(org.of_operand(a)) for a in x[3]], "bb": bi, "ga": x[2].get("ga") or ""}
        rv = x
        if rv[0] == "bin":
            return {"kind": "bin", "op": rv[1], "neg": neg, "lhs": sorted(org.of_operand(rv[2])), "rhs": sorted(org.of_operand(rv[3])), "bb": bi}
        if rv[0] == "un" and rv[1] == "Not":
            neg = not neg
            cur = op_place(rv[2])
            continue
        if rv[0] == "use":
            cur = op_place(rv[1])
            continue
        if rv[0] == "discr":
            # a match on the Ordering returned by a.cmp(&b): a three-way comparison
            src = rv[1].split("|")[0]
            sd = [d for d in org.defs.get(src, []) if d[2] == rv[1] or d[2] == src]
            if len(sd) == 1 and sd[0][0] == "call":
                cto = sd[0][3][2].get("to") or ""
                if cto.endswith("::cmp") and ("Ord" in cto):
                    cx = sd[0][3]
                    return {"kind": "cmp3", "callee": cto, "neg": neg, "args": [sorted(org.of_operand(a)) for a in cx[3]], "bb": sd[0][1], "ga": cx[2].get("ga") or ""}
            return {"kind": "discr", "neg": neg, "of": sorted(org.of_place(rv[1])), "bb": bi}
        break
    return {"kind": "other", "neg": neg, "of": sorted(org.of_place(pl)) if pl else []}


def has_origin(orgs, pred):
    return any(pred(o) for o in orgs)


def call_origin(suffix):
    return lambda o: o.startswith("call:") and o.split("@")[0].endswith(suffix)


_DEEP = {}


def call_origin_deep(F, suffix, depth=2):
    """like call_origin, but a call to a crate function or closure also counts when the value *it* returns originates from a call to
    `suffix` (one or two levels): `let price = |o| min_ada_for_output(o, ..); price(&out)?` is still a min-ADA computation"""
    import fieldflow as _ff

    def returns(fid, d):
        k = (fid, suffix, d)
        if k in _DEEP:
            return _DEEP[k]
        _DEEP[k] = False
        if fid in F.fns:
            o = _ff.Origins(F, fid).of_place("_0")
            r = any(pred(x, d - 1) for x in o)
            _DEEP[k] = r
        return _DEEP[k]

    def pred(o, d=depth):
        if not o.startswith("call:"):
            return False
        nm = o.split("@")[0][5:]
        if nm.endswith(suffix):
            return True
        return d > 0 and nm in F.fns and returns(nm, d)
    return pred


def field_origin(adt_suffix, field):
    return lambda o: o.startswith("field:") and o.endswith("%s.%s" % (adt_suffix, field))


def _succs(fn, bi):
    t = fn["bbs"][bi]["t"]
    k = t[1]
    if k == "goto":
        return [t[2]]
    if k == "switch":
        return [x[1] for x in t[3]] + [t[4]]
    if k == "drop":
        return [t[3]]
    if k == "call":
        return [t[5]] if t[5] is not None else []
    if k == "assert":
        return [t[6]]
    if k == "other":
        return list(t[3])
    return []


def postdominators(fn):
    """postdom[b] = set of blocks that postdominate b (over non-cleanup blocks, exits = ret/unreachable)."""
    n = len(fn["bbs"])
    nodes = [i for i in range(n) if not fn["bbs"][i]["c"]]
    succ = {i: [s for s in _succs(fn, i) if s is not None and not fn["bbs"][s]["c"]] for i in nodes}
    allset = set(nodes)
    pd = {i: (set([i]) if not succ[i] else set(allset)) for i in nodes}
    changed = True
    while changed:
        changed = False
        for i in reversed(nodes):
            if not succ[i]:
                continue
            new = set(allset)
            for s in succ[i]:
                new &= pd[s]
            new.add(i)
            if new != pd[i]:
                pd[i] = new
                changed = True
    return pd, succ


def control_deps(F, fid, bb):
    """switch blocks on which `bb` is control dependent (transitively closed)"""
    fn = F.fns[fid]
    pd, succ = postdominators(fn)
    out = set()
    work = [bb]
    seen = set()
    while work:
        b = work.pop()
        if b in seen:
            continue
        seen.add(b)
        for s in pd:
            if fn["bbs"][s]["t"][1] != "switch":
                continue
            if b in pd[s] and s != b:
                continue  # b postdominates s: not dependent
            if any(b in pd[x] for x in succ[s]):
                if s not in out:
                    out.add(s)
                    work.append(s)
    return out
