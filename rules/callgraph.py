"""Whole-crate call graph over the resolved MIR call sites (class-hierarchy fan-out for unresolved trait calls,
callback edges for closures / fn items created in a body and for local impls an external generic can call back)."""
from collections import defaultdict, deque

SERDE_CRATES = {"serde", "serde_json", "schemars", "serde_core", "serde_derive"}


def trait_of_path(p):
    return p.rsplit("::", 1)[0] if "::" in p else p


class CallGraph:
    def __init__(self, F):
        self.F = F
        self.edges = defaultdict(set)  # fid -> set(fid)
        self.edge_why = {}  # (a,b) -> reason (first)
        self.external = defaultdict(list)  # fid -> [Call] to non-local callees
        self.virtual = []  # (fid, Call)
        self.indirect = []  # (fid, Call)
        self.unresolved_fanout = []  # (fid, Call, n targets)
        self.local_traits = set(F.traits)
        self._build()

    def _add(self, a, b, why):
        if b in self.F.fns:
            if b not in self.edges[a]:
                self.edges[a].add(b)
                self.edge_why[(a, b)] = why

    def _build(self):
        F = self.F
        for fid, fn in F.fns.items():
            for c in F.calls(fid):
                info = c.info
                to = info.get("to")
                if to is None:
                    self.indirect.append((fid, c))
                    continue
                if info.get("ik") == "Virtual":
                    self.virtual.append((fid, c))
                if info["local"] and to in F.fns and not (info["trait_item"] and not info["default_body"]):
                    self._add(fid, to, "call")
                    # a resolved call to a *default* trait method is concrete
                    continue
                if info["trait_item"] and (not info["res"] or not info["default_body"]):
                    # unresolved trait method: fan out to every local impl
                    tr = trait_of_path(info.get("orig") or to)
                    name = to.rsplit("::", 1)[1]
                    targets = F.trait_impl_methods.get(tr, {}).get(name, [])
                    for t in targets:
                        self._add(fid, t, "fanout:%s" % tr)
                    if targets:
                        self.unresolved_fanout.append((fid, c, len(targets)))
                    if not info["local"]:
                        self.external[fid].append(c)
                    continue
                if info["local"]:
                    # local default-bodied trait item
                    self._add(fid, to, "call")
                    continue
                # external callee
                self.external[fid].append(c)
                crate = info.get("crate")
                for men in info.get("men", []):
                    if men.startswith("adt:"):
                        adt = men[4:]
                        for tr, ms in F.adt_trait_methods.get(adt, {}).items():
                            if tr in self.local_traits:
                                continue
                            fam = tr.split("::", 1)[0]
                            if fam in ("serde", "schemars") and crate not in SERDE_CRATES:
                                continue
                            if fam == "cbor_event" and crate != "cbor_event":
                                continue
                            for m in ms:
                                self._add(fid, m, "callback:%s" % tr)
                    elif men.startswith("closure:") or men.startswith("fn:"):
                        self._add(fid, men.split(":", 1)[1], "callback:fnarg")
            # closures and fn items created in the body
            for bb in fn["bbs"]:
                for st in bb["st"]:
                    if st[1] != "=":
                        continue
                    rv = st[3]
                    if rv[0] == "agg" and rv[1] == "closure":
                        self._add(fid, rv[2], "closure-created")
                    self._scan_ops_for_fnitems(fid, rv)
                t = bb["t"]
                if t[1] in ("call", "tailcall"):
                    for a in t[3]:
                        if a[0] == "k" and a[2]:
                            self._add(fid, a[2], "fnitem-passed")

    def _scan_ops_for_fnitems(self, fid, rv):
        def ops(rv):
            k = rv[0]
            if k in ("use", "repeat"):
                yield rv[1]
            elif k == "cast":
                yield rv[2]
            elif k == "bin":
                yield rv[2]
                yield rv[3]
            elif k == "un":
                yield rv[2]
            elif k == "agg":
                for o in rv[4]:
                    yield o

        for o in ops(rv):
            if isinstance(o, list) and o and o[0] == "k" and o[2]:
                self._add(fid, o[2], "fnitem-used")

    def reach(self, roots):
        """BFS; returns dict fid -> parent fid (None for roots)."""
        par = {}
        dq = deque()
        for r in roots:
            if r in self.F.fns and r not in par:
                par[r] = None
                dq.append(r)
        while dq:
            a = dq.popleft()
            for b in sorted(self.edges.get(a, ())):
                if b not in par:
                    par[b] = a
                    dq.append(b)
        return par

    def chain(self, par, fid, limit=12):
        out = []
        cur = fid
        while cur is not None and len(out) < limit:
            out.append(cur)
            cur = par.get(cur)
        return list(reversed(out))
