"""C03 — emitted bytes follow the Conway CDDL: writer tables extracted by E2 compared with a transcription of the CDDL."""
import re

import bodyorigins
import common
import hirq as H
import mustpass as mp
from e1_panicpath import dominators
from e2_all import Inventory, field_of, short_ty, strip_lines

EXPLANATION = (
    "The wire tables of every CBOR writer are extracted from the type-checked HIR by abstract interpretation (E2: per presence state, "
    "which map keys / leading indices / tags / array lengths are written and from which field) and compared with a transcription of "
    "the Conway ledger CDDL kept in tables/conway_cddl.json - an oracle that shares nothing with the library's constants, so an "
    "encoder and decoder that agree on a wrong key, tag, index or arity are still reported. (SPEC-map) key -> field of the record maps "
    "(transaction body, witness set, protocol parameter update, post-Alonzo output, auxiliary data); (SPEC-array) length, leading "
    "index, field order and tag of 55 array records (certificates, governance actions, pool parameters, ...); (SPEC-enum) variant <-> "
    "index of the choice types; (SPEC-index) the discriminants of the shared index-name enums and of LanguageKind; (SPEC-tag) the exact "
    "set of semantic tags each writer may emit; (W-set) set-typed collections carry tag 258 unless the value remembers an untagged "
    "original encoding; (W-min) no explicit-size (`*_sz`) writer is called, raw bytes are written only by the audited functions, "
    "indefinite-length containers only by the audited ones (Plutus lists), and write_bounded_bytes switches to 64-byte chunks exactly "
    "above 64 bytes; (BOUND) values of size-bounded types (asset name 32, url / dns 128, metadata text / bytes 64, ipv4 4, ipv6 16) "
    "are constructed only in their validating constructor, on the in-range side of a comparison with the CDDL bound; (BODY-origin) "
    "every field of the body the builder emits comes from the audited producer (mint through the zero-rejecting MintBuilder::build); "
    "(ZERO-prune) MultiAsset::sub stores a new quantity only on the non-zero branch and removes emptied policies. Duplicate-freedom of "
    "set types is the typestate rule of C16. Not decided: integer value ranges of fields beyond their Rust types, well-formedness of "
    "bytes kept verbatim from a decoded original (C04), cbor_event's own head encoding (read: it always emits the shortest head)."
)

ASSUMPTIONS = [
    "tables/conway_cddl.json is a faithful transcription of the Conway-era CDDL (hand-checked against the ledger's conway.cddl; legacy keys the library keeps are marked)",
    "cbor_event's write_unsigned_integer / write_array / write_map / write_bytes / write_text / write_tag emit the shortest head for the value they are given (read from cbor_event::se)",
]


def rows_of(r, kinds=("array",), depth=1):
    return [c for c in r["containers"] if c["kind"] in kinds and c.get("sid", 0) == 0 and c.get("depth") == depth]


def by_short(inv):
    out = {}
    for T, fid in inv.ser.items():
        out.setdefault(short_ty(T), []).append((T, fid))
    return out


def name_of(it):
    """item description -> comparable name: field name, '#k' literal, or None"""
    if isinstance(it, str) and it.startswith("#"):
        return it
    return field_of(it)


# ---------------------------------------------------------------------------------------------------------------------
def rule_spec_map(rep, F, inv, cddl):
    rep.rule("SPEC-map", "record maps: the set of keys the writer can emit and the field behind each key are those of the CDDL")
    shorts = by_short(inv)
    n = 0
    for tname, want in sorted(cddl["record_maps"].items()):
        cands = shorts.get(tname, [])
        if len(cands) != 1:
            rep.lost("writer of %s not found" % tname)
            continue
        T, wf = cands[0]
        r = inv.result(wf)
        if r["status"] != "ok":
            rep.lost("writer of %s is not derivable (%s)" % (tname, r.get("why")))
            continue
        maps = [c for c in rows_of(r, ("map",)) if c["keys"] and all(isinstance(k, int) for k in c["keys"])]
        if tname == "AuxiliaryData":
            maps = [c for c in r["containers"] if c["kind"] == "map" and c["tag"] == 259 and c.get("sid", 0) == 0]
        wk = {}
        for c in maps:
            for k, v in zip(c["keys"], c["vals"] + [None] * len(c["keys"])):
                wk.setdefault(k, set()).add(v)
        want_keys = {int(k): v for k, v in want.items()}
        rep.inst("SPEC-map", len(set(wk) | set(want_keys)))
        n += len(wk)
        for k in sorted(set(wk) - set(want_keys)):
            rep.violation("SPEC-map", "%s|key %d|not-in-cddl" % (tname, k), "%s: the writer emits map key %d (from %s) which the CDDL does not define" % (tname, k, sorted(x for x in wk[k] if x)), {})
        for k in sorted(set(want_keys) - set(wk)):
            rep.violation("SPEC-map", "%s|key %d|never-written" % (tname, k), "%s: CDDL key %d (%s) is never written" % (tname, k, want_keys[k]), {})
        for k in sorted(set(wk) & set(want_keys)):
            names = set()
            for v in wk[k]:
                if isinstance(v, str) and v.startswith("container@"):
                    ln = int(v.split("@")[1])
                    for c in r["containers"]:
                        if c["line"] == ln and isinstance(c["declared"], str):
                            names |= set(re.findall(r"[a-z_][a-z_0-9]*", c["declared"]))
                elif isinstance(v, str):
                    seg = v.replace("some(", "").replace(")", "").split(".")
                    names.add(seg[-1] if len(seg) > 1 else seg[0])
            names -= {"self", "some", "elems", "collect", "scripts", "view", "version", "N"}
            if not names:
                continue
            rep.inst("SPEC-map")
            w = want_keys[k]
            if not any(x == w or w.startswith(x + "_") for x in names):
                rep.violation("SPEC-map", "%s|key %d|field" % (tname, k), "%s: CDDL key %d is `%s` but the writer emits it from %s" % (tname, k, w, sorted(names)), {})
        rep.sample({"rule": "SPEC-map", "type": tname, "keys": sorted(wk)})
    rep.floor("record-map keys compared with the CDDL", 70, n)
    # plutus script version <-> key in the witness set (keys 3/6/7)
    rep.rule("SPEC-map-version", "witness-set keys 3 / 6 / 7 carry Plutus V1 / V2 / V3 scripts (writer statement following the key, reader arm)")
    for rec, wantmap in sorted(cddl["plutus_version_keys"].items()):
        want = {int(k): v for k, v in wantmap.items()}
        for key in (cddl["writer_fns"][rec], cddl["reader_fns"][rec]):
            ids = F.by_key(key)
            if key.startswith("<TransactionWitnessSet as cbor_event"):
                ids = F.by_key("serialization::witnesses::transaction_witnesses_set::serialize")
            if len(ids) != 1:
                rep.lost("%s function %s not found" % (rec, key))
                continue
            found = version_keys(F, ids[0], want)
            for k, w in want.items():
                rep.inst("SPEC-map-version")
                got = found.get(k, set())
                if not got:
                    rep.lost("%s %s: no Plutus version found next to key %d" % (rec, key, k))
                elif got != {w}:
                    rep.violation("SPEC-map-version", "%s|%s|key %d" % (rec, H.short(key), k), "%s: key %d must carry Plutus V%s scripts but %s handles %s there" % (rec, k, w[-1], H.short(key), sorted(got)), {})


def version_keys(F, fid, want):
    h = F.hir[fid]
    found = {}
    for n_ in H.walk(h["body"]):
        if n_[0] == "block":
            sts = [s for s in n_[2]] + ([["expr", 0, n_[3]]] if n_[3] is not None else [])
            for i, s in enumerate(sts):
                e = s[2] if s[0] != "let" else s[3]
                k = None
                x = e
                while H.is_node(x) and x[0] in ("try", "ref"):
                    x = x[2] if x[0] == "try" else x[3]
                if H.is_node(x) and x[0] == "mcall" and x[2] == "write_unsigned_integer" and x[5]:
                    k = H.lit_int(x[5][0])
                if k in want and i + 1 < len(sts):
                    nxt = sts[i + 1]
                    ne = nxt[2] if nxt[0] != "let" else nxt[3]
                    for y in H.walk(ne) if H.is_node(ne) else []:
                        if y[0] == "call" and (y[2] or "").rsplit("::", 1)[-1].startswith("new_plutus_v"):
                            found.setdefault(k, set()).add(y[2].rsplit("::", 1)[-1])
                        if y[0] == "field" and str(y[3] if len(y) > 3 else "").startswith("plutus_scripts_v"):
                            found.setdefault(k, set()).add("new_plutus_v" + str(y[3])[-1])
        if n_[0] == "match":
            for pat, g, arm in n_[3]:
                for alt in H.pat_alternatives(pat):
                    if alt and alt[0] == "plit" and alt[1][0] == "int" and int(alt[1][1]) in want:
                        for y in H.walk(arm):
                            if y[0] == "call" and (y[2] or "").rsplit("::", 1)[-1].startswith("new_plutus_v"):
                                found.setdefault(int(alt[1][1]), set()).add(y[2].rsplit("::", 1)[-1])
    # readers that tie the version through the local the arm assigns: merge_option_plutus_list(_, local, &Language::new_plutus_vN())
    import e2_readers as R
    t = R.reader_table(F, fid)
    if t:
        merges = {}
        for y in H.walk(h["body"]):
            if y[0] == "call" and (y[2] or "").endswith("merge_option_plutus_list") and len(y[4]) == 3:
                loc = H.path_str(H.strip(y[4][1]))
                for z in H.walk(y[4][2]):
                    if z[0] == "call" and (z[2] or "").rsplit("::", 1)[-1].startswith("new_plutus_v"):
                        merges.setdefault(loc, set()).add(z[2].rsplit("::", 1)[-1])
        for k in want:
            e = t["keys"].get(k)
            if e and e["local"] in merges and k not in found:
                found[k] = set(merges[e["local"]])
    return found


# ---------------------------------------------------------------------------------------------------------------------
def rule_nonempty_field(rep, F, inv, cddl):
    rep.rule("NONEMPTY-field", "an optional record field whose CDDL type is a non-empty collection (certificates, withdrawals {+ ..}, mint, collateral / reference inputs / required signers nonempty_set, voting procedures, proposal procedures) is written only in presence states in which the writer has established that the collection has an element (E2 atom nonempty:<field> true in every state that emits the key): `05 a0` - key 5 with an empty map - is rejected by the ledger's decoder although the library reads it back")
    shorts = by_short(inv)
    n = 0
    for tname, want in sorted(cddl.get("nonempty_fields", {}).items()):
        cands = shorts.get(tname, [])
        if len(cands) != 1:
            rep.lost("writer of %s not found" % tname)
            continue
        T, wf = cands[0]
        r = inv.result(wf)
        if r["status"] != "ok":
            rep.lost("writer of %s is not derivable (%s)" % (tname, r.get("why")))
            continue
        rows = [c for c in r["containers"] if c["kind"] == "map" and c.get("depth", 1) == 1 and c["keys"] and all(isinstance(k, int) for k in c["keys"])]
        for k, field in sorted(want.items(), key=lambda kv: int(kv[0])):
            k = int(k)
            n += 1
            rep.inst("NONEMPTY-field")
            emitting = [c for c in rows if k in c["keys"]]
            if not emitting:
                continue
            bad = [c for c in emitting if not any(a.startswith("nonempty:") and a.split(".")[-1].rstrip(")") == field for a in c.get("true_atoms", []))]
            if bad:
                rep.violation("NONEMPTY-field", "%s|key %d|%s" % (tname, k, field), "%s: key %d (%s) is written in a presence state in which nothing says the collection is non-empty (true atoms about it: %s): a value holding Some(empty %s) is emitted as key %d with an empty collection, which the CDDL (non-empty) excludes" % (tname, k, field, sorted(a for a in bad[0].get("true_atoms", []) if a.endswith("." + field)), field, k), {})
    rep.floor("non-empty optional fields judged", 8, n)


def rule_spec_array(rep, F, inv, cddl):
    rep.rule("SPEC-array", "array records: declared length, leading index, field order and tag are those of the CDDL, in every presence state")
    shorts = by_short(inv)
    n_types = 0
    verified_pos = 0
    for tname, alts in sorted(cddl["array_records"].items()):
        cands = shorts.get(tname, [])
        if len(cands) != 1:
            rep.lost("writer of %s not found (%d candidates)" % (tname, len(cands)))
            continue
        T, wf = cands[0]
        adt = F.adts.get(T) or {}
        fields = {f["name"] for v in adt.get("variants", []) for f in v["fields"]}
        for a in alts:
            for f in a["fields"]:
                if f not in fields:
                    rep.lost("spec table names field %s.%s which the type no longer has (table stale, not a verdict)" % (tname, f))
        r = inv.result(wf)
        if r["status"] != "ok":
            rep.lost("writer of %s is not derivable (%s)" % (tname, r.get("why")))
            continue
        rows = rows_of(r)
        if not rows:
            rep.lost("writer of %s opens no array" % tname)
            continue
        n_types += 1
        seen_alt = set()
        for c in rows:
            rep.inst("SPEC-array")
            items = [name_of(i) for i in c["items"]]
            lead = int(items[0][1:]) if items and isinstance(items[0], str) and items[0].startswith("#") and items[0][1:].isdigit() else None
            alt = None
            for i, a in enumerate(alts):
                if a["index"] == lead or (a["index"] is None and lead is None):
                    alt = (i, a)
            if alt is None and all(a["index"] is None for a in alts):
                alt = (0, alts[0])
            if alt is None:
                rep.violation("SPEC-array", "%s|index %s" % (tname, lead), "%s: the writer emits leading index %s; the CDDL alternatives are %s" % (tname, lead, [a["index"] for a in alts]), {})
                continue
            ai, a = alt
            seen_alt.add(ai)
            want_len = (1 if a["index"] is not None else 0) + len(a["fields"])
            if not c["declared"].isdigit() or int(c["declared"]) != want_len:
                rep.violation("SPEC-array", "%s|alt %s|len %s" % (tname, a["index"], c["declared"]), "%s: array declared with %s items, the CDDL (%s) has %d" % (tname, c["declared"], a["cddl"], want_len), {})
                continue
            body = items[1:] if a["index"] is not None else items
            if len(body) != len(a["fields"]):
                continue  # W-len (C01) reports the mismatch between declared and written
            for pos, (got, want) in enumerate(zip(body, a["fields"])):
                if got is None:
                    continue
                verified_pos += 1
                if got != want:
                    rep.violation("SPEC-array", "%s|alt %s|pos %d|%s" % (tname, a["index"], pos, got), "%s: position %d of the array is written from `%s`, the CDDL (%s) puts `%s` there" % (tname, pos + (1 if a["index"] is not None else 0), got, a["cddl"], want), {})
            if "tag" in a and c["tag"] != a["tag"]:
                rep.violation("SPEC-array", "%s|tag %s" % (tname, c["tag"]), "%s: the array carries tag %s, the CDDL (%s) requires %s" % (tname, c["tag"], a["cddl"], a["tag"]), {})
            if "tag" not in a and c["tag"] is not None:
                rep.violation("SPEC-array", "%s|tag %s" % (tname, c["tag"]), "%s: the array carries tag %s, the CDDL (%s) has none" % (tname, c["tag"], a["cddl"]), {})
        for i, a in enumerate(alts):
            if i not in seen_alt:
                rep.violation("SPEC-array", "%s|alt %s|missing" % (tname, a["index"]), "%s: no writer state emits the CDDL alternative %s" % (tname, a["cddl"]), {})
    rep.floor("array record types compared with the CDDL", 50, n_types)
    rep.floor("array positions whose source field was identified and compared", 140, verified_pos)


def rule_spec_enum(rep, F, inv, cddl):
    rep.rule("SPEC-enum", "choice types: the leading index written for each variant is the CDDL's")
    shorts = by_short(inv)
    n = 0
    for tname, tab in sorted(cddl["enum_records"].items()):
        cands = shorts.get(tname, [])
        if len(cands) != 1:
            rep.lost("writer of %s not found" % tname)
            continue
        T, wf = cands[0]
        r = inv.result(wf)
        if r["status"] != "ok":
            rep.lost("writer of %s is not derivable" % tname)
            continue
        rows = rows_of(r) or rows_of(r, ("top",), 0)
        got = {}
        for c in rows:
            items = c["items"]
            if items and isinstance(items[0], str) and items[0].startswith("#") and items[0][1:].isdigit():
                got.setdefault(int(items[0][1:]), []).append(set(v for v in c["variants"].values() if isinstance(v, str)))
        for k, want in sorted(tab.items()):
            k = int(k)
            rep.inst("SPEC-enum")
            n += 1
            if k not in got:
                rep.violation("SPEC-enum", "%s|index %d|missing" % (tname, k), "%s: no writer state emits index %d (%s)" % (tname, k, "/".join(want)), {})
                continue
            for vs in got[k]:
                if not set(want) <= vs:
                    rep.violation("SPEC-enum", "%s|index %d|%s" % (tname, k, "+".join(sorted(vs))), "%s: index %d is written for variant %s, the CDDL assigns it to %s" % (tname, k, "/".join(sorted(vs)), "/".join(want)), {})
        for k in sorted(set(got) - {int(x) for x in tab}):
            if tname == "ScriptRefEnum":
                continue
            rep.violation("SPEC-enum", "%s|index %d|not-in-cddl" % (tname, k), "%s: the writer emits index %d which the CDDL does not define" % (tname, k), {})
    rep.floor("variant/index pairs compared with the CDDL", 27, n)


def rule_spec_index(rep, F, cddl):
    rep.rule("SPEC-index", "discriminants of the index-name enums shared by writers, readers and size calculators are the CDDL's key / index numbers")
    n = 0
    tabs = dict(cddl["discriminated"])
    tabs.update(cddl.get("enum_discriminants", {}))
    # key-name enums: variant name -> field via CamelCase -> snake_case
    def snake(s):
        return re.sub(r"(?<!^)(?=[A-Z])", "_", s).lower().replace("_v1", "_v1").replace("plutus_scripts_v", "plutus_scripts_v")
    for enum, rec in (("serialization::map_names::tx_body_names::TxBodyNames", "TransactionBody"), ("serialization::map_names::witness_set_names::WitnessSetNames", "TransactionWitnessSet")):
        a = F.adts.get(enum)
        if a is None:
            rep.lost("enum %s not found" % enum)
            continue
        want = {v: int(k) for k, v in cddl["record_maps"][rec].items()}
        for v in a["variants"]:
            rep.inst("SPEC-index")
            n += 1
            nm = snake(v["name"]).replace("scripts_v", "scripts_v")
            nm = re.sub(r"_v_?(\d)$", r"_v\1", nm)
            if nm not in want:
                rep.violation("SPEC-index", "%s|%s|unknown" % (H.short(enum), v["name"]), "%s::%s does not correspond to a CDDL key of %s" % (H.short(enum), v["name"], rec), {})
            elif want[nm] != v["discr"]:
                rep.violation("SPEC-index", "%s|%s|%s" % (H.short(enum), v["name"], v["discr"]), "%s::%s = %s but the CDDL key of `%s` is %d" % (H.short(enum), v["name"], v["discr"], nm, want[nm]), {})
    for enum, want in sorted(tabs.items()):
        a = F.adts.get(enum)
        if a is None:
            rep.lost("enum %s not found" % enum)
            continue
        got = {v["name"]: v["discr"] for v in a["variants"]}
        for name, d in sorted(want.items()):
            rep.inst("SPEC-index")
            n += 1
            if name not in got:
                rep.lost("%s::%s no longer exists (table stale)" % (H.short(enum), name))
            elif got[name] != d:
                rep.violation("SPEC-index", "%s|%s|%s" % (H.short(enum), name, got[name]), "%s::%s = %s but the CDDL index is %d" % (H.short(enum), name, got[name], d), {})
        for name in sorted(set(got) - set(want)):
            rep.violation("SPEC-index", "%s|%s|extra" % (H.short(enum), name), "%s::%s is not in the CDDL table" % (H.short(enum), name), {})
    rep.floor("enum discriminants compared with the CDDL", 50, n)


def rule_spec_tag(rep, F, inv, cddl):
    rep.rule("SPEC-tag", "each writer emits exactly the semantic tags the CDDL gives its type; writers not in the table emit none")
    shorts = by_short(inv)
    want = cddl["type_tags"]
    n = 0
    for T, wf in sorted(inv.ser.items()):
        r = inv.result(wf)
        if r["status"] != "ok":
            continue
        st = short_ty(T)
        got = set(r["tags"])
        w = set(want.get(st, []))
        rep.inst("SPEC-tag", 1, nontrivial=bool(got or w))
        if got or w:
            n += 1
        if got != w:
            rep.violation("SPEC-tag", "%s|%s" % (st, ",".join(str(x) for x in sorted(got, key=str))), "%s: the writer emits tags %s, the CDDL gives it %s" % (st, sorted(got, key=str), sorted(w, key=str)), {})
    for st in want:
        if st not in shorts:
            rep.lost("tagged writer %s not found" % st)
    rep.floor("writers with a semantic tag compared", 14, n)
    # compact constructor tags
    rep.rule("SPEC-tag-constr", "compact Plutus constructor tags: 121 + i for i < 7, 1280 + (i - 7) for 7 <= i <= 127")
    import piecewise as pw
    ids = F.by_key("ConstrPlutusData::alternative_to_compact_cbor_tag")
    if len(ids) != 1:
        rep.lost("ConstrPlutusData::alternative_to_compact_cbor_tag not found")
    else:
        rep.inst("SPEC-tag-constr")
        want = [(0, 6, ("affine", 121)), (7, 127, ("affine", 1273)), (128, (1 << 64) - 1, ("none",))]
        try:
            got = pw.table(F, ids[0])
        except pw.NotPiecewise as e:
            rep.lost("alternative_to_compact_cbor_tag is no longer a piecewise-affine table (%s): re-anchor" % e)
            got = None
        if got is not None and got != want:
            def show(t):
                return "; ".join("%d..%s -> %s" % (lo, hi if hi < (1 << 63) else "max", "general form" if r[0] == "none" else "tag = alt %+d" % r[1] if r[0] == "affine" else "tag %d" % r[1]) for lo, hi, r in t)
            rep.violation("SPEC-tag-constr", "table|%s" % show(got)[:80], "compact constructor tags: the code computes {%s}; the CDDL has {%s} (tags 121..127 for alternatives 0..6, 1280..1400 for 7..127, #6.102 beyond)" % (show(got), show(want)), {})


def rule_wset(rep, F, inv, cddl):
    rep.rule("W-set", "set-typed collections: the outer array carries tag 258; an untagged array is written only under the remembered-original-encoding condition")
    shorts = by_short(inv)
    n = 0
    for st in cddl["sets"]:
        cands = shorts.get(st, [])
        if len(cands) != 1:
            rep.lost("set writer %s not found" % st)
            continue
        r = inv.result(cands[0][1])
        rows = rows_of(r)
        rep.inst("W-set")
        n += 1
        tagged = [c for c in rows if c["tag"] == 258]
        untagged = [c for c in rows if c["tag"] != 258]
        if not tagged:
            rep.violation("W-set", "%s|never-tagged" % st, "%s: no writer state emits tag 258 before the array" % st, {})
        if untagged:
            atoms = set(r["atoms"])
            if not any("get_set_type" in a or "cbor_set_type" in a for a in atoms):
                rep.violation("W-set", "%s|untagged" % st, "%s: an untagged array is written in a state that does not depend on the remembered set encoding" % st, {"atoms": sorted(atoms)})
    # witness-set members
    ids = [inv.ser[T] for T in inv.ser if short_ty(T) == "TransactionWitnessSet"]
    if len(ids) != 1:
        rep.lost("witness set writer not found")
    else:
        r = inv.result(ids[0])
        maps = [c for c in rows_of(r, ("map",)) if c["keys"]]
        for k, fld in sorted(cddl["witness_set_tagged"].items()):
            k = int(k)
            rep.inst("W-set")
            n += 1
            conts = set()
            for c in maps:
                for kk, v in zip(c["keys"], c["vals"]):
                    if kk == k and isinstance(v, str) and v.startswith("container@"):
                        conts.add(int(v.split("@")[1]))
            if not conts:
                rep.lost("witness set key %d: no inline container found" % k)
                continue
            for c in r["containers"]:
                if c["line"] in conts and c["kind"] == "array" and c["tag"] != 258:
                    rep.violation("W-set", "TransactionWitnessSet|key %d|untagged" % k, "witness set key %d (%s) is written as an array without tag 258" % (k, fld), {})
    # constructors start in the tagged state
    rep.rule("W-set-default", "every constructor of a set type that takes no decoded encoding starts with CborSetType::Tagged")
    for aid, a in F.adts.items():
        if a["kind"] != "struct":
            continue
        fs = [f for f in a["variants"][0]["fields"] if f["ty"].endswith("CborSetType")]
        if not fs:
            continue
        idx = [i for i, f in enumerate(a["variants"][0]["fields"]) if f["ty"].endswith("CborSetType")][0]
        for fid, fn in F.fns.items():
            if F.is_derived(fid) or "/tests/" in fn["file"]:
                continue
            for bb in fn["bbs"]:
                for st_ in bb["st"]:
                    if st_[1] == "=" and st_[3][0] == "agg" and st_[3][2] == aid:
                        rep.inst("W-set-default")
                        op = st_[3][4][idx] if len(st_[3]) > 4 and idx < len(st_[3][4]) else None
                        if op is None:
                            continue
                        if op[0] == "k" and "Tagged" not in str(op[1]) and "Untagged" in str(op[1]):
                            rep.violation("W-set-default", "%s|%s" % (H.short(aid), F.key(fid)), "%s builds a %s that starts in the untagged set encoding" % (F.key(fid), H.short(aid)), {})
    rep.floor("set writers checked for tag 258", 11, n)


def rule_wmin(rep, F, inv, aud):
    rep.rule("W-min", "no explicit-size writer (`*_sz`) is called; raw bytes and indefinite containers only in the audited functions")
    raw_ok = aud.get("raw_bytes", {})
    indef_ok = aud.get("indefinite", {})
    n = 0
    for fid, fn in F.fns.items():
        if "/tests/" in fn["file"]:
            continue
        base = F.key(fid.split("::{closure")[0])
        for c in F.calls(fid):
            to = c.to or ""
            if "cbor_event::se::Serializer" not in to:
                continue
            n += 1
            short = to.rsplit("::", 1)[-1]
            if short.endswith("_sz"):
                rep.inst("W-min")
                # an explicit size is canonical by construction when it is the result of cbor_event::Sz::canonical(argument)
                from ruleutil import direct_call_of
                t_ = fn["bbs"][c.bb]["t"]
                src_ = direct_call_of(fn, t_[3][-1]) if t_[3] else None
                if src_ and src_[1].endswith("Sz::canonical"):
                    # ... of the item's own CBOR argument: for a negative integer n that is -1 - n (not the magnitude |n|, which is one
                    # larger and crosses every width boundary one value early: -24, -256, -65536, -2^32 would get a head one size too wide)
                    ok_arg = True
                    if short == "write_negative_integer_sz":
                        ok_arg = False
                        defs_ = {}
                        for bb_ in fn["bbs"]:
                            for st_ in bb_["st"]:
                                if st_[1] == "=":
                                    defs_.setdefault(st_[2], []).append(st_[3])

                        def back_(op, depth=0):
                            """follow use / cast / tuple-field copies of single-definition locals to a (Sub const -1, x) statement -> x local"""
                            if op[0] == "k" or depth > 8:
                                return None
                            pl = op[1].replace("|t:0", "")
                            ds = defs_.get(pl, [])
                            if len(ds) != 1:
                                return None
                            rv = ds[0]
                            if rv[0] == "bin" and rv[1] in ("Sub", "SubWithOverflow") and rv[2][0] == "k" and str(rv[2][1]).startswith("-1_"):
                                o2 = rv[3]
                                for _ in range(4):
                                    if o2[0] != "k" and len(defs_.get(o2[1], [])) == 1 and defs_[o2[1]][0][0] == "use":
                                        o2 = defs_[o2[1]][0][1]
                                    else:
                                        break
                                return o2[1] if o2[0] != "k" else None
                            if rv[0] in ("use",):
                                return back_(rv[1], depth + 1)
                            if rv[0] == "cast":
                                return back_(rv[2], depth + 1)
                            return None
                        canon_t = fn["bbs"][src_[0]]["t"]
                        x_ = back_(canon_t[3][0]) if canon_t[3] else None
                        v_ = t_[3][1]
                        for _ in range(4):
                            if v_[0] != "k" and len(defs_.get(v_[1], [])) == 1 and defs_[v_[1]][0][0] == "use":
                                v_ = defs_[v_[1]][0][1]
                            else:
                                break
                        ok_arg = x_ is not None and v_[0] != "k" and x_ == v_[1]
                    if ok_arg:
                        rep.allow("W-min")
                        continue
                    rep.violation("W-min", "%s|%s|canonical-arg" % (base, short), "%s sizes the head of a negative integer n with Sz::canonical of something other than its CBOR argument -1 - n: with the magnitude |n| the four boundary values -24, -256, -65536, -4294967296 are written one head size too wide (`38 17` instead of `37`)" % base, {})
                    continue
                rep.violation("W-min", "%s|%s" % (base, short), "%s calls the explicit-size writer %s with a size that is not Sz::canonical(..): heads longer than necessary can be emitted" % (base, short), {})
            if short == "write_raw_bytes":
                rep.inst("W-min")
                if base not in raw_ok:
                    rep.violation("W-min", "%s|write_raw_bytes" % base, "%s writes raw bytes into the CBOR stream and is not on the audited list" % base, {})
                else:
                    rep.allow("W-min")
    rep.inst("W-min", n, nontrivial=False)
    for fid, r in inv.results.items():
        if r["status"] != "ok":
            continue
        for c in r["containers"]:
            if c["declared"] == "indef":
                rep.inst("W-min")
                k = F.key(fid)
                if k not in indef_ok:
                    rep.violation("W-min", "%s|indefinite-%s" % (k, c["kind"]), "%s writes an indefinite-length %s; the CDDL conformance clause allows that only for the audited writers" % (k, c["kind"]), {})
                else:
                    rep.allow("W-min")
    rep.floor("Serializer calls inspected", 500, n)
    # chunking
    rep.rule("CHUNK", "write_bounded_bytes: definite form iff len <= 64, otherwise 0x5f, 64-byte chunks, Break")
    cv = [v for k, v in F.consts.items() if k.endswith("utils::BOUNDED_BYTES_CHUNK_SIZE")]
    rep.inst("CHUNK")
    if len(cv) != 1:
        rep.lost("BOUNDED_BYTES_CHUNK_SIZE not found")
    elif cv[0]["val"] != "64":
        rep.violation("CHUNK", "const|%s" % cv[0]["val"], "BOUNDED_BYTES_CHUNK_SIZE = %s, the CDDL bounded_bytes limit is 64" % cv[0]["val"], {})
    ids = F.by_key("utils::write_bounded_bytes")
    if len(ids) != 1:
        rep.lost("utils::write_bounded_bytes not found")
    else:
        h = F.hir[ids[0]]
        b = H.strip(h["body"])
        ok = False
        for x in H.walk(h["body"]):
            if x[0] == "if":
                cond = H.strip(x[2])
                if H.is_node(cond) and cond[0] == "binary" and cond[2] == "Le" and "len" in str(cond[3]) and "BOUNDED_BYTES_CHUNK_SIZE" in str(cond[4]):
                    then_calls = [y[2] for y in H.walk(x[3]) if y[0] == "mcall"]
                    else_calls = [y[2] for y in H.walk(x[4])] if x[4] is not None else []
                    else_m = [y[2] for y in H.walk(x[4]) if y[0] == "mcall"] if x[4] is not None else []
                    chunk_arg = any(y[0] == "mcall" and y[2] == "chunks" and "BOUNDED_BYTES_CHUNK_SIZE" in str(y[5]) for y in H.walk(x[4])) if x[4] is not None else False
                    raw5f = any(H.lit_int(y) == 0x5F for y in H.walk(x[4])) if x[4] is not None else False
                    ok = then_calls == ["write_bytes"] and "write_raw_bytes" in else_m and "write_bytes" in else_m and "write_special" in else_m and chunk_arg and raw5f
        rep.inst("CHUNK")
        if not ok:
            rep.violation("CHUNK", "write_bounded_bytes|shape", "write_bounded_bytes no longer has the shape `if len <= 64 { write_bytes } else { 0x5f; chunks(64) -> write_bytes; Break }`", {})


def const_operand_value(F, fn, op, defs):
    """constant value of an operand through copies / static loads; None if not constant"""
    for _ in range(6):
        if op[0] == "k":
            s = str(op[1])
            if s.startswith("static:"):
                for k, v in F.consts.items():
                    if k == s[7:] or k.endswith("::" + s[7:]):
                        return int(v["val"])
                return None
            m = re.match(r"^(-?\d+)_", s)
            return int(m.group(1)) if m else None
        pl = op[1]
        base = pl.split("|")[0]
        ds = [d for d in defs.get(base, []) if d[0] == "stmt"]
        if len(ds) != 1:
            return None
        rv = ds[0][1]
        if rv[0] in ("use", "deref"):
            op = rv[1] if rv[0] == "use" else ["c", rv[1]]
            continue
        return None
    return None


def rule_bound(rep, F, cddl, aud):
    rep.rule("BOUND", "a value of a size-bounded type is built only inside its validating constructor, in a block reached only through the in-range edge of `len <= bound` with the CDDL's bound")
    specs = [
        ("AssetName", None, ["AssetName::new_impl"], 32),
        ("URL", None, ["URL::new_impl"], 128),
        ("DNSRecordAorAAAA", None, ["DNSRecordAorAAAA::new_impl"], 128),
        ("DNSRecordSRV", None, ["DNSRecordSRV::new_impl"], 128),
        ("protocol_types::metadata::TransactionMetadatumEnum", "Bytes", ["TransactionMetadatum::new_bytes"], 64),
        ("protocol_types::metadata::TransactionMetadatumEnum", "Text", ["TransactionMetadatum::new_text"], 64),
    ]
    n = 0
    for adt, variant, ctors, bound in specs:
        if adt not in F.adts:
            rep.lost("type %s not found" % adt)
            continue
        found_ctor = False
        derived_json = False
        for fid, fn in F.fns.items():
            if "/tests/" in fn["file"]:
                continue
            # derived code copies valid values (Clone) - except a derived JSON reader, which builds the value from outside data
            if F.is_derived(fid) and fn.get("derive") != "serde::Deserialize":
                continue
            sites = []
            for bi, bb in enumerate(fn["bbs"]):
                if bb["c"]:
                    continue
                for st in bb["st"]:
                    if st[1] == "=" and st[3][0] == "agg" and st[3][2] == adt and (variant is None or st[3][3] == variant):
                        sites.append(bi)
            if not sites:
                continue
            if F.is_derived(fid):
                rep.inst("BOUND")
                if not derived_json:
                    derived_json = True
                    rep.violation("BOUND", "%s|built-in|derive(serde::Deserialize)" % H.short(adt), "the derived JSON reader of %s builds the value directly, bypassing the validating constructor %s (CDDL bound %d): %s::from_json of a %d-byte string is accepted and to_bytes() then emits it" % (H.short(adt), ctors[0], bound, H.short(adt), bound + 72), {})
                continue
            k = F.key(fid)
            for bi in sites:
                rep.inst("BOUND")
                n += 1
                if k not in ctors:
                    rep.violation("BOUND", "%s%s|built-in|%s" % (H.short(adt), "::" + variant if variant else "", k), "%s builds a %s%s directly, bypassing the validating constructor %s (CDDL bound %d)" % (k, H.short(adt), "::" + variant if variant else "", ctors[0], bound), {})
                    continue
                found_ctor = True
                from ruleutil import gate_limit
                lim, why, q = gate_limit(F, fid, bi)
                ok = False
                if lim is not None:
                    qcalls = {x[5:].split("@")[0] for x in q if x.startswith("call:")}
                    if any("::chars" in c_ or "Chars" in c_ or "char_indices" in c_ for c_ in qcalls):
                        why = "the bounded quantity counts characters, not bytes (the CDDL `.size` of a text string is its UTF-8 length): %s" % sorted(H.short(c_) for c_ in qcalls)[:4]
                    elif not any(c_.endswith("::len") for c_ in qcalls):
                        rep.lost("%s bounds a quantity that is neither len() nor a character count (%s): re-anchor BOUND" % (k, sorted(H.short(c_) for c_ in qcalls)[:4]))
                        ok = True
                    elif lim <= bound:
                        ok = True  # a stricter API bound still emits conforming bytes
                    else:
                        why = "the constructing edge allows lengths up to %d, the CDDL bound is %d" % (lim, bound)
                if not ok:
                    rep.violation("BOUND", "%s%s|%s|gate" % (H.short(adt), "::" + variant if variant else "", k), "%s: %s" % (k, why), {})
        if not found_ctor:
            rep.lost("validating constructor %s builds no %s" % (ctors[0], adt))
    for adt, size in (("Ipv4", 4), ("Ipv6", 16)):
        a = F.adts.get(adt)
        rep.inst("BOUND")
        n += 1
        if a is None:
            rep.lost("type %s not found" % adt)
            continue
        ty = a["variants"][0]["fields"][0]["ty"]
        if ty != "[u8; %d]" % size:
            rep.violation("BOUND", "%s|repr|%s" % (adt, ty), "%s wraps %s, the CDDL size is %d bytes" % (adt, ty, size), {})
    rep.floor("constructions of size-bounded values inspected", 8, n)


def rule_zero_prune(rep, F):
    rep.rule("ZERO-prune", "MultiAsset::sub writes a new quantity only on the non-zero branch of compare(&0), removes the asset otherwise and removes a policy whose last asset was removed")
    ids = F.by_key("MultiAsset::sub")
    if len(ids) != 1:
        rep.lost("MultiAsset::sub not found")
        return
    h = F.hir[ids[0]]
    stores = removes_asset = removes_policy = 0
    bad = []

    def walk(n, guards):
        nonlocal stores, removes_asset, removes_policy
        if not H.is_node(n):
            return
        if n[0] == "match":
            sc = H.strip(n[2])
            is_cmp = H.is_node(sc) and sc[0] == "mcall" and sc[2] == "compare" and any(H.lit_int(x) == 0 for x in H.walk(sc))
            is_len = H.is_node(sc) and sc[0] == "mcall" and sc[2] == "len"
            walk(n[2], guards)
            arm_lits = [[int(a[1][1]) for a in H.pat_alternatives(pat) if a and a[0] == "plit" and a[1][0] == "int"] for pat, g, arm in n[3]]
            has_zero_arm = [0] in arm_lits
            if is_cmp and not has_zero_arm:
                bad.append("the match on compare(&0) has no arm for the zero result")
            for (pat, g, arm), lits in zip(n[3], arm_lits):
                tag = None
                if is_cmp and has_zero_arm:
                    tag = "zero" if lits == [0] else "nonzero"
                if is_len and has_zero_arm:
                    tag = "empty" if lits == [0] else "nonempty"
                walk(arm, guards + ([tag] if tag else []))
            return
        if n[0] == "assign":
            lhs = H.strip(n[2])
            if H.is_node(lhs) and lhs[0] == "path" and H.path_str(lhs) == "current" or "current" in str(n[2])[:80]:
                stores += 1
                if "nonzero" not in guards:
                    bad.append("a quantity is stored outside the non-zero branch")
        if n[0] == "mcall" and n[2] == "remove":
            recv = str(n[4])
            if "lhs_ma" in recv:
                removes_policy += 1
                if "empty" not in guards:
                    bad.append("a policy is removed without the assets.len() == 0 test")
            else:
                removes_asset += 1
        for c in H.children(n):
            walk(c, guards)

    n_cmp = sum(1 for n in H.walk(h["body"]) if n[0] == "match" and H.is_node(H.strip(n[2])) and H.strip(n[2])[0] == "mcall" and H.strip(n[2])[2] == "compare")
    if n_cmp == 0:
        rep.lost("MultiAsset::sub no longer decides zero through `match new.compare(&BigNum(0))`: the ZERO-prune rule has to be re-anchored (not a verdict)")
        return
    walk(h["body"], [])
    rep.inst("ZERO-prune", 3)
    if stores < 1 or removes_asset < 2 or removes_policy < 2:
        bad.append("expected >= 1 guarded store, >= 2 asset removals (zero result, underflow) and >= 2 policy removals; found %d/%d/%d" % (stores, removes_asset, removes_policy))
    # the zero arm must remove
    for n in H.walk(h["body"]):
        if n[0] == "match":
            sc = H.strip(n[2])
            if H.is_node(sc) and sc[0] == "mcall" and sc[2] == "compare":
                for pat, g, arm in n[3]:
                    lits = [int(a[1][1]) for a in H.pat_alternatives(pat) if a and a[0] == "plit" and a[1][0] == "int"]
                    if lits == [0] and not any(x[0] == "mcall" and x[2] == "remove" for x in H.walk(arm)):
                        bad.append("the zero-result arm no longer removes the asset")
    for b in sorted(set(bad)):
        rep.violation("ZERO-prune", "MultiAsset::sub|%s" % b[:60], "MultiAsset::sub: %s - a zero quantity / empty policy bundle can reach a builder-made change output" % b, {})


def rule_pos_field(rep, F, cddl):
    """a field whose CDDL type is positive never receives Some(0) from API code: every store is None, a copy of another such field
    (which then falls under the rule), or Some(v) on the non-zero edge of a zero test of v; decoders keep what the wire held"""
    import fieldflow as ff
    import mustpass as mp
    rep.rule("POS-field", "positive_coin fields (treasury donation, key 22): every store outside the decoders is None, a copy of a field under the same rule, or Some(v) dominated by the non-zero edge of a zero test: `22: 0` is never emitted for a value built through the typed API or the builder")
    work = [(a, f) for a, f, _ in cddl["positive_fields"]]
    for a, f in work:
        if a not in F.adts or ff.field_index(F, a, f) is None:
            rep.lost("positive field %s.%s not found" % (a, f))
            return
    seen = set()
    n_sites = 0
    while work:
        adt, fld = work.pop()
        if (adt, fld) in seen:
            continue
        seen.add((adt, fld))
        idx = ff.field_index(F, adt, fld)
        for fid, fn in F.fns.items():
            if "/tests/" in fn["file"] or F.is_derived(fid):
                continue
            if "Deserialize" in (fn.get("impl_trait") or "") or "/serialization/" in fn["file"]:
                continue   # a decoder keeps what the wire held (the round trip is C01's subject)
            ffs = ff.FnFields(F, fid)
            sites = [(s[2], s[4] if not (isinstance(s[4], tuple)) else None, "store") for s in ffs.stores_to(adt, fld)]
            for (a2, var, bi, si, dest, ops) in ffs.aggregates_of(adt):
                if idx < len(ops):
                    sites.append((bi, ["use", ops[idx]], "literal"))
            if not sites:
                continue
            org = ff.Origins(F, fid)
            def classify(bi, rv, depth=0):
                """'ok' | ('copy', [(adt, field)]) | 'bad' | 'call' for the value rv stored / defined in block bi"""
                if rv is None:
                    return ["call"]
                if rv[0] == "agg" and rv[3] == "None":
                    return ["ok"]
                if rv[0] == "use" and rv[1][0] == "k":
                    return ["ok"]   # a constant (None)
                if rv[0] == "use" and rv[1][0] in ("c", "m") and "|" not in rv[1][1] and depth < 6:
                    ds = [d for d in org.defs.get(rv[1][1], []) if d[2] == rv[1][1]]
                    if ds and all(d[0] == "st" for d in ds):
                        out = []
                        for d in ds:
                            out += classify(d[1], d[3], depth + 1)   # each definition judged in its own block
                        return out
                o = set()
                if rv[0] == "use":
                    o = org.of_operand(rv[1])
                elif rv[0] == "agg":
                    for x in rv[4]:
                        o |= org.of_operand(x)
                opt_copies = []
                for x in o:
                    if not x.startswith("field:") or x.endswith("%s.%s" % (adt, fld)):
                        continue
                    a3, f3 = x[len("field:"):].rsplit(".", 1)
                    if a3 in F.adts and ff.field_index(F, a3, f3) is not None:
                        ty = [ff_["ty"] for v in F.adts[a3]["variants"] for ff_ in v["fields"] if ff_["name"] == f3]
                        if ty and "Option<" in ty[0] and ("BigNum" in ty[0] or "Coin" in ty[0]):
                            opt_copies.append((a3, f3))
                if opt_copies and not (rv[0] == "agg" and rv[3] == "Some"):
                    return [("copy", opt_copies)]
                for s_bb, edge, cond in mp.dominating_guards(F, fid, bi, org):
                    if cond["kind"] == "call" and cond["callee"].endswith("is_zero"):
                        if (edge == "0") != cond["neg"]:
                            return ["ok"]
                    if cond["kind"] == "bin" and cond["op"] in ("Ne", "Gt", "Lt", "Eq") and ("const" in cond["lhs"] or "const" in cond["rhs"]):
                        true_edge = (edge != "0") != cond["neg"]
                        if (cond["op"] in ("Ne", "Gt", "Lt") and true_edge) or (cond["op"] == "Eq" and not true_edge):
                            return ["ok"]
                return ["bad"]

            for bi, rv, how in sites:
                n_sites += 1
                rep.inst("POS-field")
                key = "%s|%s.%s" % (F.key(fid), adt.rsplit("::", 1)[-1], fld)
                res = classify(bi, rv)
                for r in res:
                    if isinstance(r, tuple):
                        work.extend(r[1])
                if "call" in res:
                    rep.violation("POS-field", key + "|call-result", "%s stores a call result into the positive field %s.%s: not decidable as non-zero" % (F.key(fid), adt, fld), {})
                elif "bad" in res:
                    rep.violation("POS-field", key, "%s stores a value into %s.%s (%s) without a zero test: %s accepts 0 and the body is then written with `16 00` (key 22, value 0), which the CDDL's positive_coin excludes and the ledger's decoder rejects" % (F.key(fid), adt.rsplit("::", 1)[-1], fld, how, F.key(fid)), {})
    rep.floor("stores into positive fields and their sources", 4, n_sites)


def rule_size_field(rep, F, cddl):
    """raw byte-string fields with a CDDL-fixed size: every store outside the decoders is dominated by a length test against that size"""
    import fieldflow as ff
    import mustpass as mp
    rep.rule("SIZE-field", "a raw byte-string field whose CDDL type fixes its size (bootstrap witness chain_code: bytes .size 32) is filled, outside the decoders, only on the passing edge of a length comparison with that size")
    n_sites = 0
    for adt, fld, size, spec in cddl["size_fields"]:
        idx = ff.field_index(F, adt, fld) if adt in F.adts else None
        if idx is None:
            rep.lost("sized field %s.%s not found" % (adt, fld))
            continue
        for fid, fn in F.fns.items():
            if "/tests/" in fn["file"] or F.is_derived(fid):
                continue
            if "Deserialize" in (fn.get("impl_trait") or "") or "/serialization/" in fn["file"]:
                continue
            ffs = ff.FnFields(F, fid)
            sites = [s[2] for s in ffs.stores_to(adt, fld)] + [a[2] for a in ffs.aggregates_of(adt)]
            if not sites:
                continue
            org = ff.Origins(F, fid)
            for bi in sites:
                n_sites += 1
                rep.inst("SIZE-field")
                ok = False
                for s_bb, edge, cond in mp.dominating_guards(F, fid, bi, org):
                    if cond["kind"] == "bin" and cond["op"] in ("Eq", "Ne"):
                        side = cond["lhs"] + cond["rhs"]
                        fn_ = F.fns[fid]
                        consts = []
                        for st in fn_["bbs"][cond["bb"]]["st"]:
                            if st[1] == "=" and st[3][0] == "bin":
                                for o in (st[3][2], st[3][3]):
                                    if o[0] == "k" and str(o[1]).split("_")[0].isdigit():
                                        consts.append(int(str(o[1]).split("_")[0]))
                        if any("len" in x for x in side) and size in consts:
                            true_edge = (edge != "0") != cond["neg"]
                            if (cond["op"] == "Eq" and true_edge) or (cond["op"] == "Ne" and not true_edge):
                                ok = True
                if not ok:
                    rep.violation("SIZE-field", "%s.%s|%s" % (adt.rsplit("::", 1)[-1], fld, F.key(fid)), "%s fills %s.%s without a length test; the CDDL says `%s`: %s::new(vkey, sig, vec![0; 3], attrs).to_bytes() carries a 3-byte chain code" % (F.key(fid), adt.rsplit("::", 1)[-1], fld, spec, adt.rsplit("::", 1)[-1]), {})
    rep.floor("stores into size-fixed raw byte fields", 1, n_sites)


TYPE_MAX = {"u8": 255, "u16": 65535, "u32": (1 << 32) - 1, "u64": (1 << 64) - 1, "usize": (1 << 64) - 1, "BigNum": (1 << 64) - 1}


def rule_int_width(rep, F, cddl):
    """integer fields whose CDDL range is narrower than 64 bits: the Rust field type cannot hold more, or every store is gated"""
    import fieldflow as ff
    import mustpass as mp
    rep.rule("INT-width", "an integer field whose CDDL range is narrower than u64 has a Rust type that cannot exceed it, or is filled (outside the decoders) only on the passing edge of a comparison with the bound: the writer cannot emit an out-of-range integer for a value built through the typed API")
    for adt, fld, vmax, spec in cddl["int_fields"]:
        if adt not in F.adts or ff.field_index(F, adt, fld) is None:
            rep.lost("integer field %s.%s not found" % (adt, fld))
            continue
        rep.inst("INT-width")
        ty = [f["ty"] for f in F.adts[adt]["variants"][0]["fields"] if f["name"] == fld][0]
        base = re.sub(r"^std::option::Option<(.*)>$", r"\1", ty).rsplit("::", 1)[-1]
        if base not in TYPE_MAX:
            rep.lost("integer field %s.%s has type %s, not understood" % (adt, fld, ty))
            continue
        if TYPE_MAX[base] <= vmax:
            continue
        # the type is wider than the CDDL range: look for gated stores
        ungated = []
        for fid, fn in F.fns.items():
            if "/tests/" in fn["file"] or F.is_derived(fid) or "Deserialize" in (fn.get("impl_trait") or "") or "/serialization/" in fn["file"]:
                continue
            ffs = ff.FnFields(F, fid)
            sites = [s[2] for s in ffs.stores_to(adt, fld)] + [a[2] for a in ffs.aggregates_of(adt)]
            if not sites:
                continue
            org = ff.Origins(F, fid)
            for bi in sites:
                ok = False
                for s_bb, edge, cond in mp.dominating_guards(F, fid, bi, org):
                    if cond["kind"] == "bin" and cond["op"] in ("Le", "Lt", "Gt", "Ge") and ("const" in cond["lhs"] or "const" in cond["rhs"]):
                        ok = True
                if not ok:
                    ungated.append(F.key(fid))
        if ungated:
            rep.violation("INT-width", "%s.%s" % (adt.rsplit("::", 1)[-1], fld), "%s.%s has type %s (up to %d) but the CDDL says `%s` (up to %d), and %s fill it without a range test: %d is accepted and written as it is" % (adt.rsplit("::", 1)[-1], fld, base, TYPE_MAX[base], spec, vmax, ", ".join(sorted(set(ungated))[:3]), vmax + 1), {})


def rule_mint_nonzero(rep, F):
    """the mint the builder emits went through the zero-rejecting insertion"""
    from ruleutil import find_fn
    import fieldflow as ff
    import mustpass as mp
    rep.rule("MINT-nonzero", "the body's mint comes from MintBuilder::build; build adds every accumulated amount through MintAssets::insert (which fails on 0) and reaches no unchecked insertion; MintAssets::insert returns Err on the zero edge of a comparison of the amount with 0: amounts that cancel out (+5, -5) make the build fail instead of emitting `asset => 0` (mint is `nonZeroInt64`) and a zero-quantity asset in the change output")
    b = find_fn(rep, F, "MintBuilder::build")
    ins = find_fn(rep, F, "MintAssets::insert")
    bs = find_fn(rep, F, "TransactionBuilder::build_and_size")
    if not (b and ins and bs):
        return
    rep.inst("MINT-nonzero", 3)
    # (a) the body takes the checked build
    calls_bs = set()
    for sub in [bs] + [c for c in F.fns if c.startswith(bs + "::{closure")]:
        calls_bs |= {c.to or "" for c in F.calls(sub)}
    if not any(x.endswith("MintBuilder::build") for x in calls_bs) or any(x.endswith("MintBuilder::build_unchecked") for x in calls_bs):
        rep.violation("MINT-nonzero", "build_and_size|unchecked", "the transaction body's mint is not produced by MintBuilder::build (the checked variant)", {})
    # (b) build reaches only the checked insertion
    seen, work = set(), [b]
    while work:
        x = work.pop()
        if x in seen or x not in F.fns:
            continue
        seen.add(x)
        for sub in [x] + [c for c in F.fns if c.startswith(x + "::{closure")]:
            for c in F.calls(sub):
                if (c.to or "").startswith("builders::mint_builder") or (c.to or "").endswith("MintAssets::insert") or (c.to or "").endswith("MintAssets::insert_unchecked"):
                    work.append(c.to)
    unchecked = sorted(H.short(x) for x in seen if x.endswith("insert_unchecked") or x.endswith("build_unchecked"))
    if unchecked or not any(x.endswith("MintAssets::insert") for x in seen):
        rep.violation("MINT-nonzero", "MintBuilder::build|%s" % (",".join(unchecked) or "no-checked-insert"), "MintBuilder::build assembles the mint through %s instead of the zero-rejecting MintAssets::insert: add_asset(+5) then add_asset(-5) builds `asset => 0`, which the CDDL's nonZeroInt64 excludes, and the change output carries a zero quantity of that asset" % (", ".join(unchecked) or "no checked insertion"), {})
    # (c) the checked insertion rejects zero
    fn = F.fns[ins]
    org = ff.Origins(F, ins)
    rejects = False
    for bi, kind, loc in mp.error_stores(F, ins):
        for s_, edge, d in mp.dominating_guards(F, ins, bi, org):
            if d["kind"] == "bin" and d["op"] in ("Eq", "Ne") and ("const" in d["lhs"] or "const" in d["rhs"]):
                rejects = True
            if d["kind"] == "call" and d["callee"].endswith("is_zero"):
                rejects = True
    if not rejects:
        rep.violation("MINT-nonzero", "MintAssets::insert|zero", "MintAssets::insert no longer fails on a zero amount", {})


def rule_bundle_typed(rep, F):
    """multiasset = { + policy_id => { + asset_name => positive_coin } }: what the typed insertion API lets through"""
    import fieldflow as ff
    import mustpass as mp
    from ruleutil import find_fn
    rep.rule("BUNDLE-typed", "the typed insertion API of asset bundles keeps the CDDL's non-emptiness and positivity: MultiAsset::insert stores a bundle only on the non-empty edge of a test of its length, Assets::insert stores a quantity only on the non-zero edge of a zero test - otherwise a value built through the typed API is written with `policy => {}` or `asset => 0`")
    for key, what, tests in (("MultiAsset::insert", "an empty bundle (`policy => {}`)", ("len", "is_empty")), ("Assets::insert", "a zero quantity (`asset => 0`)", ("is_zero",))):
        fid = find_fn(rep, F, key)
        if not fid:
            continue
        rep.inst("BUNDLE-typed")
        fn = F.fns[fid]
        org = ff.Origins(F, fid)
        sites = [c for c in F.calls(fid) if (c.to or "").endswith("::insert")]
        ok = bool(sites)
        for c in sites:
            g = False
            for s_, edge, d in mp.dominating_guards(F, fid, c.bb, org):
                txt = (d.get("callee") or "") + " ".join(d.get("lhs", []) + d.get("rhs", []))
                if any(("::%s" % t) in txt for t in tests) or (d["kind"] == "bin" and "const" in d.get("lhs", []) + d.get("rhs", [])):
                    g = True
            ok = ok and g
        if not ok:
            rep.violation("BUNDLE-typed", key, "%s stores its argument without a test: a MultiAsset / Value built through the typed API can hold %s, which the writer emits as it is; the Conway CDDL requires non-empty bundles of positive quantities" % (key, what), {})


JSON_VALID_OK = {
    ("Certificate", "Certificate::new_reg_cert"): "fails only when the wrapped constructor fails; the variant payloads are judged on their own",
    ("Certificate", "Certificate::new_unreg_cert"): "same",
    ("Nonce", "Nonce::new_from_hash"): "checks the length of a slice that becomes a [u8; 32]: the derived reader cannot produce another length",
    ("VRFCert", "VRFCert::new"): "block-header type, not part of a transaction (its proof length is outside this property)",
    ("DRep", "DRep::from_bech32_internal"): "a parser, its errors are about the text form",
    ("Value", "Value::checked_add"): "arithmetic error, not a validity condition of the stored fields",
    ("Value", "Value::checked_sub"): "same",
}


def rule_json_valid(rep, F):
    """a derived JSON reader builds the struct without running the checks its constructors / setters make"""
    import fieldflow as ff
    import mustpass as mp
    rep.rule("JSON-valid", "no struct with a *derived* JSON reader has an inherent constructor / setter that can refuse its input (a Result-returning function that builds or fills the struct and has an error exit) outside the audited list: from_json would build values the typed API refuses - a MintAssets with a zero amount - and the writer emits them")
    der = set()
    for im in F.impls:
        if im.get("trait") == "serde::Deserialize" and im.get("derive"):
            der.add(im.get("self_adt") or im["self_ty"])
    n = 0
    for adt in sorted(der):
        if adt not in F.adts or F.adts[adt]["kind"] != "struct":
            continue
        short = adt.rsplit("::", 1)[-1]
        n += 1
        for fid, fn in F.fns.items():
            if "/tests/" in fn["file"] or F.is_derived(fid) or "::{closure" in fid or "serialization" in fn["file"] or not F.key(fid).startswith(short + "::"):
                continue
            if not fn["locals"][0].startswith("std::result::Result<"):
                continue
            ffs = ff.FnFields(F, fid)
            builds = bool(ffs.aggregates_of(adt)) or any(s_[0] == adt for s_ in ffs.stores) or any((c.to or "").endswith("::insert") for c in F.calls(fid))
            if not builds or not mp.error_stores(F, fid):
                continue
            rep.inst("JSON-valid")
            if (short, F.key(fid)) in JSON_VALID_OK:
                rep.allow("JSON-valid")
                continue
            rep.violation("JSON-valid", "%s|%s" % (short, F.key(fid)), "%s can refuse its input, but %s has a derived JSON reader that fills the struct directly: %s::from_json accepts what the typed API rejects (e.g. {\"61\": \"0\"} for MintAssets) and to_bytes() writes it" % (F.key(fid), short, short), {})
    rep.floor("structs with a derived JSON reader", 80, n)


def check(rep, F, tier, replay=None):
    cddl = common.load_table("conway_cddl.json")
    aud = common.load_table("e2_audited.json")
    inv = Inventory(F, thorough=(tier == "thorough"))
    inv.analyse_all()
    rule_spec_map(rep, F, inv, cddl)
    rule_nonempty_field(rep, F, inv, cddl)
    rule_spec_array(rep, F, inv, cddl)
    rule_spec_enum(rep, F, inv, cddl)
    rule_spec_index(rep, F, cddl)
    rule_spec_tag(rep, F, inv, cddl)
    rule_wset(rep, F, inv, cddl)
    rule_wmin(rep, F, inv, aud)
    rule_bound(rep, F, cddl, aud)
    bodyorigins.check(rep, F)
    rule_zero_prune(rep, F)
    rule_pos_field(rep, F, cddl)
    rule_mint_nonzero(rep, F)
    rule_bundle_typed(rep, F)
    rule_json_valid(rep, F)
    rule_size_field(rep, F, cddl)
    rule_int_width(rep, F, cddl)
    from ruleutil import datum_rules
    datum_rules(rep, F)  # set-typed fields (tag 258 datums / scripts) hold every element once: identity and totality of the de-duplication
    return rep.finish(EXPLANATION, ASSUMPTIONS, trusted_base=["csl-facts driver (HIR/MIR dump of the type-checked crate)", "tables/conway_cddl.json (CDDL transcription)", "tables/e2_audited.json", "tables/body_origins.json", "cbor_event head encoding"])
