"""Polynomial abstract interpretation of Rational's arithmetic methods (C15).

Each method of `rational::Rational` that combines two fractions is interpreted over the HIR with values in Z[an, ad, bn, bd, k]
(an/ad = self, bn/bd = the Rational argument, k = an integer argument).  Every return path yields a pair (N, D) of polynomials
together with the substitutions its branch conditions justify (`p.is_zero()` on a symbol -> that symbol is 0, `p == q` on two
symbols -> one symbol).  The path is right when  N * D_spec == N_spec * D  as polynomials after those substitutions - exact
normal-form comparison, nothing is executed and no solver is involved.  Anything outside the fragment raises NotAlgebraic
(the caller answers ANCHOR-LOST, never VIOLATION)."""
import hirq as H


class NotAlgebraic(Exception):
    pass


# ---- polynomials: dict {monomial: coeff}, monomial = tuple of sorted (symbol, power) ------------------------------------------
def P(sym=None, const=None):
    if sym is not None:
        return {((sym, 1),): 1}
    if const is not None:
        return {(): const} if const else {}
    return {}


def padd(a, b, sign=1):
    r = dict(a)
    for m, c in b.items():
        r[m] = r.get(m, 0) + sign * c
        if r[m] == 0:
            del r[m]
    return r


def pmul(a, b):
    r = {}
    for m1, c1 in a.items():
        for m2, c2 in b.items():
            d = dict(m1)
            for s, p in m2:
                d[s] = d.get(s, 0) + p
            m = tuple(sorted(d.items()))
            r[m] = r.get(m, 0) + c1 * c2
            if r[m] == 0:
                del r[m]
    return r


def psubst(a, sym, repl):
    """replace symbol `sym` by polynomial `repl`"""
    r = {}
    for m, c in a.items():
        term = {(): c}
        for s, p in m:
            base = repl if s == sym else P(s)
            for _ in range(p):
                term = pmul(term, base)
        r = padd(r, term)
    return r


def pstr(a):
    if not a:
        return "0"
    out = []
    for m, c in sorted(a.items()):
        mon = "*".join(s if p == 1 else "%s^%d" % (s, p) for s, p in m)
        out.append(("%d*%s" % (c, mon)) if mon and c != 1 else (mon or str(c)))
    return " + ".join(out)


def single_symbol(a):
    if len(a) == 1:
        (m, c), = a.items()
        if c == 1 and len(m) == 1 and m[0][1] == 1:
            return m[0][0]
    return None


SPEC = {
    "add": lambda an, ad, bn, bd, k: (padd(pmul(an, bd), pmul(bn, ad)), pmul(ad, bd)),
    "sub": lambda an, ad, bn, bd, k: (padd(pmul(an, bd), pmul(bn, ad), -1), pmul(ad, bd)),
    "mul_ratio": lambda an, ad, bn, bd, k: (pmul(an, bn), pmul(ad, bd)),
    "div_ratio": lambda an, ad, bn, bd, k: (pmul(an, bd), pmul(ad, bn)),
    "mul_bignum": lambda an, ad, bn, bd, k: (pmul(an, k), ad),
    "mul_usize": lambda an, ad, bn, bd, k: (pmul(an, k), ad),
}


class Interp:
    def __init__(self, h, name):
        self.h = h
        self.name = name
        names = [n for p in h["params"] for n in H.pat_bindings(p)]
        if not names or names[0] != "self":
            raise NotAlgebraic("no self parameter")
        self.selfname = "self"
        self.other = None
        self.kname = None
        for nm, ty in zip(names[1:], h["ptys"][1:]):
            if ty.endswith("rational::Rational"):
                self.other = nm
            else:
                self.kname = nm
        self.returns = []  # (N, D, substitutions, line)

    # value kinds: ("poly", p) | ("rat", N, D)
    def ev(self, n, env):
        n = H.strip(n)
        if not H.is_node(n):
            raise NotAlgebraic("non-node")
        k = n[0]
        if k == "path":
            nm = H.path_str(n)
            if nm in env:
                return env[nm]
            if nm == self.selfname:
                return ("rat", P("an"), P("ad"))
            if nm == self.other:
                return ("rat", P("bn"), P("bd"))
            if nm == self.kname:
                return ("poly", P("k"))
            raise NotAlgebraic("free name %s" % nm)
        if k == "field":
            b = self.ev(n[2], env)
            if b[0] == "rat" and n[3] in ("numerator", "denominator"):
                return ("poly", b[1] if n[3] == "numerator" else b[2])
            raise NotAlgebraic("field %s" % n[3])
        if k == "lit" and n[2][0] == "int":
            return ("poly", P(const=int(n[2][1])))
        if k == "mcall":
            name = n[2]
            if name in ("numerator", "denominator") and not n[5]:
                b = self.ev(n[4], env)
                if b[0] == "rat":
                    return ("poly", b[1] if name == "numerator" else b[2])
            if name in ("mul", "add", "sub") and len(n[5]) == 1 and "big_int::BigInt" in str(n[3]):
                a, b = self.ev(n[4], env), self.ev(n[5][0], env)
                if a[0] != "poly" or b[0] != "poly":
                    raise NotAlgebraic("BigInt op on a non-integer")
                return ("poly", pmul(a[1], b[1]) if name == "mul" else padd(a[1], b[1], 1 if name == "add" else -1))
            if name in ("into", "clone", "to_owned") and not n[5]:
                return self.ev(n[4], env)
            if name == "reduce_minuses" and not n[5]:
                return self.ev(n[4], env)  # (-n)/(-d) -> n/d: the same rational
            raise NotAlgebraic("method %s" % name)
        if k == "call":
            callee = str(n[2] or "")
            if callee.endswith("Rational::new") and len(n[4]) == 2:
                a, b = self.ev(n[4][0], env), self.ev(n[4][1], env)
                if a[0] != "poly" or b[0] != "poly":
                    raise NotAlgebraic("Rational::new of non-integers")
                return ("rat", a[1], b[1])
            if (callee.endswith("::from") or callee.endswith("::into")) and len(n[4]) == 1:
                return self.ev(n[4][0], env)
            if callee.endswith("Ok") and len(n[4]) == 1:
                return self.ev(n[4][0], env)
            raise NotAlgebraic("call %s" % callee)
        if k == "struct" and str(n[2][-1] if isinstance(n[2], list) else n[2]).endswith("rational::Rational"):
            fs = {f[0]: self.ev(f[1], env) for f in n[3]}
            if set(fs) == {"numerator", "denominator"} and all(v[0] == "poly" for v in fs.values()):
                return ("rat", fs["numerator"][1], fs["denominator"][1])
        if k == "block" and not n[2] and n[3] is not None:
            return self.ev(n[3], env)
        raise NotAlgebraic("expression kind %s" % k)

    def cond(self, c, env):
        """-> (substitution if true, substitution if false); a substitution is (symbol, polynomial) or None"""
        c = H.strip(c)
        if H.is_node(c) and c[0] == "mcall" and c[2] == "is_zero" and not c[5]:
            v = self.ev(c[4], env)
            p = v[1] if v[0] == "poly" else v[1]  # a Rational is zero when its numerator is
            s = single_symbol(p)
            if s is None:
                raise NotAlgebraic("is_zero of a compound expression")
            return (s, {}), None
        if H.is_node(c) and c[0] == "binary" and c[2] in ("Eq", "Ne"):
            a, b = self.ev(c[3], env), self.ev(c[4], env)
            if a[0] != "poly" or b[0] != "poly":
                raise NotAlgebraic("comparison of non-integers")
            sa, sb = single_symbol(a[1]), single_symbol(b[1])
            if sa is None or sb is None:
                raise NotAlgebraic("comparison of compound expressions")
            sub = (sb, P(sa))
            return (sub, None) if c[2] == "Eq" else (None, sub)
        if H.is_node(c) and c[0] == "unary" and c[2] == "Not":
            t, f = self.cond(c[3], env)
            return f, t
        raise NotAlgebraic("condition shape")

    def run_block(self, b, env, subs):
        """interpret a block; returns the value of its tail (or None) - `ret` records a return path"""
        b = b if (H.is_node(b) and b[0] == "block") else ["block", 0, [], b]
        env = dict(env)
        for st in b[2]:
            if st[0] == "let":
                names = H.pat_bindings(st[2])
                if len(names) != 1 or st[3] is None:
                    raise NotAlgebraic("let pattern")
                env[names[0]] = self.ev(st[3], env)
            else:
                if self.stmt(st[2], env, subs):
                    return "returned"
        if b[3] is None:
            return None
        t = H.strip(b[3])
        if H.is_node(t) and t[0] == "ret":
            self.stmt(t, env, subs)
            return "returned"
        if H.is_node(t) and t[0] == "if":
            # an `if` in tail position: each branch yields the value of the block (or returns)
            ct, cf_ = self.cond(t[2], env)
            if t[4] is None:
                if self.stmt(t, env, subs):
                    return "returned"
                return None
            for br, sub in ((t[3], ct), (t[4], cf_)):
                v = self.run_block(br, env, subs + ([sub] if sub else []))
                if v in (None,):
                    raise NotAlgebraic("branch without a value")
                if v != "returned":
                    if v[0] != "rat":
                        raise NotAlgebraic("branch value is not a rational")
                    self.returns.append((v[1], v[2], list(subs + ([sub] if sub else [])), t[1]))
            return "returned"
        return self.ev(b[3], env)

    def stmt(self, n, env, subs):
        """-> True when every path through n returned"""
        n = H.strip(n)
        if H.is_node(n) and n[0] == "ret":
            v = self.ev(n[2], env)
            if v[0] != "rat":
                raise NotAlgebraic("return of a non-rational")
            self.returns.append((v[1], v[2], list(subs), n[1]))
            return True
        if H.is_node(n) and n[0] == "if":
            t, f = self.cond(n[2], env)
            rt = self.run_block(n[3], env, subs + ([t] if t else []))
            if rt not in (None, "returned"):
                raise NotAlgebraic("if used as a value")
            rf = None
            if n[4] is not None:
                rf = self.run_block(n[4], env, subs + ([f] if f else []))
                if rf not in (None, "returned"):
                    raise NotAlgebraic("if used as a value")
            if f:
                subs.append(f)  # the rest of the function runs under the negation only when the then-branch returned
                if rt != "returned":
                    subs.pop()
            return rt == "returned" and rf == "returned"
        raise NotAlgebraic("statement kind %s" % (n[0] if H.is_node(n) else n))

    def run(self):
        v = self.run_block(self.h["body"], {}, [])
        if v not in (None, "returned"):
            if v[0] != "rat":
                raise NotAlgebraic("tail value is not a rational")
            self.returns.append((v[1], v[2], [], 0))
        if not self.returns:
            raise NotAlgebraic("no return value")
        return self.returns


def check_method(h, name):
    """-> [(line, substitutions, got_N, got_D, ok)]"""
    it = Interp(h, name)
    rets = it.run()
    an, ad, bn, bd, k = P("an"), P("ad"), P("bn"), P("bd"), P("k")
    sn, sd = SPEC[name](an, ad, bn, bd, k)
    out = []
    for N, D, subs, line in rets:
        lhs, rhs = pmul(N, sd), pmul(sn, D)
        for sym, repl in subs:
            lhs, rhs = psubst(lhs, sym, repl), psubst(rhs, sym, repl)
        out.append((line, subs, N, D, lhs == rhs))
    return out
