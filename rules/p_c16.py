"""C16 — sets stay duplicate-free, asset maps canonical, builds deterministic (typestate-style push guard, container classes, hash-leak)."""
import re

import common
import facts
import fieldflow as ff
import hirq as H
import mustpass as mp
from callgraph import CallGraph
from e1_panicpath import dominators
from ruleutil import find_fn

EXPLANATION = (
    "Set types (struct with a Vec<Rc<T>> and a membership set of Rc<T>; discovered from the type definitions) are handled as a "
    "typestate: (PUSH) every Vec<Rc<T>>::push anywhere in the crate is dominated by the true edge of a set insert of Rc<T> in the "
    "same function; (MUT) no other mutating Vec API is applied to such a vector; (BUILD) every call that returns a Vec<Rc<T>> is "
    "Vec::new / with_capacity / clone, so an element vector is only ever built by guarded pushes (first-insertion order follows); "
    "(LIT) struct literals of a set type occur only in its own constructors; (ENTRY) the CBOR and JSON readers of each set type go "
    "through add / from_vec. Witness-set setters and the partial-dedup constructor store scripts and datums only as the result of "
    "deduplicated_clone (WS-dedup). Asset maps, mint maps and the builder's input map are sorted containers and AssetName's "
    "hand-written order compares length before content (CANON). Determinism: every iteration over a std RandomState hash container "
    "that is reachable from the build / size / fee entry points or sits in a CBOR writer must be on the audited order-insensitive "
    "list (HASH-leak), and random number generation is confined to coin selection (RNG). Not decided: byte identity of repeated "
    "builds as an observed fact (its structural threats are what is enumerated)."
)

MUTATORS = {"insert", "extend", "append", "extend_from_slice", "remove", "swap_remove", "drain", "truncate", "resize", "resize_with", "dedup", "dedup_by", "dedup_by_key",
            "retain", "retain_mut", "sort", "sort_by", "sort_by_key", "sort_unstable", "sort_unstable_by", "reverse", "split_off", "splice", "clear", "pop", "swap", "rotate_left", "rotate_right", "extend_from_within", "insert_mut", "push_mut"}
VEC_RC = re.compile(r"^\[std::rc::Rc<(.+?), std::alloc::Global>")
HASH_ITER = re.compile(r"::(iter|keys|values|into_iter|drain|iter_mut|values_mut|into_keys|into_values|difference|union|intersection|symmetric_difference|extract_if)$")


def discover_sets(F):
    sets = {}
    for aid, a in F.adts.items():
        if a["kind"] != "struct":
            continue
        fs = a["variants"][0]["fields"]
        vec = [f for f in fs if re.match(r"std::vec::Vec<std::rc::Rc<(.+)>>$", f["ty"])]
        st = [f for f in fs if re.match(r"std::collections::(BTreeSet|HashSet)<std::rc::Rc<(.+)>>$", f["ty"])]
        if vec and st:
            T = re.match(r"std::vec::Vec<std::rc::Rc<(.+)>>$", vec[0]["ty"]).group(1)
            sets[aid] = {"vec": vec[0]["name"], "set": st[0]["name"], "elem": T}
    return sets


def set_push_rules(rep, F, sets, elems):
    """SET-push / SET-mut / SET-build over the element types in `elems`; returns the number of pushes seen"""
    rep.rule("SET-push", "every Vec<Rc<T>>::push (T an element type of a set type) is dominated by the true edge of a {BTreeSet,HashSet}<Rc<T>>::insert in the same function")
    rep.rule("SET-mut", "no other mutating Vec API on a Vec<Rc<T>>")
    rep.rule("SET-build", "calls returning Vec<Rc<T>> are Vec::new / with_capacity / clone only")
    npush = 0
    for fid, fn in F.fns.items():
        if F.is_derived(fid):
            continue
        key = F.key(fid)
        inserts = {}
        for c in F.calls(fid):
            if c.to and re.search(r"std::collections::(BTreeSet|HashSet)::<T.*>::insert$", c.to):
                m = VEC_RC.match(c.info.get("ga", ""))
                if m:
                    inserts.setdefault(m.group(1), []).append(c)
        for c in F.calls(fid):
            to = c.to or ""
            # results of type Vec<Rc<T>>
            if c.dest and "|" not in c.dest:
                dty = fn["locals"][int(c.dest[1:])]
                m = re.match(r"std::vec::Vec<std::rc::Rc<(.+)>>$", dty)
                if m and m.group(1) in elems:
                    rep.inst("SET-build")
                    filt_ins = to.endswith("Iterator::collect") and any(
                        any(k.to and re.search(r"std::collections::(BTreeSet|HashSet)::<T.*>::insert$", k.to) for k in F.calls(cl))
                        for cl in F.fns if cl.startswith(fid.split("::{closure")[0] + "::{closure")) and any((k.to or "").endswith("Iterator::filter") for k in F.calls(fid))
                    if filt_ins:
                        continue  # `.filter(|rc| dedup.insert(rc.clone())).collect()`: the guarded push in iterator form
                    if not (to.endswith(("Vec::<T>::new", "Vec::<T>::with_capacity", "Clone>::clone")) or to.endswith("::clone")):
                        rep.violation("SET-build", "%s|%s" % (key, to), "%s builds an element vector of a set type with %s instead of guarded pushes: duplicates or a different order can enter the set (%s)" % (key, to, facts.loc_str(c.loc, fn)), {"function": fid, "elem": m.group(1)})
            if not to.startswith("std::vec::Vec::<T"):
                continue
            m = VEC_RC.match(c.info.get("ga", ""))
            if not m or m.group(1) not in elems:
                continue
            T = m.group(1)
            name = to.rsplit("::", 1)[1]
            if name == "push":
                npush += 1
                rep.inst("SET-push")
                ok = False
                for ins in inserts.get(T, []):
                    g = mp.bool_gate(F, fid, ins)
                    if g and mp.dominated_by(fn, c.bb, g[1]):
                        ok = True
                if not ok:
                    # `if set.contains(x) { return } set.insert(..); vec.push(..)`: the push is reached only on the absent edge of a
                    # membership test on the same set type, after the insertion
                    for q in F.calls(fid):
                        if q.to and re.search(r"std::collections::(BTreeSet|HashSet)::<T.*>::contains$", q.to) and (VEC_RC.match(q.info.get("ga", "")) or [None, None])[1] == T:
                            g = mp.bool_gate(F, fid, q)
                            if g and mp.dominated_by(fn, c.bb, g[0]) and any(mp.dominated_by(fn, c.bb, ins.bb) for ins in inserts.get(T, [])):
                                ok = True
                if not ok:
                    rep.violation("SET-push", "%s|%s" % (key, H.short(T)), "%s pushes a %s into an element vector without first succeeding to insert it into the membership set (%s): the same element can be held and serialised twice" % (key, H.short(T), facts.loc_str(c.loc, fn)), {"function": fid, "file": fn["file"]})
                else:
                    rep.sample({"rule": "SET-push", "function": key, "elem": H.short(T)})
            elif name in MUTATORS:
                rep.inst("SET-mut")
                rep.violation("SET-mut", "%s|%s|%s" % (key, name, H.short(T)), "%s applies Vec::%s to an element vector of %s (%s): the vector and its membership set can diverge" % (key, name, H.short(T), facts.loc_str(c.loc, fn)), {"function": fid})
    return npush


def check(rep, F, tier, replay=None):
    tab = common.load_table("c16.json")
    sets = discover_sets(F)
    elems = {v["elem"] for v in sets.values()}
    rep.floor("set types (Vec<Rc<T>> + membership set)", 7, len(sets))
    npush = set_push_rules(rep, F, sets, elems)
    rep.floor("guarded pushes into set element vectors", 12, npush)
    # LIT: struct literals only in own constructors
    rep.rule("SET-lit", "struct literals of a set type occur only in its own inherent constructors (new / new_from_prepared_fields)")
    for fid, fn in F.fns.items():
        if F.is_derived(fid):
            continue
        ffs = None
        for bb in fn["bbs"]:
            for st in bb["st"]:
                if st[1] == "=" and st[3][0] == "agg" and st[3][1] == "adt" and st[3][2] in sets:
                    rep.inst("SET-lit")
                    ok = fn.get("self_adt") == st[3][2] and fn["name"] in ("new", "new_from_prepared_fields") and not fn["impl_trait"]
                    if not ok:
                        rep.violation("SET-lit", "%s|%s" % (F.key(fid), H.short(st[3][2])), "%s constructs %s by struct literal outside its constructors: the vector / membership-set invariant is not established by guarded insertion" % (F.key(fid), H.short(st[3][2])), {"function": fid})
    # SET-writer: what is written is the insertion-ordered vector, never the membership index
    rep.rule("SET-writer", "the CBOR writer and the JSON writer of every set type (element vector + membership index) read the element vector and do not read the membership index: the index (BTreeSet / HashSet) iterates in sorted / arbitrary order, so a writer that walks it changes the order of inputs, reference inputs, collateral, signers ... - first-insertion order is what len / get / equality and a decoded transaction's original bytes follow")
    from ruleutil import fields_read as _fr
    n_w = 0
    for aid, s_ in sets.items():
        for fid, fn in F.fns.items():
            if fn.get("self_adt") != aid or F.is_derived(fid) or fn["name"] != "serialize":
                continue
            if fn["impl_trait"] not in ("cbor_event::se::Serialize", "cbor_event::Serialize", "serde::Serialize", "serde::ser::Serialize"):
                continue
            n_w += 1
            rep.inst("SET-writer")
            rd = {f for (a, f) in _fr(F, fid, depth=2) if a == aid}
            if s_["set"] in rd:
                rep.violation("SET-writer", "%s|%s|reads-index" % (H.short(aid), fn["impl_trait"].split("::")[0]), "the %s writer of %s reads the membership index `%s` (fields read: %s): elements are written in the order of that index, not in first-insertion order - a decoded body with unsorted inputs no longer re-encodes to its own bytes" % (fn["impl_trait"], H.short(aid), s_["set"], sorted(rd)), {"function": fid})
            elif s_["vec"] not in rd:
                rep.violation("SET-writer", "%s|%s|no-vector" % (H.short(aid), fn["impl_trait"].split("::")[0]), "the %s writer of %s does not read the element vector `%s`" % (fn["impl_trait"], H.short(aid), s_["vec"]), {"function": fid})
    rep.floor("writers of set types", 10, n_w)
    # ENTRY: readers go through add/from_vec
    rep.rule("SET-entry", "the CBOR and serde readers of each set type reach add / add_move / from_vec / extend of the same type (never assemble the fields themselves)")
    for aid, s in sets.items():
        short = H.short(aid)
        for fid, fn in F.fns.items():
            if fn.get("self_adt") != aid or F.is_derived(fid):
                continue
            if fn["impl_trait"] in ("serialization::traits::Deserialize", "serde::Deserialize") and fn["name"] == "deserialize":
                rep.inst("SET-entry")
                callees = set()
                for sub in [fid] + [c for c in F.fns if c.startswith(fid + "::{closure")]:
                    for c in F.calls(sub):
                        if c.to:
                            callees.add(c.to)
                if not any(x.startswith(aid + "::") and x.rsplit("::", 1)[1] in ("add", "add_move", "from_vec", "extend", "extend_move", "from_vec_move") for x in callees):
                    rep.violation("SET-entry", "%s|%s" % (short, fn["impl_trait"]), "%s's %s reader does not go through add / from_vec" % (short, fn["impl_trait"]), {"function": fid})
    # WS-dedup
    rep.rule("WS-dedup", "stores of native_scripts / plutus_scripts / plutus_data into a TransactionWitnessSet (outside the decoder and new()) are results of deduplicated_clone")
    WS = "protocol_types::witnesses::transaction_witnesses_set::TransactionWitnessSet"
    nws = 0
    for fid, fn in F.fns.items():
        if F.is_derived(fid):
            continue
        key = F.key(fid)
        if key.startswith("serialization::witnesses::transaction_witnesses_set::deserialize") or key == "TransactionWitnessSet::new":
            continue
        ffs = ff.FnFields(F, fid)
        org = None
        cases = []
        for f in ("native_scripts", "plutus_scripts", "plutus_data"):
            for s in ffs.stores_to(WS, f):
                cases.append((f, s[4]))
        for a in ffs.aggregates_of(WS):
            names = [x["name"] for x in F.adts[WS]["variants"][0]["fields"]]
            for f in ("native_scripts", "plutus_scripts", "plutus_data"):
                cases.append((f, a[5][names.index(f)]))
        for f, val in cases:
            nws += 1
            rep.inst("WS-dedup")
            org = org or ff.Origins(F, fid)
            import p_c04
            o = p_c04._origins_any(org, val)
            calls = set()
            for x in o:
                if x.startswith("call:"):
                    calls.add(x[5:].split("@")[0])
                if x.startswith("closure:") and x[8:] in F.fns:
                    for c in F.calls(x[8:]):
                        if c.to:
                            calls.add(c.to)
            if not any(x.endswith("::deduplicated_clone") for x in calls):
                rep.violation("WS-dedup", "%s|%s" % (key, f), "%s stores %s into a witness set without de-duplicating it (deduplicated_clone): a repeated script or datum would be emitted twice" % (key, f), {"function": fid, "origins": sorted(calls)[:10]})
    rep.floor("witness-set script/datum stores", 6, nws)
    # WS-mut: the de-duplicated fields are never mutated in place
    rep.rule("WS-mut", "native_scripts / plutus_scripts / plutus_data of a TransactionWitnessSet are never borrowed mutably: they change only through the de-duplicating setters, so nothing can append to them around the guard")
    nmb = 0
    for fid, fn in F.fns.items():
        if F.is_derived(fid) or "/tests/" in fn["file"]:
            continue
        ffs = ff.FnFields(F, fid)
        nmb += len(ffs.mut_borrows)
        for pl, bi in ffs.mut_borrows:
            for adt, var, fld in ff.place_fields(pl):
                if adt == WS and fld in ("native_scripts", "plutus_scripts", "plutus_data"):
                    rep.inst("WS-mut")
                    rep.violation("WS-mut", "%s|%s" % (F.key(fid), fld), "%s takes a mutable borrow of TransactionWitnessSet.%s and can add to it without de-duplication (a datum / script is then emitted twice while the script data hash covers the de-duplicated list)" % (F.key(fid), fld), {"function": fid})
    rep.inst("WS-mut", 1, nontrivial=False)
    rep.floor("mutable field borrows inspected crate-wide", 500, nmb)
    # CANON
    rep.rule("CANON", "asset / mint / input maps are sorted containers; AssetName orders by length, then bytes")
    for e in tab["canonical"]:
        rep.inst("CANON")
        cands = [a for a in F.adts if a == e["adt"] or a.endswith("::" + e["adt"])]
        if len(cands) != 1:
            rep.lost("canonical container %s not found" % e["adt"])
            continue
        fs = {f["name"]: f["ty"] for f in F.adts[cands[0]]["variants"][0]["fields"]}
        ty = fs.get(e["field"])
        if ty is None:
            rep.lost("field %s.%s not found" % (e["adt"], e["field"]))
        elif not ty.startswith("std::collections::" + e["class"] + "<"):
            rep.violation("CANON", "%s.%s" % (e["adt"], e["field"]), "%s.%s is a %s, not a %s: %s no longer holds whatever the insertion order" % (e["adt"], e["field"], ty.split("<")[0], e["class"], e["why"]), {})
    from ruleutil import assetname_ord_rule
    assetname_ord_rule(rep, F, "CANON")
    # HASH-leak
    rep.rule("HASH-leak", "iterations over std RandomState hash containers reachable from the build / size / fee entry points, or inside CBOR writers, are on the audited order-insensitive list")
    G = CallGraph(F)
    roots = []
    for k in tab["build_roots"]:
        roots += F.by_key(k)
    reach = set(G.reach(roots))
    writers = {fid for fid, fn in F.fns.items() if fn["impl_trait"] in ("cbor_event::Serialize", "serialization::traits::SerializeEmbeddedGroup") or fn["name"] in ("serialize_as_set", "serialize_as_set_by_version")}
    for w in list(writers):
        writers |= {c for c in F.fns if c.startswith(w + "::{closure")}
    scope = {f for f in (reach | writers) if not F.is_derived(f) and not F.fns[f]["file"].startswith("src/builders/batch_tools/")}
    allow = {}
    for e in tab["hash_iter_allow"]:
        allow[(e["fn"], e["callee"])] = e
    seen = {}
    for fid in sorted(scope):
        fn = F.fns[fid]
        for c in F.calls(fid):
            to = c.to or ""
            if "LinkedHashMap" in to or "hashlink" in to:
                continue
            if not (("std::collections::HashMap" in to or "std::collections::HashSet" in to or "std::collections::hash_map" in to or "std::collections::hash_set" in to) and HASH_ITER.search(to)):
                continue
            if "RandomState" not in c.info.get("ga", "") and "std::collections::Hash" not in c.info.get("ga", ""):
                pass
            name = to.rsplit("::", 1)[1]
            seen.setdefault((F.key(fid), name), []).append(c)
    for (key, name), cs in sorted(seen.items()):
        rep.inst("HASH-leak", len(cs))
        fid = F.by_key(key)[0] if F.by_key(key) else None
        e = allow.get((key, name))
        if e is None:
            # the same audited iteration written with another accessor (`for x in &map` -> `map.iter()` / `.values()`): the audit is
            # about what the function does with the elements (require_local / forbid_local are re-checked below), not the accessor
            IT = {"iter", "into_iter", "values", "keys", "iter_mut", "values_mut", "into_values", "into_keys"}
            alt = [v for (k2, n2), v in allow.items() if k2 == key and n2 in IT and name in IT]
            if alt:
                tot = sum(len(v2) for (k3, n3), v2 in seen.items() if k3 == key and n3 in IT)
                e = dict(alt[0], count=sum(a["count"] for a in alt))
                if tot > e["count"]:
                    e = None
        where = ", ".join(facts.loc_str(c.loc, F.fns[c.fn]) for c in cs)
        if e is None or len(cs) > e["count"]:
            rep.violation("HASH-leak", "%s|%s" % (key, name), "%s iterates a std hash container (%s at %s) on a build / serialisation path: the iteration order differs from run to run, so repeated builds of an unchanged builder can differ" % (key, name, where), {"function": key})
            continue
        fn = F.fns[cs[0].fn]
        if e.get("require_local") and e["require_local"] not in fn["locals"]:
            rep.violation("HASH-leak", "%s|%s|sink" % (key, name), "%s: audited as order-insensitive because %s, but no local of type %s exists any more" % (key, e["reason"], e["require_local"]), {})
        elif e.get("forbid_local") and e["forbid_local"] in fn["locals"]:
            rep.violation("HASH-leak", "%s|%s|sink" % (key, name), "%s collects into a %s again (hash order leaks into the emitted value)" % (key, e["forbid_local"]), {})
        else:
            rep.allow("HASH-leak", len(cs))
    rep.extra["hash_leak_scope"] = {"functions": len(scope), "reachable_from_build_roots": len(reach), "cbor_writers": len(writers)}
    # by-value into_iter of a HashSet/HashMap local feeding collect in scope is covered above (into_iter)
    # RNG
    rep.rule("RNG", "random number generation is called only from coin selection")
    for fid in sorted(scope | reach):
        if F.is_derived(fid):
            continue
        for c in F.calls(fid):
            to = c.to or ""
            if to.startswith(("rand::", "rand_os::", "getrandom::")) or "thread_rng" in to:
                rep.inst("RNG")
                root_key = F.key(fid).split("::{closure")[0]
                if root_key not in tab["rng_allowed_in"]:
                    rep.violation("RNG", "%s|%s" % (root_key, to), "%s calls %s on a build path: repeated builds are no longer deterministic" % (root_key, to), {})
    from ruleutil import ord_eq_rule
    ord_eq_rule(rep, F)
    from ruleutil import datum_rules
    datum_rules(rep, F)
    from ruleutil import hash_eq_rule
    hash_eq_rule(rep, F)
    return rep.finish(
        EXPLANATION,
        ["BTreeSet/HashSet::insert returns true exactly when the element was absent (std)", "Rc<T>'s Eq/Ord/Hash delegate to T", "JSON/CBOR readers of Vec<T> preserve element order"],
        ["rustc MIR/HIR + ADT definitions (csl-facts)", "tables/c16.json"],
    )
