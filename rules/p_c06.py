"""C06 — the fee set by the builder is always sufficient (enforcement path: mustpass, comparison gates, mustflow, ordering domain)."""
import re

import common
import facts
import fieldflow as ff
import hirq as H
import mustflow
import mustpass as mp
import orderdom
from facts import const_int
from ruleutil import find_fn, run_mustflow, raw_amount_ops
import wildarms
import totaliter

EXPLANATION = (
    "Fee sufficiency is enforced by a final gate; the structural facts it rests on are decided for all inputs: (MP) every Ok path of "
    "build_tx passes validate_fee()? on its Continue edge; (G) validate_fee returns Ok only on the false edge of `fee < min_fee` "
    "where fee is get_fee_if_set() and min_fee is the free function min_fee(self), and returns Err when no fee is set; (MF) min_fee's "
    "result is derived, on every success path, from the linear fee of the mock transaction, the script fee and the reference-script "
    "fee, each either added or guarded by an Err exit when its price is not configured; the linear fee is computed on "
    "fake_full_tx(tx_builder, tx_builder.build()?) whose key witnesses are built in a loop bounded by count_needed_vkeys, and "
    "count_needed_vkeys's result is derived from every signer source (inputs, collateral, required signers, mint native scripts, "
    "withdrawals, certificates, votes); TransactionBuilder::min_fee evaluates on a copy whose fee is the >= 2^32 placeholder (widest "
    "fee encoding) and aligns the result with the fee request; (POLICY) the fee-request policy is evaluated over the finite ordering "
    "domain {new<old, new=old, new>old}: Unspecified -> new, NotLess -> max(new, old), Exactly -> old, in both get_new_fee and "
    "set_final_fee. Not decided: that mock witnesses have the byte size of real ones; numeric sufficiency at width boundaries."
)


def check(rep, F, tier, replay=None):
    rep.rule("MP-gate", "every Ok-return of build_tx is dominated by the Continue edge of validate_fee()?")
    fid = find_fn(rep, F, "TransactionBuilder::build_tx")
    if fid:
        rep.inst("MP-gate")
        fn = F.fns[fid]
        calls, conts, bad = mp.must_pass(F, fid, lambda to: to.endswith("::validate_fee"))
        if not calls:
            rep.violation("MP-gate", "build_tx|validate_fee|missing", "build_tx no longer calls validate_fee", {})
        elif bad:
            rep.violation("MP-gate", "build_tx|validate_fee|bypass", "build_tx can return Ok without passing validate_fee()? (%s)" % ", ".join(facts.loc_str(b[2], fn) for b in bad), {})
    # ---- G: validate_fee ----------------------------------------------------------------------
    rep.rule("G-fee", "validate_fee returns Ok only on the false edge of get_fee_if_set() < min_fee(self); Err when the fee is not set")
    fid = find_fn(rep, F, "TransactionBuilder::validate_fee")
    if fid:
        fn = F.fns[fid]
        org = ff.Origins(F, fid)
        cmps = [c for c in F.calls(fid) if c.to and re.search(r"PartialOrd.*::(lt|le|gt|ge)$", c.to)]
        rep.inst("G-fee")
        if len(cmps) != 1:
            rep.violation("G-fee", "compare", "validate_fee does not decide by exactly one ordering comparison (found %d)" % len(cmps), {})
        else:
            c = cmps[0]
            op = c.to.rsplit("::", 1)[1]
            oa = org.of_operand(c.args[0])
            ob = org.of_operand(c.args[1])
            is_fee = lambda o: any(x.startswith("call:") and x.split("@")[0].endswith("get_fee_if_set") for x in o)
            is_min = lambda o: any(x.startswith("call:") and x.split("@")[0].endswith("builders::tx_builder::min_fee") for x in o)
            rep.inst("G-fee")
            # normalise to: insufficient := fee < min  (or min > fee); accept le/ge variants only in the strict-safe direction
            if is_fee(oa) and is_min(ob):
                insufficient_when_true = op in ("lt", "le")  # `fee <= min` is stricter than required, still safe
            elif is_min(oa) and is_fee(ob):
                insufficient_when_true = op in ("gt", "ge")
            else:
                insufficient_when_true = None
                rep.violation("G-fee", "operands", "validate_fee's comparison is not between get_fee_if_set() and min_fee(self): op=%s" % op, {"lhs": sorted(oa)[:8], "rhs": sorted(ob)[:8]})
            g = mp.bool_gate(F, fid, c)
            if insufficient_when_true is not None:
                rep.inst("G-fee")
                if g is None:
                    rep.violation("G-fee", "gate", "the comparison in validate_fee does not decide a branch", {})
                else:
                    f_blk, t_blk = g
                    ok_blk = f_blk if insufficient_when_true else t_blk
                    bad_blk = t_blk if insufficient_when_true else f_blk
                    for bi, kind, loc in mp.success_stores(F, fid):
                        if not mp.dominated_by(fn, bi, ok_blk):
                            rep.violation("G-fee", "ok-not-on-sufficient-edge", "validate_fee returns Ok at %s on a path where the fee was not found sufficient" % facts.loc_str(loc, fn), {})
                    errs = [e for e in mp.error_stores(F, fid) if e[1] == "err"]
                    if not any(mp.dominated_by(fn, e[0], bad_blk) for e in errs):
                        rep.violation("G-fee", "no-err-on-insufficient-edge", "validate_fee has no Err return on the insufficient edge", {})
    # ---- MF: fee composition ------------------------------------------------------------------
    mf = common.load_table("mustflow.json")["entries"]
    run_mustflow(rep, F, [e for e in mf if "C06" in e["props"]])
    # mock transaction: linear fee computed on fake_full_tx(tx_builder.build())
    rep.rule("DU-mock", "the linear fee is computed on fake_full_tx(tx_builder, tx_builder.build()?); the mock key witnesses are built in a loop bounded by count_needed_vkeys()")
    fid = find_fn(rep, F, "builders::tx_builder::min_fee")
    if fid:
        org = ff.Origins(F, fid)
        for c in F.calls(fid):
            if (c.to or "") == "fees::min_fee":
                rep.inst("DU-mock")
                o = org.of_operand(c.args[0])
                if not any(x.split("@")[0].endswith("fake_full_tx") for x in o if x.startswith("call:")):
                    rep.violation("DU-mock", "min_fee|not-on-mock", "the linear fee is not computed on the mock transaction returned by fake_full_tx", {"origins": sorted(o)[:10]})
                if not any(x.split("@")[0].endswith("TransactionBuilder::build") for x in o if x.startswith("call:")):
                    rep.violation("DU-mock", "min_fee|mock-not-from-build", "the mock transaction is not built from tx_builder.build()", {"origins": sorted(o)[:10]})
            if (c.to or "").endswith("fees::min_script_fee"):
                rep.inst("DU-mock")
                o = org.of_operand(c.args[0])
                if not any(x.split("@")[0].endswith("fake_full_tx") for x in o if x.startswith("call:")):
                    rep.violation("DU-mock", "min_script_fee|not-on-mock", "the script fee is not computed on the mock transaction", {})
    fid = find_fn(rep, F, "builders::tx_builder::fake_full_tx")
    if fid:
        org = ff.Origins(F, fid)
        fl = mustflow.FnFlow(F, fid)
        for callee, what in (("Vkeywitnesses::add", "mock key witnesses"), ("BootstrapWitnesses::add", "mock bootstrap witnesses")):
            rep.inst("DU-mock")
            cs = [c for c in F.calls(fid) if (c.to or "").endswith(callee)]
            if not cs:
                rep.violation("DU-mock", "fake_full_tx|%s|missing" % callee, "fake_full_tx no longer adds %s" % what, {})
            for c in cs:
                r = fl.run(("call", c.bb))
                if not r or not all(x["ok"] for x in r):
                    rep.violation("DU-mock", "fake_full_tx|%s|dropped" % callee, "the %s built in fake_full_tx do not reach the returned mock transaction" % what, {})
        # loop bound
        rep.inst("DU-mock")
        bound_ok = False
        for bi, bb in enumerate(F.fns[fid]["bbs"]):
            for st in bb["st"]:
                if st[1] == "=" and st[3][0] == "agg" and st[3][2] == "std::ops::Range":
                    o = set()
                    for x in st[3][4]:
                        o |= org.of_operand(x)
                    if any(x.split("@")[0].endswith("count_needed_vkeys") for x in o if x.startswith("call:")):
                        bound_ok = True
        if not bound_ok:
            rep.violation("DU-mock", "fake_full_tx|bound", "the number of mock key witnesses is not bounded by count_needed_vkeys()", {})
    # ---- placeholder --------------------------------------------------------------------------
    rep.rule("K-placeholder", "TransactionBuilder::min_fee evaluates on a copy whose fee was set to a placeholder >= 2^32 (widest fee encoding in the mock body)")
    fid = find_fn(rep, F, "TransactionBuilder::min_fee")
    if fid:
        rep.inst("K-placeholder")
        fn = F.fns[fid]
        org = ff.Origins(F, fid)
        sf = [c for c in F.calls(fid) if (c.to or "").endswith("::set_final_fee")]
        val = None
        for bb in fn["bbs"]:
            t = bb["t"]
            if t[1] == "call" and (t[2].get("to") or "").endswith("Into<U>>::into"):
                v = const_int(t[3][0])
                if v is not None:
                    val = v
        if not sf:
            rep.violation("K-placeholder", "missing", "TransactionBuilder::min_fee no longer sets a placeholder fee before estimating", {})
        elif val is None or val < (1 << 32):
            rep.violation("K-placeholder", "too-small", "the placeholder fee handed to set_final_fee is %s (< 2^32): the mock body would carry a narrower fee encoding than a real fee can need" % val, {})
        else:
            rep.sample({"rule": "K-placeholder", "value": val})
            # min_fee must be evaluated on the copy that carries the placeholder
            mfc = [c for c in F.calls(fid) if (c.to or "") == "builders::tx_builder::min_fee"]
            if mfc:
                o = org.of_operand(mfc[0].args[0])
                if not any(x.split("@")[0].endswith("Clone>::clone") for x in o if x.startswith("call:")):
                    rep.violation("K-placeholder", "not-on-copy", "min_fee is not evaluated on the copy that carries the placeholder fee", {})
    # ---- POLICY -------------------------------------------------------------------------------
    rep.rule("POLICY", "fee request policy over the ordering domain {new<old, new=old, new>old}: Unspecified -> new; NotLess -> max(new, old); Exactly -> old")
    want = {"Unspecified": {"lt": "new", "eq": "same", "gt": "new"}, "NotLess": {"lt": "old", "eq": "same", "gt": "new"}, "Exactly": {"lt": "old", "eq": "same", "gt": "old"}}
    for key, param in (("TxBuilderFee::get_new_fee", "new_fee"), ("TransactionBuilder::set_final_fee", "fee")):
        fid = find_fn(rep, F, key)
        if not fid:
            continue
        hir = F.hir[fid]
        ms = [n for n in H.walk(hir["body"]) if n[0] == "match" and "TxBuilderFee" in (n[5] or "")]
        rep.inst("POLICY")
        if len(ms) != 1:
            rep.lost("%s: expected one match over TxBuilderFee, found %d" % (key, len(ms)))
            continue
        tab = orderdom.policy_table(ms[0], param)
        rep.sample({"rule": "POLICY", "function": key, "table": tab})
        for v in want:
            rep.inst("POLICY")
            if tab.get(v) != want[v]:
                rep.violation("POLICY", "%s|%s" % (key, v), "%s: fee request %s selects %s over the orderings (new<old, new=old, new>old); required %s" % (key, v, tab.get(v), want[v]), {"function": key})
    # get_fee_if_set: stored fee first, else the request
    # ---- no raw operators on the fee path -----------------------------------------------------
    rep.rule("A-noraw", "no raw integer operator on an amount in the fee composition functions")
    for key in ("builders::tx_builder::min_fee", "TransactionBuilder::min_fee", "TransactionBuilder::validate_fee", "TxBuilderFee::get_new_fee", "TransactionBuilder::set_final_fee", "TransactionBuilder::fee_for_input", "TransactionBuilder::fee_for_output"):
        fid = find_fn(rep, F, key)
        if not fid:
            continue
        rep.inst("A-noraw")
        for sub, op, ty, loc in raw_amount_ops(F, fid, types={"u64", "i64", "u128", "i128"}):
            rep.violation("A-noraw", "%s|%s|%s" % (F.key(sub), op, ty), "%s uses the raw operator %s on %s at %s" % (F.key(sub), op, ty, facts.loc_str(loc, F.fns[sub])), {})
    # signer / witness / reference-script enumerations feeding the size and fee: no variant silently dropped into a wildcard arm
    wildarms.check(rep, F, "C06")
    totaliter.check(rep, F, "C06")
    from ruleutil import placeholder_full_rule
    placeholder_full_rule(rep, F)
    from ruleutil import ref_size_pass_rule
    ref_size_pass_rule(rep, F)
    # REFSIZE-keep: registering a plain reference input never lowers the script size recorded for the same input
    rep.rule("REFSIZE-keep", "TransactionBuilder::add_reference_input records size 0 only for an input that is not registered yet (entry / or_insert): it cannot overwrite the size stored by add_script_reference_input, which the reference-script fee is computed from")
    fid = find_fn(rep, F, "TransactionBuilder::add_reference_input")
    if fid:
        rep.inst("REFSIZE-keep")
        tos = [(c.to or "") for c in F.calls(fid)]
        if any(("HashMap::<" in t or "BTreeMap::<" in t) and t.endswith("::insert") for t in tos) and not any(t.rsplit("::", 1)[-1] in ("contains_key", "get", "entry") for t in tos):
            rep.violation("REFSIZE-keep", "TransactionBuilder::add_reference_input|overwrites", "add_reference_input stores size 0 with an overwriting insert: after add_script_reference_input(x, n) a later add_reference_input(x) erases n and the reference-script fee for x disappears from min_fee (fee below the ledger minimum)", {})
        elif not any(t.rsplit("::", 1)[-1] in ("or_insert", "or_insert_with", "or_default", "insert", "try_insert") for t in tos):
            rep.lost("add_reference_input no longer stores into the reference-input map (re-anchor REFSIZE-keep)")
    # SIB-refsize: the sized reference inputs of a mint cover every kind of script source its plain reference inputs cover
    rep.rule("SIB-refsize", "MintBuilder::get_script_ref_inputs_with_size (what the reference-script fee is computed from) handles every ScriptMint variant that MintBuilder::get_ref_inputs (what is put into the body) handles")
    a_ = F.by_key("MintBuilder::get_script_ref_inputs_with_size")
    b_ = F.by_key("MintBuilder::get_ref_inputs")
    if len(a_) == 1 and len(b_) == 1:
        rep.inst("SIB-refsize")
        va = {v for m in wildarms.matches_with_wild(F, a_[0]) if m["enum"] == "ScriptMint" for v in m["explicit"]}
        vb = {v for m in wildarms.matches_with_wild(F, b_[0]) if m["enum"] == "ScriptMint" for v in m["explicit"]}
        if not vb:
            rep.lost("MintBuilder::get_ref_inputs no longer matches on ScriptMint")
        elif vb - va:
            rep.violation("SIB-refsize", "MintBuilder|%s" % ",".join(sorted(vb - va)), "MintBuilder::get_ref_inputs puts the reference input of a %s mint script into the body, but get_script_ref_inputs_with_size does not report its size: the reference-script fee for that script is missing from min_fee" % "/".join(sorted(vb - va)), {})
    else:
        rep.lost("MintBuilder reference-input functions not found")
    # FEE-coupdate: a fee request replaces whatever fee was computed before
    rep.rule("FEE-coupdate", "every function that stores TransactionBuilder.fee_request (set_fee, set_min_fee) also stores TransactionBuilder.fee: a fee computed by an earlier change calculation cannot outlive a later request - get_fee_if_set prefers the computed fee, so without the reset `set_fee(X)` after add_change_if_needed is silently ignored and build_tx returns the old fee")
    TB__ = "builders::tx_builder::TransactionBuilder"
    n_fr = 0
    for fid_, fn_ in F.fns.items():
        if "/tests/" in fn_["file"] or F.is_derived(fid_):
            continue
        ffs_ = ff.FnFields(F, fid_)
        if not ffs_.stores_to(TB__, "fee_request"):
            continue
        n_fr += 1
        rep.inst("FEE-coupdate")
        if not ffs_.stores_to(TB__, "fee"):
            rep.violation("FEE-coupdate", F.key(fid_), "%s stores the fee request but leaves a previously computed fee in place: after add_change_if_needed (fee 165 853) set_fee(265 853) is ignored and build_tx returns fee 165 853 - neither `used exactly` nor `the build fails`" % F.key(fid_), {})
    rep.floor("functions storing a fee request", 2, n_fr)
    # REFSIZE-all: every source entry of a reference script is added to the total
    import hirq as H_
    from ruleutil import hir_must as _must
    rep.rule("REFSIZE-all", "in TransactionBuilder::get_total_ref_scripts_size every loop over a source of reference scripts (sub-builders, explicit reference inputs, inputs carrying a script) hands each entry to add_to_map on every path of the iteration - no conditional skip: the ledger charges the reference-script fee over inputs and reference inputs together, whether or not the body lists an input twice")
    fid_ = find_fn(rep, F, "TransactionBuilder::get_total_ref_scripts_size")
    if fid_ and fid_ in F.hir:
        loops_ = [n_ for n_ in H_.walk(F.hir[fid_]["body"]) if n_[0] == "for"]
        n_l = 0
        for lp in loops_:
            n_l += 1
            rep.inst("REFSIZE-all")

            def ev_(x):
                return x[0] == "call" and (H_.path_str(x[3]) == "add_to_map" or (x[2] or "").endswith("add_to_map"))
            if not _must(lp[4], ev_):
                rep.violation("REFSIZE-all", "get_total_ref_scripts_size|%s" % (H_.path_str(H_.strip(lp[3])) or "loop"), "get_total_ref_scripts_size can finish an iteration over %s without adding the entry's script size: a reference script held by a UTxO that is both an explicit reference input and a regular input is left out of the tiered reference-script fee (fee 167 437 instead of 227 261 for 4 000 bytes)" % (H_.path_str(H_.strip(lp[3])) or "a source"), {})
        rep.floor("reference-script source loops", 2, n_l)
    from ruleutil import boot_attr_rule
    boot_attr_rule(rep, F)
    from ruleutil import datum_eq_rule
    datum_eq_rule(rep, F)  # the estimate and the emitted witness set agree on which datums exist
    from ruleutil import signer_amount_rule
    signer_amount_rule(rep, F)
    return rep.finish(
        EXPLANATION,
        ["fees::min_fee / min_script_fee / min_ref_script_fee compute the ledger formulas (C15)", "fake witnesses have the byte size of real ones (fakes.rs constants)", "the signer union being complete per source is C18's matrix"],
        ["rustc MIR dominators / def-use, HIR (csl-facts)", "tables/mustflow.json"],
    )
