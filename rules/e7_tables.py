"""E7: sibling tables extracted from HIR `match` expressions, compared with each other and with a spec table."""
import hirq as H


def operand_env_walk(node, env, conds, out, errs, acc_names):
    """collect operands handed to checked_add under path conditions; env maps locals to normalised paths"""
    if not H.is_node(node):
        return
    k = node[0]
    if k == "if":
        cond = node[2]
        if H.is_node(cond) and cond[0] == "letx":
            pat, init = cond[2], cond[3]
            ip = H.path_str(init, env)
            binds = H.pat_bindings(pat)
            v = H.pat_variant(pat) or ""
            pol = "if-some" if v.endswith("Some") else ("if-none" if v.endswith("None") else "if-let")
            env2 = dict(env)
            if ip is not None and len(binds) == 1:
                env2[binds[0]] = ip
            operand_env_walk(init, env, conds, out, errs, acc_names)
            operand_env_walk(node[3], env2, conds + ["%s(%s)" % (pol, ip)], out, errs, acc_names)
            if node[4] is not None:
                neg = {"if-some": "if-none", "if-none": "if-some"}.get(pol, "else-" + pol)
                operand_env_walk(node[4], env, conds + ["%s(%s)" % (neg, ip)], out, errs, acc_names)
            return
        operand_env_walk(cond, env, conds, out, errs, acc_names)
        cp = H.path_str(cond, env)
        operand_env_walk(node[3], env, conds + ["if(%s)" % cp], out, errs, acc_names)
        if node[4] is not None:
            operand_env_walk(node[4], env, conds + ["else(%s)" % cp], out, errs, acc_names)
        return
    if k == "mcall" and node[2] in ("checked_add", "checked_sub", "checked_mul", "clamped_sub"):
        recv = H.path_str(node[4], env)
        arg = H.path_str(node[5][0], env) if node[5] else None
        s = arg if arg is not None else "?expr"
        if node[2] != "checked_add":
            s = node[2] + ":" + s
        if conds:
            s += "|" + "|".join(conds)
        out.append(s)
        if recv not in acc_names:
            errs.append("receiver of %s is `%s`, not the accumulator %s (line %d)" % (node[2], recv, sorted(acc_names), node[1]))
        # do not descend into the receiver/arg again for nested calls
        for a in node[5]:
            operand_env_walk(a, env, conds, out, errs, acc_names)
        operand_env_walk(node[4], env, conds, out, errs, acc_names)
        return
    if k in ("binary", "assignop") and node[2] in ("Add", "Sub", "Mul", "Div", "Rem"):
        errs.append("raw arithmetic operator %s (line %d)" % (node[2], node[1]))
    for c in H.children(node):
        operand_env_walk(c, env, conds, out, errs, acc_names)


def cert_table(F, hir, enum_suffix, param_names, acc_names):
    """-> (table: variant -> sorted operands, wild_operands, errs, n_matches)"""
    table = {}
    wild = []
    errs = []
    n = 0
    env0 = {p: "param:" + p for p in param_names}
    for node in H.walk(hir["body"]):
        if node[0] != "match":
            continue
        sty = node[5] or ""
        if not sty.replace("&", "").strip().endswith(enum_suffix):
            continue
        n += 1
        for pat, guard, body in node[3]:
            for alt in H.pat_alternatives(pat):
                ops = []
                env = dict(env0)
                for b in H.pat_bindings(alt):
                    env[b] = "$v"
                operand_env_walk(body, env, [], ops, errs, acc_names)
                if guard is not None:
                    errs.append("match guard on a certificate arm (line %d)" % node[1])
                v = H.pat_variant(alt)
                if v is None or H.pat_is_wild(alt):
                    wild.extend(ops)
                else:
                    table.setdefault(H.short(v), [])
                    table[H.short(v)] = sorted(set(table[H.short(v)]) | set(ops))
    table = {k: v for k, v in table.items() if v}
    return table, wild, errs, n


def bind_walk(node, env, conds, out, methods, recv_names=None):
    """Generalised collector: operands handed to any method in `methods` (e.g. add/extend on a signer set), resolving
    `if let PAT(x) = expr` bindings to paths and recording the branch (pattern variant) they sit in."""
    if not H.is_node(node):
        return
    k = node[0]
    if k == "if":
        cond = node[2]
        if H.is_node(cond) and cond[0] == "letx":
            pat, init = cond[2], cond[3]
            ip = H.path_str(init, env)
            binds = H.pat_bindings(pat)
            v = H.short(H.pat_variant(pat) or "?")
            env2 = dict(env)
            if ip is not None and len(binds) == 1:
                env2[binds[0]] = "%s~%s" % (ip, v)
            bind_walk(init, env, conds, out, methods, recv_names)
            bind_walk(node[3], env2, conds, out, methods, recv_names)
            if node[4] is not None:
                bind_walk(node[4], env, conds + ["else~%s(%s)" % (v, ip)], out, methods, recv_names)
            return
        cp = H.path_str(cond, env)
        bind_walk(cond, env, conds, out, methods, recv_names)
        bind_walk(node[3], env, conds + ["if(%s)" % cp], out, methods, recv_names)
        if node[4] is not None:
            bind_walk(node[4], env, conds + ["else(%s)" % cp], out, methods, recv_names)
        return
    if k == "mcall" and node[2] in methods:
        recv = H.path_str(node[4], env)
        if recv_names is None or recv in recv_names:
            arg = H.path_str(node[5][0], env) if node[5] else None
            s = "%s(%s)" % (node[2], arg if arg is not None else "?expr")
            if conds:
                s += "|" + "|".join(conds)
            out.append(s)
    for c in H.children(node):
        bind_walk(c, env, conds, out, methods, recv_names)


def variant_table(hir, enum_suffix, methods, recv_names=None, params=()):
    """match over `enum_suffix` -> {variant: sorted operands}, wildcard operands, number of matches"""
    table = {}
    wild = []
    n = 0
    has_wild = False
    env0 = {p: "param:" + p for p in params}
    for node in H.walk(hir["body"]):
        if node[0] != "match":
            continue
        sty = (node[5] or "").replace("&", "").replace("mut ", "").strip()
        if not sty.endswith(enum_suffix):
            continue
        n += 1
        for pat, guard, body in node[3]:
            for alt in H.pat_alternatives(pat):
                ops = []
                env = dict(env0)
                for b in H.pat_bindings(alt):
                    env[b] = "$v"
                bind_walk(body, env, [], ops, methods, recv_names)
                v = H.pat_variant(alt)
                if v is None or H.pat_is_wild(alt):
                    has_wild = True
                    wild.extend(ops)
                else:
                    table[H.short(v)] = sorted(set(table.get(H.short(v), [])) | set(ops))
    return table, wild, n, has_wild
