"""E7: sibling tables extracted from HIR `match` expressions, compared with each other and with a spec table."""
import hirq as H


def operand_env_walk(node, env, conds, out, errs, acc_names):
    """collect operands handed to checked_add under path conditions; env maps locals to normalised paths"""
    if not H.is_node(node):
        return
    k = node[0]
    if k == "if":
        cond = node[2]
        if H.is_node(cond) and cond[0] == "letx":
            pat, init = cond[2], cond[3]
            ip = H.path_str(init, env)
            binds = H.pat_bindings(pat)
            v = H.pat_variant(pat) or ""
            pol = "if-some" if v.endswith("Some") else ("if-none" if v.endswith("None") else "if-let")
            env2 = dict(env)
            if ip is not None and len(binds) == 1:
                env2[binds[0]] = ip
            operand_env_walk(init, env, conds, out, errs, acc_names)
            operand_env_walk(node[3], env2, conds + ["%s(%s)" % (pol, ip)], out, errs, acc_names)
            if node[4] is not None:
                neg = {"if-some": "if-none", "if-none": "if-some"}.get(pol, "else-" + pol)
                operand_env_walk(node[4], env, conds + ["%s(%s)" % (neg, ip)], out, errs, acc_names)
            return
        operand_env_walk(cond, env, conds, out, errs, acc_names)
        cp = H.path_str(cond, env)
        operand_env_walk(node[3], env, conds + ["if(%s)" % cp], out, errs, acc_names)
        if node[4] is not None:
            operand_env_walk(node[4], env, conds + ["else(%s)" % cp], out, errs, acc_names)
        return
    if k == "mcall" and node[2] in ("checked_add", "checked_sub", "checked_mul", "clamped_sub"):
        recv = H.path_str(node[4], env)
        arg = H.path_str(node[5][0], env) if node[5] else None
        s = arg if arg is not None else "?expr"
        if node[2] != "checked_add":
            s = node[2] + ":" + s
        if conds:
            s += "|" + "|".join(conds)
        out.append(s)
        if recv not in acc_names:
            errs.append("receiver of %s is `%s`, not the accumulator %s (line %d)" % (node[2], recv, sorted(acc_names), node[1]))
        # do not descend into the receiver/arg again for nested calls
        for a in node[5]:
            operand_env_walk(a, env, conds, out, errs, acc_names)
        operand_env_walk(node[4], env, conds, out, errs, acc_names)
        return
    if k in ("binary", "assignop") and node[2] in ("Add", "Sub", "Mul", "Div", "Rem"):
        errs.append("raw arithmetic operator %s (line %d)" % (node[2], node[1]))
    for c in H.children(node):
        operand_env_walk(c, env, conds, out, errs, acc_names)


class ShapeUnknown(Exception):
    pass


def select_value(node, env, conds, out):
    """operands denoted by an expression that *selects* an amount (the addition happens once, after the match):
    a path, `match p { Some(x) => .., None => .. }`, `if let Some(x) = p {..} else {..}`, `p.as_ref().unwrap_or(q)`;
    `continue` / unit select nothing. Raises ShapeUnknown for anything else."""
    n = H.strip(node)
    if not H.is_node(n):
        raise ShapeUnknown("non-node")
    k = n[0]
    if k in ("continue",) or (k == "tup" and not n[2]):
        return
    if k == "block":
        if n[2]:
            raise ShapeUnknown("statements in a selecting block")
        if n[3] is None:
            return
        return select_value(n[3], env, conds, out)
    if k == "call" and str(n[2] or "").endswith("Ok") and len(n[4]) == 1 and H.path_str(n[4][0], env) is not None and not str(H.path_str(n[4][0], env)).startswith(("$v", "param:")):
        return  # Ok(acc): nothing added
    if k == "mcall" and n[2] in ("unwrap_or",) and len(n[5]) == 1:
        p = H.path_str(n[4], env)
        if p is not None and p.endswith(".as_ref()"):
            p = p[: -len(".as_ref()")]
        q = H.path_str(n[5][0], env)
        if p is None or q is None:
            raise ShapeUnknown("unwrap_or operands")
        out.append("|".join([p] + conds + ["if-some(%s)" % p]))
        out.append("|".join([q] + conds + ["if-none(%s)" % p]))
        return
    if k == "match":
        ip = H.path_str(n[2], env)
        if ip is None:
            raise ShapeUnknown("match on a computed value")
        for pat, guard, body in n[3]:
            if guard is not None:
                raise ShapeUnknown("guard")
            v = H.pat_variant(pat) or ""
            binds = H.pat_bindings(pat)
            env2 = dict(env)
            if v.endswith("Some"):
                if len(binds) == 1:
                    env2[binds[0]] = ip
                select_value(body, env2, conds + ["if-some(%s)" % ip], out)
            elif v.endswith("None"):
                select_value(body, env2, conds + ["if-none(%s)" % ip], out)
            else:
                raise ShapeUnknown("match arm %s" % v)
        return
    if k == "if" and H.is_node(n[2]) and n[2][0] == "letx" and n[4] is not None:
        pat, init = n[2][2], n[2][3]
        ip = H.path_str(init, env)
        v = H.pat_variant(pat) or ""
        binds = H.pat_bindings(pat)
        if ip is None or not v.endswith("Some"):
            raise ShapeUnknown("if let")
        env2 = dict(env)
        if len(binds) == 1:
            env2[binds[0]] = ip
        select_value(n[3], env2, conds + ["if-some(%s)" % ip], out)
        select_value(n[4], env, conds + ["if-none(%s)" % ip], out)
        return
    p = H.path_str(n, env)
    if p is not None:
        out.append("|".join([p] + conds))
        return
    raise ShapeUnknown("expression kind %s" % k)


def _selected_matches(body, enum_suffix, acc_names):
    """id(match node) for `let X = match <CertificateEnum> {..}` whose X is later handed to checked_add on an accumulator"""
    out = {}
    for b in H.walk(body):
        if b[0] != "block":
            continue
        for i, st in enumerate(b[2]):
            if st[0] != "let" or st[3] is None:
                continue
            init = H.strip(st[3])
            if not (H.is_node(init) and init[0] == "match" and (init[5] or "").replace("&", "").strip().endswith(enum_suffix)):
                continue
            names = H.pat_bindings(st[2])
            if len(names) != 1:
                continue
            rest = ["block", 0, b[2][i + 1:], b[3]]
            for m in H.walk(rest):
                if m[0] == "mcall" and m[2] == "checked_add" and m[5] and H.path_str(m[5][0]) == names[0] and H.path_str(m[4]) in acc_names:
                    out[id(init)] = names[0]
    return out


def acc_names_of(hir):
    """names that are accumulators by construction: `let mut x = <T>::zero()` and the first parameter of a closure handed to
    fold / try_fold (so that renaming a local does not change the verdict)"""
    out = set()
    for n in H.walk(hir["body"]):
        if n[0] == "block":
            for st in n[2]:
                if st[0] == "let" and st[3] is not None:
                    init = H.strip(st[3])
                    if H.is_node(init) and init[0] == "call" and str(init[2] or "").endswith("::zero") and not init[4]:
                        out |= set(H.pat_bindings(st[2]))
        if n[0] == "mcall" and n[2] in ("fold", "try_fold") and len(n[5]) == 2 and H.is_node(n[5][1]) and n[5][1][0] == "closure" and n[5][1][3]:
            b = H.pat_bindings(n[5][1][3][0])
            if b:
                out.add(b[0])
    return out


def cert_table(F, hir, enum_suffix, param_names, acc_names):
    """-> (table: variant -> sorted operands, wild_operands, errs, n_matches)"""
    acc_names = set(acc_names) | acc_names_of(hir)
    table = {}
    wild = []
    errs = []
    n = 0
    env0 = {p: "param:" + p for p in param_names}
    selected = _selected_matches(hir["body"], enum_suffix, acc_names)
    for node in H.walk(hir["body"]):
        if node[0] != "match":
            continue
        sty = node[5] or ""
        if not sty.replace("&", "").strip().endswith(enum_suffix):
            continue
        n += 1
        for pat, guard, body in node[3]:
            for alt in H.pat_alternatives(pat):
                ops = []
                env = dict(env0)
                for b in H.pat_bindings(alt):
                    env[b] = "$v"
                operand_env_walk(body, env, [], ops, errs, acc_names)
                if not ops and id(node) in selected:
                    # the arms only select the amount; one checked_add on the accumulator follows the match
                    try:
                        select_value(body, env, [], ops)
                    except ShapeUnknown as e:
                        errs.append("SHAPE: arm value not understood (%s, line %d)" % (e, node[1]))
                if guard is not None:
                    errs.append("match guard on a certificate arm (line %d)" % node[1])
                v = H.pat_variant(alt)
                if v is None or H.pat_is_wild(alt):
                    wild.extend(ops)
                else:
                    table.setdefault(H.short(v), [])
                    table[H.short(v)] = sorted(set(table[H.short(v)]) | set(ops))
    table = {k: v for k, v in table.items() if v}
    return table, wild, errs, n


def bind_walk(node, env, conds, out, methods, recv_names=None):
    """Generalised collector: operands handed to any method in `methods` (e.g. add/extend on a signer set), resolving
    `if let PAT(x) = expr` bindings to paths and recording the branch (pattern variant) they sit in."""
    if not H.is_node(node):
        return
    k = node[0]
    if k == "if":
        cond = node[2]
        if H.is_node(cond) and cond[0] == "letx":
            pat, init = cond[2], cond[3]
            ip = H.path_str(init, env)
            binds = H.pat_bindings(pat)
            v = H.short(H.pat_variant(pat) or "?")
            env2 = dict(env)
            if ip is not None and len(binds) == 1:
                env2[binds[0]] = "%s~%s" % (ip, v)
            bind_walk(init, env, conds, out, methods, recv_names)
            bind_walk(node[3], env2, conds, out, methods, recv_names)
            if node[4] is not None:
                bind_walk(node[4], env, conds + ["else~%s(%s)" % (v, ip)], out, methods, recv_names)
            return
        cp = H.path_str(cond, env)
        bind_walk(cond, env, conds, out, methods, recv_names)
        bind_walk(node[3], env, conds + ["if(%s)" % cp], out, methods, recv_names)
        if node[4] is not None:
            bind_walk(node[4], env, conds + ["else(%s)" % cp], out, methods, recv_names)
        return
    if k == "mcall" and node[2] in methods:
        recv = H.path_str(node[4], env)
        if recv_names is None or recv in recv_names:
            arg = H.path_str(node[5][0], env) if node[5] else None
            s = "%s(%s)" % (node[2], arg if arg is not None else "?expr")
            if conds:
                s += "|" + "|".join(conds)
            out.append(s)
    for c in H.children(node):
        bind_walk(c, env, conds, out, methods, recv_names)


def variant_table(hir, enum_suffix, methods, recv_names=None, params=()):
    """match over `enum_suffix` -> {variant: sorted operands}, wildcard operands, number of matches"""
    table = {}
    wild = []
    n = 0
    has_wild = False
    env0 = {p: "param:" + p for p in params}
    for node in H.walk(hir["body"]):
        if node[0] != "match":
            continue
        sty = (node[5] or "").replace("&", "").replace("mut ", "").strip()
        if not sty.endswith(enum_suffix):
            continue
        n += 1
        for pat, guard, body in node[3]:
            for alt in H.pat_alternatives(pat):
                ops = []
                env = dict(env0)
                for b in H.pat_bindings(alt):
                    env[b] = "$v"
                bind_walk(body, env, [], ops, methods, recv_names)
                v = H.pat_variant(alt)
                if v is None or H.pat_is_wild(alt):
                    has_wild = True
                    wild.extend(ops)
                else:
                    table[H.short(v)] = sorted(set(table.get(H.short(v), [])) | set(ops))
    return table, wild, n, has_wild
