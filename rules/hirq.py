"""Helpers over the HIR JSON dumped by csl-facts (see engine/csl-facts/src/hirdump.rs for the node shapes)."""

EXPR_KINDS = {
    "lit", "path", "call", "mcall", "field", "unary", "binary", "assign", "assignop", "cast", "ref", "letx", "if",
    "match", "try", "for", "loop", "block", "closure", "ret", "break", "continue", "struct", "tup", "array", "repeat",
    "index", "other", "deep",
}


def is_node(x):
    return isinstance(x, list) and x and isinstance(x[0], str)


def children(n):
    """direct child expression nodes (not patterns)"""
    k = n[0]
    if k == "block":
        for st in n[2]:
            if st[0] == "let":
                if st[3] is not None:
                    yield st[3]
                if st[4] is not None:
                    yield st[4]
            else:
                yield st[2]
        if n[3] is not None:
            yield n[3]
    elif k == "call":
        yield n[3]
        for a in n[4]:
            yield a
    elif k == "mcall":
        yield n[4]
        for a in n[5]:
            yield a
    elif k == "field":
        yield n[2]
    elif k == "unary":
        yield n[3]
    elif k == "binary":
        yield n[3]
        yield n[4]
    elif k == "assign":
        yield n[2]
        yield n[3]
    elif k == "assignop":
        yield n[3]
        yield n[4]
    elif k == "cast":
        yield n[2]
    elif k == "ref":
        yield n[3]
    elif k == "letx":
        yield n[3]
    elif k == "if":
        yield n[2]
        yield n[3]
        if n[4] is not None:
            yield n[4]
    elif k == "match":
        yield n[2]
        for arm in n[3]:
            if arm[1] is not None:
                yield arm[1]
            yield arm[2]
    elif k == "try":
        yield n[2]
    elif k == "for":
        yield n[3]
        yield n[4]
    elif k == "loop":
        yield n[2]
    elif k == "closure":
        yield n[4]
    elif k in ("ret", "break"):
        if n[2] is not None:
            yield n[2]
    elif k == "struct":
        for f in n[3]:
            yield f[1]
        if n[4] is not None:
            yield n[4]
    elif k in ("tup", "array"):
        for a in n[2]:
            yield a
    elif k == "repeat":
        yield n[2]
    elif k == "index":
        yield n[2]
        yield n[3]


def walk(n):
    """pre-order over all expression nodes"""
    stack = [n]
    while stack:
        x = stack.pop()
        if not is_node(x):
            continue
        yield x
        ch = list(children(x))
        stack.extend(reversed(ch))


def strip(n):
    """peel refs, single-expression blocks, try, clone()/as_ref()/deref() method wrappers"""
    while is_node(n):
        k = n[0]
        if k == "ref":
            n = n[3]
        elif k == "block" and not n[2] and n[3] is not None:
            n = n[3]
        elif k == "unary" and n[2] == "Deref":
            n = n[3]
        elif k == "mcall" and n[2] in ("clone", "as_ref", "deref", "borrow", "to_owned", "as_mut", "into") and not n[5]:
            n = n[4]
        elif k == "cast":
            n = n[2]
        else:
            break
    return n


def path_str(n, env=None):
    """field path rooted at a local: self.a.b -> 'self.a.b'; None if not a pure path"""
    n = strip(n)
    if not is_node(n):
        return None
    if n[0] == "path":
        r = n[2]
        if r[0] == "local":
            nm = r[1]
            if env and nm in env:
                return env[nm]
            return nm
        if r[0] == "def":
            return "def:" + r[2]
        return None
    if n[0] == "field":
        b = path_str(n[2], env)
        return None if b is None else b + "." + n[3]
    if n[0] == "mcall":
        # accessor-like method; arguments are abstracted as (..)
        b = path_str(n[4], env)
        return None if b is None else b + "." + n[2] + ("()" if not n[5] else "(..)")
    if n[0] == "try":
        return path_str(n[2], env)
    return None


def pat_variant(p):
    """variant / struct path named by a pattern (through refs), or None"""
    while p and p[0] == "pref":
        p = p[1]
    if not p:
        return None
    if p[0] in ("pts", "pstruct"):
        r = p[1]
        if r[0] == "def":
            return r[2]
    if p[0] == "ppath":
        r = p[1]
        if r[0] == "def":
            return r[2]
    return None


def pat_alternatives(p):
    while p and p[0] == "pref":
        p = p[1]
    if p and p[0] == "por":
        out = []
        for q in p[1]:
            out.extend(pat_alternatives(q))
        return out
    return [p]


def pat_bindings(p, out=None):
    """names bound by a pattern (in order)"""
    if out is None:
        out = []
    if not p:
        return out
    k = p[0]
    if k == "bind":
        out.append(p[1])
        if p[3]:
            pat_bindings(p[3], out)
    elif k == "pts":
        for q in p[2]:
            pat_bindings(q, out)
    elif k == "pstruct":
        for f in p[2]:
            pat_bindings(f[1], out)
    elif k in ("por", "ptuple"):
        for q in p[1]:
            pat_bindings(q, out)
    elif k == "pref":
        pat_bindings(p[1], out)
    elif k == "pslice":
        for q in p[1]:
            pat_bindings(q, out)
    return out


def pat_is_wild(p):
    while p and p[0] == "pref":
        p = p[1]
    return bool(p) and (p[0] == "wild" or (p[0] == "bind" and p[3] is None))


def lit_int(n):
    n = strip(n)
    if is_node(n) and n[0] == "lit" and n[2][0] == "int":
        return int(n[2][1])
    return None


def short(path):
    return path.rsplit("::", 1)[-1] if path else path


def calls_in(n, name=None):
    for x in walk(n):
        if x[0] == "mcall" and (name is None or x[2] == name):
            yield x
        elif x[0] == "call" and (name is None or (x[2] or "").endswith("::" + name)):
            yield x
