"""PARTIAL-iter: inventory of element-dropping iterator adaptors in the builders.

A collector that is meant to visit every element of a builder collection (signers, witnesses, reference inputs, sizes) and
instead takes `.next()`, `.nth()`, `.take(n)`, `.filter(..)`, `.find(..)`, `.last()` ... silently ignores the rest; it compiles and
no test with one element per group notices.  Every such adaptor in src/builders is listed in tables/partial_iter.json with the
reason it is legitimate; anything beyond the audited count is reported."""
import re

import common

DROP = re.compile(r"(Iterator::(nth|take|skip|step_by|take_while|skip_while|find|find_map|filter|filter_map|last|position|min|max|min_by_key|max_by_key|min_by|max_by|next_back|rfind|reduce)$"
                  r"|Iterator>::next$|Iterator>::nth$|slice::<impl \[T\]>::(first|last|split_first|split_last)$|::first_key_value$|::last_key_value$|::pop_first$|::pop_last$)")


ROOTS = ["builders::tx_builder::fake_full_tx", "builders::tx_builder::count_needed_vkeys", "builders::tx_builder::min_fee", "TransactionBuilder::get_witness_set",
         "TransactionBuilder::calc_script_data_hash", "TransactionBuilder::build_and_size", "TransactionBuilder::get_total_ref_scripts_size", "TransactionBuilder::get_reference_inputs"]


def scope(F):
    """builder functions reachable from the size / fee / witness-set / body entry points (collectors), closures included"""
    seen, work = set(), []
    for r in ROOTS:
        work += F.by_key(r)
    while work:
        f = work.pop()
        if f in seen:
            continue
        seen.add(f)
        for sub in [f] + [c for c in F.fns if c.startswith(f + "::{closure")]:
            seen.add(sub)
            for c in F.calls(sub):
                if c.to in F.fns and c.to not in seen:
                    work.append(c.to)
    return seen


def sites(F, prefix="src/builders/"):
    out = {}
    sc = scope(F)
    for fid, fn in F.fns.items():
        if "/tests/" in fn["file"] or F.is_derived(fid) or not fn["file"].startswith(prefix) or fid not in sc:
            continue
        base = F.key(fid.split("::{closure")[0])
        for c in F.calls(fid):
            to = c.to or ""
            if not DROP.search(to):
                continue
            loc = fn["bbs"][c.bb]["t"][0]
            if to.endswith(">::next") and isinstance(loc, dict) and loc.get("ds") == "ForLoop":
                continue  # the `for` desugaring
            short = "next" if to.endswith(">::next") else to.rsplit("::", 1)[-1]
            out.setdefault((base, short), []).append(loc)
    return out


def presence_only(F, base_key):
    """every closure handed to Iterator::filter in the function calls nothing but Option::is_some / is_none (a selection by
    presence, e.g. `filter(|(_, (_, hash))| hash.is_some())`)"""
    ids = F.by_key(base_key)
    if len(ids) != 1:
        return False
    import fieldflow as ff
    subs = [ids[0]] + [c for c in F.fns if c.startswith(ids[0] + "::{closure")]
    found = False
    for sub in subs:
        org = None
        fn = F.fns[sub]
        for c in F.calls(sub):
            if not (c.to or "").endswith("Iterator::filter"):
                continue
            org = org or ff.Origins(F, sub)
            cls = [x[8:] for a in fn["bbs"][c.bb]["t"][3] for x in org.of_operand(a) if x.startswith("closure:")]
            if not cls:
                return False
            for cl in cls:
                found = True
                tos = [k.to or "" for k in F.calls(cl)] if cl in F.fns else ["?"]
                if not all(t.endswith(("Option::<T>::is_some", "Option::<T>::is_none")) for t in tos):
                    return False
    return found


def check(rep, F, prop=None):
    tab = common.load_table("partial_iter.json")["entries"]
    allowed = {(e["fn"], e["adaptor"]): e for e in tab}
    rep.rule("PARTIAL-iter", "every element-dropping iterator adaptor (next / nth / take / skip / filter / find / last / position ...) in builder code is on the audited list: collectors visit their whole collection")
    got = sites(F)
    n = 0
    for (fn, ad), locs in sorted(got.items()):
        n += len(locs)
        rep.inst("PARTIAL-iter", len(locs))
        e = allowed.get((fn, ad))
        if e and len(locs) <= e["count"]:
            rep.allow("PARTIAL-iter", len(locs))
            continue
        if ad == "filter" and presence_only(F, fn):
            rep.lost("%s applies a new `filter` whose predicate only tests the presence of an Option component (is_some / is_none): whether that drops more than the code it replaces cannot be decided here - add an audit line to tables/partial_iter.json" % fn)
            continue
        rep.violation("PARTIAL-iter", "%s|%s" % (fn, ad), "%s applies `%s` to an iterator (%d site(s), %d audited): only part of the collection is visited - elements (signers, witnesses, reference scripts, amounts) of the rest are silently ignored" % (fn, ad, len(locs), e["count"] if e else 0), {"function": fn, "adaptor": ad})
    rep.floor("element-dropping adaptor sites inventoried in collector code (closure of the size / fee / witness entry points)", 12, n)
