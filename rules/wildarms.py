"""WILD-arms: a match with a wildcard arm must keep the explicitly handled variants of the audited reference
(tables/wildarms.json).  A deleted arm silently falls into the wildcard and compiles; additions are not flagged."""
import hirq as H
import common


def matches_with_wild(F, fid):
    h = F.hir.get(fid)
    out = []
    if not h:
        return out
    per_enum = {}
    for n in H.walk(h["body"]):
        if n[0] != "match":
            continue
        sty = (n[5] or "").replace("&", "").replace("mut ", "").strip()
        base = sty.split("<")[0]
        if base not in F.adts or F.adts[base]["kind"] != "enum":
            continue
        explicit = set()
        wild = False
        for pat, g, body in n[3]:
            for alt in H.pat_alternatives(pat):
                v = H.pat_variant(alt)
                if v and not H.pat_is_wild(alt):
                    explicit.add(H.short(v))
                else:
                    wild = True
        # nested Option<Enum> patterns: Some(Enum::X(..)) are not handled here
        ordn = per_enum.get(base, 0)
        per_enum[base] = ordn + 1
        out.append({"enum": H.short(base), "ordinal": ordn, "explicit": sorted(explicit), "wild": wild, "line": n[1]})
    return out


def check(rep, F, prop):
    tab = common.load_table("wildarms.json")["entries"]
    mine = [e for e in tab if prop in e["props"]]
    rep.rule("WILD-arms", "a match with a wildcard arm still names every variant the audited reference names (a deleted arm would silently fall into the wildcard)")
    for e in mine:
        ids = F.by_key(e["fn"])
        if len(ids) != 1:
            rep.lost("wildarms anchor %s not found" % e["fn"])
            continue
        ms = [m for m in matches_with_wild(F, ids[0]) if m["enum"] == e["enum"] and m["ordinal"] == e["ordinal"]]
        rep.inst("WILD-arms")
        if not ms:
            rep.lost("wildarms: %s no longer matches on %s (#%d)" % (e["fn"], e["enum"], e["ordinal"]))
            continue
        m = ms[0]
        if not m["wild"]:
            continue  # became exhaustive: the compiler now guards it
        missing = sorted(set(e["explicit"]) - set(m["explicit"]))
        if missing:
            rep.violation("WILD-arms", "%s|%s#%d|%s" % (e["fn"], e["enum"], e["ordinal"], ",".join(missing)),
                          "%s: the match over %s no longer handles %s explicitly; those variants now fall into the wildcard arm (%s)" % (e["fn"], e["enum"], missing, e.get("why", "")),
                          {"function": e["fn"], "file": F.hir[ids[0]]["file"], "line": m["line"], "reference": e["explicit"], "now": m["explicit"]})
