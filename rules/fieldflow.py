"""E4 fieldflow: who stores / borrows which field, struct-literal operands per field, backward origins of a value."""
import re
from collections import defaultdict

FIELD_RE = re.compile(r"f:([^|]*?):([^:|]*):([A-Za-z0-9_]+)$")


def place_fields(pl):
    """[(adt, variant, field)] along a place string, outermost first"""
    out = []
    for seg in pl.split("|")[1:]:
        if seg.startswith("f:"):
            m = FIELD_RE.match(seg)
            if m:
                out.append((m.group(1), m.group(2), m.group(3)))
    return out


def last_field(pl):
    segs = pl.split("|")
    if len(segs) > 1 and segs[-1].startswith("f:"):
        m = FIELD_RE.match(segs[-1])
        if m:
            return (m.group(1), m.group(2), m.group(3))
    return None


class FnFields:
    """per-function inventory of field stores, mutable borrows and struct aggregates"""

    def __init__(self, F, fid):
        self.F = F
        self.fid = fid
        self.fn = F.fns[fid]
        self.stores = []  # (adt, field, bb, si, rvalue or call-term, exact)
        self.mut_borrows = []  # (place, bb)
        self.aggs = []  # (adt, variant, bb, si, dest, ops)
        self.reads = set()
        for bi, bb in enumerate(self.fn["bbs"]):
            if bb["c"]:
                continue
            for si, st in enumerate(bb["st"]):
                if st[1] != "=":
                    continue
                dest, rv = st[2], st[3]
                fs = place_fields(dest)
                if fs:
                    lf = last_field(dest)
                    for (adt, var, fld) in fs:
                        self.stores.append((adt, fld, bi, si, rv, lf == (adt, var, fld), dest))
                if rv[0] == "ref" and rv[1] == "mut":
                    self.mut_borrows.append((rv[2], bi))
                if rv[0] == "agg" and rv[1] == "adt":
                    self.aggs.append((rv[2], rv[3], bi, si, dest, rv[4]))
            t = bb["t"]
            if t[1] == "call":
                fs = place_fields(t[4])
                lf = last_field(t[4])
                for (adt, var, fld) in fs:
                    self.stores.append((adt, fld, bi, len(bb["st"]), ("callres", t), lf == (adt, var, fld), t[4]))
            if t[1] == "drop":
                pass

    def stores_to(self, adt, field, exact=True):
        return [s for s in self.stores if s[0] == adt and s[1] == field and (s[5] or not exact)]

    def aggregates_of(self, adt):
        return [a for a in self.aggs if a[0] == adt]


def field_index(F, adt, field, variant=None):
    a = F.adts.get(adt)
    if not a:
        return None
    for v in a["variants"]:
        if variant in (None, "-", v["name"]) or a["kind"] == "struct":
            for i, f in enumerate(v["fields"]):
                if f["name"] == field:
                    return i
    return None


class Origins:
    """flow-insensitive backward slice: which arguments / calls / self-fields a value is computed from"""

    def __init__(self, F, fid):
        self.F = F
        self.fn = F.fns[fid]
        self.defs = defaultdict(list)
        for bi, bb in enumerate(self.fn["bbs"]):
            for st in bb["st"]:
                if st[1] == "=":
                    self.defs[st[2].split("|")[0]].append(("st", bi, st[2], st[3]))
            t = bb["t"]
            if t[1] == "call":
                self.defs[t[4].split("|")[0]].append(("call", bi, t[4], t))

    def of_operand(self, op, depth=0, seen=None):
        if op is None or op[0] == "k":
            return {"const"} if op is not None and op[0] == "k" and not op[2] else ({"fn:" + op[2]} if op is not None and op[0] == "k" else set())
        if op[0] in ("c", "m"):
            return self.of_place(op[1], depth, seen)
        return set()

    def of_place(self, pl, depth=0, seen=None):
        seen = seen if seen is not None else set()
        out = set()
        base = pl.split("|")[0]
        for (a, v, f) in place_fields(pl):
            out.add("field:%s.%s" % (a, f))
        if base in seen or depth > 40:
            return out
        seen.add(base)
        idx = int(base[1:])
        if 1 <= idx <= self.fn["argc"]:
            out.add("arg:%d" % idx)
        for kind, bi, dest, x in self.defs.get(base, []):
            if kind == "call":
                t = x
                to = t[2].get("to") or "?"
                out.add("call:%s@%d" % (to, bi))
                for a in t[3]:
                    out |= self.of_operand(a, depth + 1, seen)
            else:
                rv = x
                k = rv[0]
                ops = []
                if k in ("use", "repeat"):
                    ops = [rv[1]]
                elif k in ("ref", "rawptr"):
                    out |= self.of_place(rv[2], depth + 1, seen)
                elif k == "cast":
                    ops = [rv[2]]
                elif k == "bin":
                    ops = [rv[2], rv[3]]
                elif k == "un":
                    ops = [rv[2]]
                elif k in ("discr", "deref"):
                    out |= self.of_place(rv[1], depth + 1, seen)
                elif k == "agg":
                    ops = list(rv[4])
                    if rv[1] == "closure":
                        out.add("closure:" + rv[2])
                for o in ops:
                    out |= self.of_operand(o, depth + 1, seen)
        return out

    def call_term(self, bi):
        t = self.fn["bbs"][bi]["t"]
        return t if t[1] == "call" else None


def args_of(origins):
    return {o for o in origins if o.startswith("arg:")}


def calls_of(origins, suffix):
    return [o for o in origins if o.startswith("call:") and o.split("@")[0].endswith(suffix)]
