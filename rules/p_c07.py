"""C07 — minimum-ADA and size limits hold for everything the builder emits (admission gates: E5 dominance + E4 who-may-write)."""
import facts
from e1_panicpath import dominators
import fieldflow as ff
import hirq as H
import mustflow
import mustpass as mp
from mustpass import call_origin, field_origin, has_origin
from ruleutil import find_fn, direct_call_of

TB = "builders::tx_builder::TransactionBuilder"

EXPLANATION = (
    "Admission gates decided on the MIR CFG for all outputs and configurations: (GATE-output) in add_output the push into the "
    "builder's outputs is dominated by the false edge of `serialized value size > max_value_size` and by the false edge of "
    "`coin < min_ada_for_output(output, config)`; (WHO) TransactionBuilder.outputs is extended only by add_output - every other "
    "call of TransactionOutputs::add on that field, every other mutable borrow or store of it is a violation, except the audited "
    "top-up of the last change output inside add_change_if_needed (which only raises the coin of an output admitted through "
    "add_output in the same call); (GATE-size) build() returns Ok only on the false edge of `full_tx_size > max_tx_size` where the "
    "size comes from build_and_size; (K) the UTxO overhead constant is 160 and the size cost is (size + 160) * coins_per_byte with "
    "checked arithmetic; (MF) the required coin is data-derived from the serialized output size and the per-byte price. "
    "Not decided: the bound of the 3-step fixed-point iteration in calculate_ada (numeric); agreement of full_size with the signed size."
)


def fixpoint_rule(rep, F):
    """calculate_ada: a returned coin was computed for an output whose coin field is at least as wide as the returned value"""
    rep.rule("FIX-gate", "every success return of MinOutputAdaCalculator::calculate_ada returns, unchanged, the result of a calc_required_coin call that was made either (a) on an output whose coin is not less than that result (the not-less-than edge of the comparison with the same result) or (b) after the coin field was set to u64::MAX - so the priced size is never smaller than the size of the output that carries the returned coin")
    fid = find_fn(rep, F, "MinOutputAdaCalculator::calculate_ada")
    if not fid:
        return
    fn = F.fns[fid]
    org = ff.Origins(F, fid)
    n = 0
    for bi, kind, loc in mp.success_stores(F, fid):
        tail_call = kind.startswith("call:") and kind.endswith("calc_required_coin")  # `Self::calc_required_coin(..)` returned as is
        if kind != "ok" and not tail_call:
            continue
        n += 1
        rep.inst("FIX-gate")
        ops = None
        for st in fn["bbs"][bi]["st"]:
            if st[1] == "=" and st[2] == "_0" and st[3][0] == "agg":
                ops = st[3][4]
        src = (bi, kind[5:]) if tail_call else (direct_call_of(fn, ops[0]) if ops else None)
        if not src or not src[1].endswith("calc_required_coin"):
            rep.violation("FIX-gate", "calculate_ada|not-a-priced-result", "calculate_ada returns a value (%s) that is not directly the result of calc_required_coin: a coin remembered from an earlier, narrower sizing of the output can be returned" % facts.loc_str(loc, fn), {})
            continue
        cb = src[0]
        ok = False
        # (a) not-less-than edge of less_than(output.coin, this result)
        for s, edge, d in mp.dominating_guards(F, fid, bi, org):
            if d["kind"] == "call" and d["callee"].endswith("BigNum::less_than") and edge == "0" and not d["neg"]:
                a1 = d["args"][1] if len(d["args"]) > 1 else []
                if any(x.startswith("call:") and x.endswith("@%d" % cb) for x in a1) and mp.dominated_by(fn, s, cb):
                    ok = True
            if d["kind"] == "cmp3" and len(d["args"]) == 2 and any(x.startswith("call:") and x.endswith("@%d" % cb) for x in d["args"][1]) and mp.cmp3_implies(edge, "ge") and mp.dominated_by(fn, s, cb):
                ok = True  # match coin.cmp(&required) { Equal | Greater => return Ok(required) }
        # (b) the call is made after a store of u64::MAX into the coin field, in the same block or a dominating one that is outside loops
        if not ok:
            for bj in [cb] + list(dominators(fn, cb)):
                for st in fn["bbs"][bj]["st"]:
                    if st[1] == "=" and st[2].endswith("f:utils::Value:-:coin") and "TransactionOutput" in st[2]:
                        src2 = st[3]
                        if src2[0] == "use" and src2[1][0] in ("c", "m"):
                            # the BigNum aggregate stored
                            for st2 in fn["bbs"][bj]["st"]:
                                if st2[1] == "=" and st2[2] == src2[1][1] and st2[3][0] == "agg" and st2[3][4] and st2[3][4][0][0] == "k" and str(st2[3][4][0][1]).startswith("18446744073709551615"):
                                    if bj == cb:
                                        ok = True
                            # ... or the result of BigNum::max_value()
                            if any(x.startswith("call:") and x.split("@")[0].endswith("BigNum::max_value") for x in org.of_operand(src2[1])) and (bj == cb or bj in dominators(fn, cb)):
                                ok = True
        if not ok:
            rep.violation("FIX-gate", "calculate_ada|ungated-return", "calculate_ada returns the result of a calc_required_coin call (%s) that was neither made on an output already holding at least that coin nor on one with the coin set to u64::MAX" % facts.loc_str(loc, fn), {})
    rep.floor("success returns of calculate_ada", 2, n)


def minada_addr_rule(rep, F):
    """a function that hands out a priced output prices the output's real address, not the 57-byte placeholder of new_empty"""
    import hirq as H
    rep.rule("MINADA-addr", "a function that returns an output / amount priced with MinOutputAdaCalculator::new_empty (whose output carries a 57-byte placeholder address) replaces the placeholder by the real address (set_address) on every calculator before calculate_ada; functions returning only a decision (bool) or asset groups hand their outputs to add_output, whose gate prices the real output (GATE-output)")
    n = 0
    for fid, h in F.hir.items():
        if "/tests/" in h["file"]:
            continue
        calcs = []   # one record per `let x = new_empty(..)`

        def scan(node, cur):
            if not H.is_node(node):
                return
            k = node[0]
            if k == "closure":
                scan(node[4], dict(cur))
                return
            if k == "block":
                cur = dict(cur)
                for st in node[2]:
                    if st[0] == "let":
                        init = st[3]
                        if init is not None:
                            scan(init, cur)
                            if any(x[0] == "call" and (x[2] or "").endswith("MinOutputAdaCalculator::new_empty") for x in H.walk(init)):
                                names = H.pat_bindings(st[2])
                                if len(names) == 1:
                                    calcs.append({"addr": False, "used": False})
                                    cur[list(names)[0]] = len(calcs) - 1
                                else:
                                    calcs.append({"addr": False, "used": True, "anon": True})
                        if st[4] is not None:
                            scan(st[4], cur)
                    else:
                        scan(st[2], cur)
                if node[3] is not None:
                    scan(node[3], cur)
                return
            if k == "mcall" and node[2] in ("set_address", "calculate_ada"):
                r = H.path_str(H.strip(node[4]))
                if r in cur:
                    if node[2] == "set_address":
                        if not calcs[cur[r]]["used"]:
                            calcs[cur[r]]["addr"] = True
                    else:
                        calcs[cur[r]]["used"] = True
            for c in H.children(node):
                scan(c, cur)

        if not any(x[0] == "call" and (x[2] or "").endswith("MinOutputAdaCalculator::new_empty") for x in H.walk(h["body"])):
            continue
        scan(h["body"], {})
        n += 1
        rep.inst("MINADA-addr")
        ret = h.get("ret") or ""
        hands_out = any(t in ret for t in ("TransactionOutput", "BigNum", "Coin", "Value")) and "MultiAsset>" not in ret
        if not hands_out:
            continue
        bad = [c for c in calcs if not c["addr"]]
        if bad:
            rep.violation("MINADA-addr", F.key(fid), "%s returns `%s` priced by %d MinOutputAdaCalculator::new_empty calculator(s) that keep the 57-byte placeholder address: for a longer address (76-byte Byron address) the coin it sets is below coins_per_byte x (160 + real size) - 1 133 530 instead of 1 215 420 at 4310/byte -, for a shorter one it exceeds the bound at the widest coin encoding" % (F.key(fid), ret.replace("std::result::", ""), len(bad)), {})
    rep.floor("functions pricing the placeholder output of new_empty", 4, n)


def helper_value_size_gate(F, fid, bb, org):
    """a `?`-continued call that dominates `bb`, goes to a crate function whose own success return is dominated by the passing
    edge of `serialised length <=> limit` and that receives config.max_value_size: the gate moved into a helper (wrapper-aware,
    one level). -> name of the helper or None"""
    fn = F.fns[fid]
    for c in F.calls(fid):
        to = c.to or ""
        if to not in F.fns or not c.info.get("local"):
            continue
        k = mp.try_continue(F, fid, c)
        if k is None or not mp.dominated_by(fn, bb, k):
            continue
        passes_max = any(any(x.endswith("TransactionBuilderConfig.max_value_size") for x in org.of_operand(a)) for a in fn["bbs"][c.bb]["t"][3])
        horg = ff.Origins(F, to)
        oks = [b for b, kind, loc in mp.success_stores(F, to)]
        if not oks:
            continue
        good = True
        for b in oks:
            g = False
            for s_, edge, d in mp.dominating_guards(F, to, b, horg):
                if d["kind"] == "bin" and d["op"] in ("Gt", "Ge", "Lt", "Le"):
                    l, r = d["lhs"], d["rhs"]
                    lsz = any(x.startswith("call:") and (x.split("@")[0].endswith("::len") or x.split("@")[0].endswith("Value::to_bytes")) for x in l)
                    rsz = any(x.startswith("call:") and (x.split("@")[0].endswith("::len") or x.split("@")[0].endswith("Value::to_bytes")) for x in r)
                    # the limit: the caller's max_value_size handed in as an argument, or read from the config by the helper itself
                    larg = ((passes_max and any(x.startswith("arg:") for x in l)) or any(x.endswith("TransactionBuilderConfig.max_value_size") for x in l)) and not lsz
                    rarg = ((passes_max and any(x.startswith("arg:") for x in r)) or any(x.endswith("TransactionBuilderConfig.max_value_size") for x in r)) and not rsz
                    if lsz and rarg and ((d["op"] in ("Gt", "Ge") and edge == "0") or (d["op"] in ("Le", "Lt") and edge != "0")):
                        g = True
                    if rsz and larg and ((d["op"] in ("Lt", "Le") and edge == "0") or (d["op"] in ("Ge", "Gt") and edge != "0")):
                        g = True
            good = good and g
        if good:
            return to
    return None


def check(rep, F, tier, replay=None):
    # ---- GATE-output --------------------------------------------------------------------------
    rep.rule("GATE-output", "TransactionOutputs::add in add_output is dominated by the passing edges of the value-size and min-ADA comparisons")
    fid = find_fn(rep, F, "TransactionBuilder::add_output")
    if fid:
        fn = F.fns[fid]
        adds = [c for c in F.calls(fid) if (c.to or "").endswith("TransactionOutputs::add")]
        rep.inst("GATE-output")
        if len(adds) != 1:
            rep.violation("GATE-output", "add-count", "add_output pushes to outputs %d times (expected exactly one guarded push)" % len(adds), {})
        for c in adds:
            guards = mp.dominating_guards(F, fid, c.bb)
            size_ok = False
            ada_ok = False
            for s, edge, d in guards:
                if d["kind"] == "bin" and d["op"] in ("Gt", "Ge", "Lt", "Le"):
                    l, r = d["lhs"], d["rhs"]
                    lsz = has_origin(l, call_origin("Value::to_bytes")) or has_origin(l, call_origin("Vec::<T, A>::len"))
                    rmax = has_origin(r, field_origin("TransactionBuilderConfig", "max_value_size"))
                    rsz = has_origin(r, call_origin("Value::to_bytes"))
                    lmax = has_origin(l, field_origin("TransactionBuilderConfig", "max_value_size"))
                    # passing edge: size > max is false (edge 0) ; or max >= size true ...
                    if lsz and rmax and ((d["op"] in ("Gt", "Ge") and edge == "0") or (d["op"] in ("Le", "Lt") and edge != "0")):
                        size_ok = True
                    if lmax and rsz and ((d["op"] in ("Lt", "Le") and edge == "0") or (d["op"] in ("Ge", "Gt") and edge != "0")):
                        size_ok = True
                if d["kind"] == "call" and "PartialOrd" in d["callee"]:
                    op = d["callee"].rsplit("::", 1)[1]
                    a0, a1 = d["args"][0], d["args"][1]
                    coin0 = has_origin(a0, call_origin("Value::coin")) or has_origin(a0, field_origin("utils::Value", "coin"))
                    min1 = has_origin(a1, call_origin("utils::min_ada_for_output"))
                    coin1 = has_origin(a1, call_origin("Value::coin")) or has_origin(a1, field_origin("utils::Value", "coin"))
                    min0 = has_origin(a0, call_origin("utils::min_ada_for_output"))
                    if coin0 and min1 and ((op in ("lt",) and edge == "0") or (op in ("ge",) and edge != "0")):
                        ada_ok = True
                    if min0 and coin1 and ((op in ("gt",) and edge == "0") or (op in ("le",) and edge != "0")):
                        ada_ok = True
                if d["kind"] == "cmp3" and len(d["args"]) == 2:
                    a0, a1 = d["args"]
                    coin0 = has_origin(a0, call_origin("Value::coin")) or has_origin(a0, field_origin("utils::Value", "coin"))
                    min1 = has_origin(a1, call_origin("utils::min_ada_for_output"))
                    coin1 = has_origin(a1, call_origin("Value::coin")) or has_origin(a1, field_origin("utils::Value", "coin"))
                    min0 = has_origin(a0, call_origin("utils::min_ada_for_output"))
                    if (coin0 and min1 and mp.cmp3_implies(edge, "ge")) or (min0 and coin1 and mp.cmp3_implies(edge, "le")):
                        ada_ok = True
                    lsz = has_origin(a0, call_origin("Value::to_bytes")) or has_origin(a0, call_origin("Vec::<T, A>::len"))
                    rmax = has_origin(a1, field_origin("TransactionBuilderConfig", "max_value_size"))
                    if lsz and rmax and mp.cmp3_implies(edge, "le"):
                        size_ok = True
            if not size_ok and helper_value_size_gate(F, fid, c.bb, ff.Origins(F, fid)):
                size_ok = True
            rep.inst("GATE-output", 2)
            if not size_ok:
                rep.violation("GATE-output", "value-size", "add_output admits an output at %s without having passed the `value size <= max_value_size` comparison" % facts.loc_str(c.loc, fn), {"guards": [(g[1], g[2].get("op") or g[2].get("callee")) for g in guards]})
            if not ada_ok:
                rep.violation("GATE-output", "min-ada", "add_output admits an output at %s without having passed the `coin >= min_ada_for_output` comparison" % facts.loc_str(c.loc, fn), {"guards": [(g[1], g[2].get("op") or g[2].get("callee")) for g in guards]})
            if size_ok and ada_ok:
                rep.sample({"rule": "GATE-output", "push": facts.loc_str(c.loc, fn), "dominating_guards": len(guards)})
    # ---- WHO ------------------------------------------------------------------------------------
    rep.rule("WHO-outputs", "TransactionBuilder.outputs is extended / mutably borrowed / stored only by add_output (and the audited change top-up)")
    allow_mut = {"TransactionBuilder::add_output": "the gate itself", "TransactionBuilder::add_change_if_needed_with_optional_script_and_datum": "top-up: raises the coin of the last change output, which was admitted through add_output earlier in the same call"}
    n = 0
    for f2, fn2 in F.fns.items():
        if F.is_derived(f2):
            continue
        key = F.key(f2).split("::{closure")[0]
        ffs = ff.FnFields(F, f2)
        org = None
        for c in F.calls(f2):
            if (c.to or "").endswith("TransactionOutputs::add"):
                org = org or ff.Origins(F, f2)
                o = org.of_operand(c.args[0])
                if has_origin(o, field_origin(TB, "outputs")):
                    n += 1
                    rep.inst("WHO-outputs")
                    if key != "TransactionBuilder::add_output":
                        rep.violation("WHO-outputs", "%s|add" % key, "%s appends to TransactionBuilder.outputs directly (%s), bypassing the value-size and min-ADA checks of add_output" % (key, facts.loc_str(c.loc, fn2)), {"function": f2, "file": fn2["file"]})
        for pl, bi in ffs.mut_borrows:
            if ("f:%s:-:outputs" % TB) in pl:
                n += 1
                rep.inst("WHO-outputs")
                if key not in allow_mut:
                    rep.violation("WHO-outputs", "%s|mut-borrow" % key, "%s takes a mutable borrow of TransactionBuilder.outputs: outputs can be changed without the admission checks" % key, {"function": f2})
                else:
                    rep.allow("WHO-outputs")
        for s in ffs.stores:
            if s[0] == TB and s[1] == "outputs":
                n += 1
                rep.inst("WHO-outputs")
                if key not in allow_mut:
                    rep.violation("WHO-outputs", "%s|store" % key, "%s stores into TransactionBuilder.outputs without the admission checks" % key, {"function": f2})
    rep.floor("uses of TransactionBuilder.outputs as a mutable place", 2, n)
    # the top-up only adds to the coin/amount of the last element: it must be an assignment computed by checked_add from the same element
    # ---- GATE-size ------------------------------------------------------------------------------
    rep.rule("GATE-size", "build() returns Ok only on the false edge of `full_tx_size > max_tx_size` (size from build_and_size)")
    fid = find_fn(rep, F, "TransactionBuilder::build")
    if fid:
        fn = F.fns[fid]
        rep.inst("GATE-size")
        oks = [s for s in mp.success_stores(F, fid) if s[1] == "ok"]
        if not oks:
            rep.violation("GATE-size", "no-ok", "build() has no explicit Ok return to gate", {})
        for bi, kind, loc in oks:
            good = False
            for s, edge, d in mp.dominating_guards(F, fid, bi):
                if d["kind"] == "bin" and d["op"] in ("Gt", "Ge") and edge == "0" and has_origin(d["lhs"], call_origin("build_and_size")) and has_origin(d["rhs"], field_origin("TransactionBuilderConfig", "max_tx_size")):
                    good = True
                if d["kind"] == "bin" and d["op"] in ("Le", "Lt") and edge != "0" and has_origin(d["lhs"], call_origin("build_and_size")) and has_origin(d["rhs"], field_origin("TransactionBuilderConfig", "max_tx_size")):
                    good = True
            if not good:
                rep.violation("GATE-size", "bypass", "build() can return Ok at %s without the transaction size having been compared with max_tx_size" % facts.loc_str(loc, fn), {})
    # ---- K: overhead constant -----------------------------------------------------------------
    rep.rule("K-overhead", "calc_size_cost = (size + 160) * coins_per_byte with checked_add / checked_mul")
    fid = find_fn(rep, F, "MinOutputAdaCalculator::calc_size_cost")
    if fid:
        rep.inst("K-overhead")
        hir = F.hir[fid]
        adds = list(H.calls_in(hir["body"], "checked_add"))
        muls = list(H.calls_in(hir["body"], "checked_mul"))
        k = None
        for a in adds:
            for x in H.walk(a[5][0]):
                v = H.lit_int(x)
                if v is not None:
                    k = v
        if len(adds) != 1 or len(muls) != 1 or k != 160:
            rep.violation("K-overhead", "constant", "calc_size_cost: expected one checked_add of the constant 160 and one checked_mul; found %d adds (constant %s), %d muls" % (len(adds), k, len(muls)), {})
        elif "coins_per_byte" not in (H.path_str(muls[0][5][0]) or ""):
            rep.violation("K-overhead", "price", "calc_size_cost no longer multiplies by data_cost.coins_per_byte()", {})
        fl = mustflow.FnFlow(F, fid)
        for k_arg, what in ((1, "data cost"), (2, "size")):
            rep.inst("K-overhead")
            r = fl.run(("arg", k_arg))
            if not r or not all(x["ok"] for x in r):
                rep.violation("K-overhead", "arg%d" % k_arg, "calc_size_cost's result is not derived from its %s argument on every path" % what, {})
    fid = find_fn(rep, F, "MinOutputAdaCalculator::calc_required_coin")
    if fid:
        rep.inst("K-overhead")
        org = ff.Origins(F, fid)
        cs = [c for c in F.calls(fid) if (c.to or "").endswith("calc_size_cost")]
        if not cs or not has_origin(org.of_operand(cs[0].args[1]), call_origin("TransactionOutput::to_bytes")):
            rep.violation("K-overhead", "size-source", "calc_required_coin does not price the serialized size of the output (to_bytes().len())", {})
    fixpoint_rule(rep, F)
    from ruleutil import batch_total_rule
    batch_total_rule(rep, F)
    # COLRET-gate: who may store a collateral return, and after which check
    rep.rule("COLRET-gate", "every function that stores Some(output) into TransactionBuilder.collateral_return either computes the output's minimum ADA first (min_ada_for_output / MinOutputAdaCalculator) or is the audited placeholder / clearing code: a collateral return below min-ADA cannot reach the body unchecked")
    TB_ = "builders::tx_builder::TransactionBuilder"
    n_cr = 0
    for fid_, fn_ in F.fns.items():
        if "/tests/" in fn_["file"] or F.is_derived(fid_):
            continue
        ffs_ = ff.FnFields(F, fid_)
        st_ = ffs_.stores_to(TB_, "collateral_return")
        if not st_:
            continue
        n_cr += 1
        rep.inst("COLRET-gate")
        key_ = F.key(fid_)
        none_only = True
        for s_ in st_:
            rv = s_[4]
            for _ in range(3):
                if isinstance(rv, list) and rv[0] == "use" and rv[1][0] in ("c", "m"):
                    ds_ = [st2[3] for bb2 in fn_["bbs"] for st2 in bb2["st"] if st2[1] == "=" and st2[2] == rv[1][1]]
                    if len(ds_) == 1:
                        rv = ds_[0]
                        continue
                break
            if not (isinstance(rv, list) and rv[0] == "agg" and rv[3] == "None"):
                none_only = False
        if none_only:
            continue  # clearing the field
        checked = any(any(k_ in (c.to or "") for k_ in ("min_ada_for_output", "MinOutputAdaCalculator", "calculate_ada")) for c in F.calls(fid_))
        if not checked:
            # the computation may sit in a closure / helper of this function (wrapper-aware, two levels)
            deep_ = mp.call_origin_deep(F, "min_ada_for_output")
            checked = any(deep_("call:%s@0" % (c.to or "")) for c in F.calls(fid_) if (c.to or "") in F.fns)
        if not checked:
            rep.violation("COLRET-gate", key_, "%s stores a collateral return output without any min-ADA computation: set_collateral_return(1 lovelace to a base address) is accepted and build_tx() returns a body whose collateral return is below the minimum (add_output rejects the same output)" % key_, {})
    rep.floor("functions storing TransactionBuilder.collateral_return", 3, n_cr)
    minada_addr_rule(rep, F)
    # COLRET-size: a computed collateral return passes the value-size gate of add_output
    rep.rule("COLRET-size", "every function that computes a collateral return and tests its minimum ADA (set_collateral_return_and_total, set_total_collateral_and_return) also stores it only behind the passing edge of a comparison of the serialised value's length with config.max_value_size, like add_output: all native assets of the collateral inputs have to go into the return output, which can make its value larger than the ledger allows")
    n_cs = 0
    for nm_ in ("TransactionBuilder::set_collateral_return_and_total", "TransactionBuilder::set_total_collateral_and_return"):
        fid_ = find_fn(rep, F, nm_)
        if not fid_:
            continue
        n_cs += 1
        rep.inst("COLRET-size")
        fn_ = F.fns[fid_]
        org_ = ff.Origins(F, fid_)
        ffs_ = ff.FnFields(F, fid_)
        st_ = [s_[2] for s_ in ffs_.stores_to("builders::tx_builder::TransactionBuilder", "collateral_return")] + [c.bb for c in F.calls(fid_) if (c.to or "").endswith("TransactionBuilder::set_collateral_return")]
        ok_ = bool(st_)
        for bi in st_:
            # clearing stores (None) need no gate: judge only blocks that also see the min-ADA comparison
            g_ = False
            gs_ = mp.dominating_guards(F, fid_, bi, org_)
            if not any(d["kind"] == "call" and any(any("min_ada_for_output" in x for x in a_) for a_ in d.get("args", [])) for s_, e_, d in gs_):
                continue
            for s_, edge, d in gs_:
                both = d.get("lhs", []) + d.get("rhs", [])
                if d["kind"] == "bin" and d["op"] in ("Gt", "Le", "Lt", "Ge") and any(x.endswith("TransactionBuilderConfig.max_value_size") for x in both) and any(x.startswith("call:") and x.split("@")[0].endswith("::len") for x in both):
                    g_ = True
            if not g_ and helper_value_size_gate(F, fid_, bi, org_):
                g_ = True
            ok_ = ok_ and g_
        if not ok_:
            rep.violation("COLRET-size", nm_.rsplit("::", 1)[-1], "%s stores a collateral return without comparing its value size with max_value_size: 30 assets on the collateral input, max_value_size 100 -> a return output with a 159-byte value is accepted (add_output rejects the same output)" % nm_.rsplit("::", 1)[-1], {})
    rep.floor("collateral setters computing a return", 2, n_cs)
    # TOPUP-size: the change packer sizes a value with the widest coin it can end up with
    rep.rule("TOPUP-size", "where the change packer judges a value against max_value_size (will_adding_asset_make_output_overflow, pack_nfts_for_change) the coin is lowered to the minimum ADA only on the edge where the minimum is larger than the coin already there (all the ADA that is left, which the last change output receives after the packing, bypassing add_output): an unconditional `set_coin(min_ada)` under-sizes the value by up to 4 bytes and the topped-up change output exceeds max_value_size")
    n_tu = 0
    for fid_, fn_ in F.fns.items():
        if "/tests/" in fn_["file"] or not (fid_.endswith("::will_adding_asset_make_output_overflow") or fid_.endswith("::pack_nfts_for_change")):
            continue
        org_ = ff.Origins(F, fid_)
        for c in F.calls(fid_):
            if not (c.to or "").endswith("Value::set_coin"):
                continue
            o_ = org_.of_operand(fn_["bbs"][c.bb]["t"][3][1])
            if not any(x.startswith("call:") and x.split("@")[0].endswith("calculate_ada") for x in o_):
                continue
            n_tu += 1
            rep.inst("TOPUP-size")
            ok_ = False
            for s_, edge, d in mp.dominating_guards(F, fid_, c.bb, org_):
                if d["kind"] == "call" and "PartialOrd" in d["callee"] and any(any(x.startswith("call:") and x.split("@")[0].endswith("calculate_ada") for x in a_) for a_ in d["args"]):
                    ok_ = True
            if not ok_:
                rep.violation("TOPUP-size", F.key(fid_), "%s replaces the coin by the minimum ADA unconditionally before testing the value size: 20 two-byte-named assets, 4 345 ADA of change, max_value_size 120 -> change output with a 122-byte value (the coin 4 342 796 471 needs 9 bytes, the minimum ADA 5)" % F.key(fid_), {})
    rep.floor("coin adjustments before a value-size test in the change packer", 2, n_tu)
    import common as _common
    import p_c13 as _c13
    _c13.size_head_rule(rep, F, _common.load_table("conway_cddl.json"))
    from ruleutil import boot_size_real_rule
    boot_size_real_rule(rep, F)
    from ruleutil import boot_size_each_rule
    boot_size_each_rule(rep, F)
    from ruleutil import size_fresh_rule
    size_fresh_rule(rep, F)
    from ruleutil import sib_qty_rule
    sib_qty_rule(rep, F)
    from ruleutil import recalc_all_rule
    recalc_all_rule(rep, F)
    from ruleutil import minada_whole_rule
    minada_whole_rule(rep, F)
    import p_c19 as _c19
    _c19.same_output_rule(rep, F)  # the collateral return that is priced is the one that is stored (shared with C19)
    return rep.finish(
        EXPLANATION,
        ["min_ada_for_output's numeric bound (fixed point over the coin width) is not decided statically", "collateral return gates are C19's rules"],
        ["rustc MIR dominators / def-use, HIR literals (csl-facts)"],
    )
