"""C14 — amount arithmetic is exact or fails explicitly (E3 inventory + finite ordering tables + Int range producers)."""
import common
import facts
import hirq as H
import e3_arith as e3
import fieldflow as ff
import mustpass as mp
from e1_panicpath import defs_of, guard_holds
from ruleutil import find_fn

INT = "protocol_types::numeric::int::Int"

EXPLANATION = (
    "No-silent-loss clause, decided as an exhaustive inventory over the amount-handling scope (numeric types, their CBOR codecs, "
    "Value / MultiAsset / Mint, metadatum integers, the mint builder, fee and rational code): every raw integer operator on an "
    "8..128-bit integer (including operator-trait calls on primitives), every narrowing or sign-changing cast, every call to a "
    "wrapping / saturating / overflowing / abs / pow / sum API or to the crate's own clamping primitives, and every arithmetic "
    "error that is handled locally instead of being propagated, must be on the audited list (tables/c14_allow.json, count pinned, "
    "guards re-checked) - anything else, and any clamping call inside a function that promises `checked_`, is reported. The i64-"
    "narrowing cbor_event reader negative_integer() must not be called at all. (INT-range) every place that creates an Int or "
    "stores its payload is one of the audited range-preserving producers. (ORDER) the parts of value comparison that touch their "
    "operands only through comparisons are evaluated exhaustively on the finite ordering domain: Value::partial_cmp's combination "
    "table over {Less, Equal, Greater} x {Less, Equal, Greater, incomparable}, its per-side asset comparison arms (a missing bundle "
    "compares like the empty bundle), and MultiAsset::partial_cmp's (<=, >=) table equal the component-wise partial order. "
    "Not decided: commutativity / associativity of Value addition, `subtraction undoes addition`, string and CBOR round trips of "
    "big integers (value-level algebra)."
)

PRODUCERS = {
    "Int::new": "u64 widened to i128",
    "Int::new_negative": "negated u64 widened to i128",
    "Int::new_i32": "i32 widened to i128",
    "Int::from_str": "range-checked against -2^64 and 2^64 - 1 (re-checked by INT-span)",
    "BigInt::as_int": "range-checked against -2^64 and 2^64 - 1 (re-checked by INT-span)",
    "<Int as serialization::traits::Deserialize>::deserialize::{closure#0}": "CBOR uint (u64) or nint via read_nint (>= -2^64)",
    "MintBuilder::update_mint_value": "copies an existing Int or stores checked_mint_sum(..)?, which range-checks",
}


def structural_producer(F, fid):
    """a function outside the audited list may store an Int payload when every stored value is the range-checked sum
    (origin: MintBuilder::checked_mint_sum, whose accepted range is re-derived below) or a plain copy of an Int it was given
    (origins: parameters / fields only, no arithmetic) - e.g. a helper extracted from update_mint_value"""
    import fieldflow as ff
    import p_c04
    ffs = ff.FnFields(F, fid)
    org = ff.Origins(F, fid)
    sts = [s_ for s_ in ffs.stores if s_[0] == INT and s_[1] == "0"]
    aggs = ffs.aggregates_of(INT)
    if not sts and not aggs:
        return False
    vals = [s_[4] for s_ in sts] + [a[5][0] for a in aggs if a[5]]
    for v in vals:
        o = p_c04._origins_any(org, v) if isinstance(v, list) and v and v[0] not in ("c", "m", "k") else org.of_operand(v)
        calls = {x.split("@")[0][5:] for x in o if x.startswith("call:")}
        if any(c.endswith("checked_mint_sum") for c in calls):
            continue
        plain = all(c.endswith(("Clone>::clone", "Deref>::deref", "DerefMut>::deref_mut", "Try>::branch", "::or_insert", "::entry", "AsRef>::as_ref")) or "collections::" in c for c in calls)
        if plain and any(x.startswith("field:") and x.endswith("numeric::int::Int.0") for x in o):
            continue  # copied out of an existing Int (an i128 that merely comes from a parameter is not enough)
        return False
    return True


def H_short(p):
    return "::".join(p.split("::")[-2:])


def check(rep, F, tier, replay=None):
    table = common.load_table("c14_allow.json")["entries"]
    tab = {(e["fn"], e["kind"], e["detail"]): e for e in table}
    S, by = e3.sites(F)
    rep.rule("E3", "raw operator / lossy cast / saturating call / locally-handled arithmetic error in the amount scope is on the audited list")
    rep.floor("scope functions with arithmetic sites", 10, len({s.fid for s in S}))
    nscope = sum(1 for fid, fn in F.fns.items() if not F.is_derived(fid) and e3.in_scope(fn))
    rep.extra["scope"] = {"functions_in_scope": nscope, "sites": len(S), "groups": len(by)}
    dcache = {}
    for g, lst in sorted(by.items()):
        fk, kind, det = g
        rep.inst("E3", len(lst))
        s0 = lst[0]
        fn0 = F.fns[s0.fid]
        where = ", ".join(sorted({facts.loc_str(s.loc, F.fns[s.fid]) for s in lst}))
        what = {"op": "raw integer operator", "cast": "lossy integer cast", "lossy-call": "saturating / wrapping / magnitude call", "discard": "arithmetic error handled locally", "i64-reader": "i64-narrowing CBOR reader"}[kind]
        from e1_panicpath import allow_lookup as _al
        e, n_s = _al(tab, by, g)
        if kind == "i64-reader":
            rep.violation("E3", "%s|%s|%s" % g, "%s calls cbor_event's negative_integer(), which narrows a CBOR nint to i64: values in -2^64..-2^63-1 decode to a different number (use read_nint) [%s]" % (fk, where), {"function": fk})
            continue
        if e is None:
            rep.violation("E3", "%s|%s|%s" % g, "unaudited %s in %s: %s at %s (%s) - in release builds this wraps / truncates / saturates silently instead of failing" % (what, fk, det, where, s0.note), {"function": fk, "file": fn0["file"]})
            continue
        if n_s > e["count"]:
            rep.violation("E3", "%s|%s|%s#>%d" % (fk, kind, det, e["count"]), "%d x %s (%s) in %s, only %d audited [%s]" % (n_s, what, det, fk, e["count"], where), {})
            continue
        if e["disposition"] == "finding":
            rep.violation("E3", "%s|%s|%s" % g, "%s [%s]" % (e["reason"], where), {"function": fk})
            continue
        ok = True
        if e.get("guard"):
            for s in lst:
                fn = F.fns[s.fid]
                d = dcache.setdefault(s.fid, defs_of(fn))
                class _S:  # adapter for guard_holds
                    pass
                x = _S()
                x.bb = s.bb
                g_ok, msg = guard_holds(F, fn, d, x, e["guard"], True)
                if not g_ok:
                    ok = False
                    rep.violation("E3-guard", "%s|%s|%s" % g, "audited %s lost its guard (%s): %s at %s; audit reason was: %s" % (what, msg, det, facts.loc_str(s.loc, fn), e["reason"]), {})
                    break
        if ok:
            rep.allow("E3", len(lst))
            rep.sample({"site": "%s|%s|%s" % g, "where": where, "allowed_because": e["reason"]})
    # contradiction rule: clamping primitive inside checked_* (generic, beyond the table)
    rep.rule("E3-contra", "a function whose name promises `checked_` does not call a clamping / saturating primitive")
    for fid, fn in F.fns.items():
        if F.is_derived(fid) or not fn["name"].startswith("checked_"):
            continue
        rep.inst("E3-contra")
        for c in F.calls(fid):
            to = c.to or ""
            if to.endswith(("::clamped_sub", "MultiAsset::sub")) or ("core::num::" in to and ("saturating_" in to or "wrapping_" in to)):
                g = (e3.site_fn_key(F, fid), "lossy-call", to)
                if g in tab and tab[g]["disposition"] == "finding":
                    continue  # reported through the table above
                rep.violation("E3-contra", "%s|%s" % (F.key(fid), to), "%s promises a checked operation but calls the clamping primitive %s" % (F.key(fid), to), {})
    # INT-range
    rep.rule("INT-range", "every construction of Int / store to its payload happens in an audited range-preserving producer")
    for fid, fn in F.fns.items():
        if F.is_derived(fid) or "/tests/" in fn["file"]:
            continue
        n = 0
        for bb in fn["bbs"]:
            if bb["c"]:
                continue
            for st in bb["st"]:
                if st[1] == "=" and ((st[3][0] == "agg" and st[3][2] == INT) or ("f:%s:-:0" % INT) in st[2]):
                    n += 1
        if n:
            rep.inst("INT-range", n)
            key = F.key(fid)
            if key not in PRODUCERS and not structural_producer(F, fid):
                rep.violation("INT-range", key, "%s creates or overwrites an Int payload (%d site(s)) without being an audited range-preserving producer: an Int outside -2^64..2^64-1 would be truncated silently when encoded" % (key, n), {"function": fid, "file": fn["file"]})
    # update_mint_value stores go through checked_mint_sum
    fid = find_fn(rep, F, "MintBuilder::update_mint_value")
    if fid:
        rep.inst("INT-range")
        import fieldflow as ff
        ffs = ff.FnFields(F, fid)
        org = ff.Origins(F, fid)
        import p_c04
        for s in ffs.stores:
            if s[0] == INT and s[1] == "0":
                o = p_c04._origins_any(org, s[4])
                if not (any(x.startswith("call:") and x.split("@")[0].endswith("checked_mint_sum") for x in o) or ("arg:4" in o and not any(x.startswith("call:") and "checked_add" in x for x in o))):
                    rep.violation("INT-range", "update_mint_value|store", "MintBuilder::update_mint_value stores an Int payload that is neither the given amount nor the range-checked sum", {"origins": sorted(o)[:10]})
    # ... and checked_mint_sum really is range-checked: the premise of the audited producer above, re-derived on every run
    cid = find_fn(rep, F, "MintBuilder::checked_mint_sum")
    if cid:
        from ruleutil import gate_min, gate_limit
        import mustpass as _mp
        oks = [(bi, kind) for bi, kind, loc in _mp.success_stores(F, cid) if kind == "ok"]
        if not oks:
            rep.lost("MintBuilder::checked_mint_sum has no Ok return")
        for bi, kind in oks:
            rep.inst("INT-range")
            lo = gate_min(F, cid, bi)[0]
            hi = gate_limit(F, cid, bi)[0]
            if lo is None or hi is None:
                rep.lost("MintBuilder::checked_mint_sum: the accepted range is not derivable as two constant bounds (lo=%s hi=%s)" % (lo, hi))
            elif lo < -(1 << 64) or hi > (1 << 64) - 1:
                rep.violation("INT-range", "MintBuilder::checked_mint_sum|range|%d..%d" % (lo, hi), "MintBuilder::checked_mint_sum returns Ok for sums in %d ..= %d; the range of an Int is -2^64 ..= 2^64 - 1: an accumulated mint amount of %s is stored as an Int that the CBOR writer narrows (2^64 -> 0) instead of being refused with 'Mint amount overflow'" % (lo, hi, "2^64" if hi > (1 << 64) - 1 else "below -2^64"), {})
    from ruleutil import arith_unwrap_rule
    arith_unwrap_rule(rep, F)
    from ruleutil import adv_own_rule
    adv_own_rule(rep, F)
    # ORDER tables
    order_tables(rep, F)
    # ROUND-prim: a function that promises a rounding mode divides with the primitive of that name (truncating `/` differs from
    # floor for operands of opposite sign; BigNum is unsigned, there `/` IS floor and is judged by the E3 inventory)
    rep.rule("ROUND-prim", "BigInt::div_floor / div_ceil divide through num-integer's div_floor / div_ceil and not through `/` (truncation toward zero)")
    for key, want in (("BigInt::div_floor", "div_floor"), ("BigInt::div_ceil", "div_ceil")):
        fid = find_fn(rep, F, key)
        if not fid:
            continue
        rep.inst("ROUND-prim")
        tos = [(c.to or "") for c in F.calls(fid)]
        names = {t.rsplit("::", 1)[-1] for t in tos}
        other = "div_floor" if want == "div_ceil" else "div_ceil"
        raw = [t for t in tos if "std::ops::Div" in t or "std::ops::Rem" in t or t.endswith("::div_rem") or t.endswith("::div_euclid")]
        if want not in names or other in names or raw:
            rep.violation("ROUND-prim", "%s|%s" % (key, want), "%s must divide with %s; it calls %s" % (key, want, sorted(set(n for n in names if n.startswith("div")) | {H_short(r) for r in raw}) or "nothing"), {})
    from ruleutil import who_assets_rule
    who_assets_rule(rep, F)
    from ruleutil import arith_unused_rule
    arith_unused_rule(rep, F, None)
    # SIGN-gate: an unsigned view of a signed big integer exists only for non-negative values
    rep.rule("SIGN-gate", "BigInt::as_u64 builds Some(..) only in blocks dominated by a test of the value's sign (a comparison of num_bigint::Sign, sign() / is_negative() / is_positive(), or an ordering test against zero): a negative big integer has no unsigned value - without the test BigInt(-1).as_u64() is Some(1), the magnitude")
    fid_ = find_fn(rep, F, "BigInt::as_u64")
    if fid_:
        fn_ = F.fns[fid_]
        org_ = ff.Origins(F, fid_)
        somes = [bi for bi, bb in enumerate(fn_["bbs"]) if not bb["c"] for st in bb["st"] if st[1] == "=" and st[3][0] == "agg" and st[3][3] == "Some" and (st[2] == "_0" or st[2].startswith("_0|"))]
        if not somes:
            rep.lost("BigInt::as_u64 builds no Some(..) directly (re-anchor SIGN-gate)")
        for bi in somes:
            rep.inst("SIGN-gate")
            ok = False
            for s_, edge, d in mp.dominating_guards(F, fid_, bi, org_):
                cal = d.get("callee") or ""
                if d["kind"] == "call" and ("num_bigint::Sign" in cal or cal.rsplit("::", 1)[-1] in ("sign", "is_negative", "is_positive", "signum")):
                    ok = True
                if d["kind"] == "call" and "PartialOrd" in cal and any(x.startswith("call:") and x.split("@")[0].endswith("::zero") for a in d["args"] for x in a):
                    ok = True
                if d["kind"] == "discr" and any("Sign" in x or x.split("@")[0].endswith(("::to_u64_digits", "::to_u32_digits", "::into_parts", "::sign", "::to_bytes_be", "::to_bytes_le")) for x in d.get("of", [])):
                    ok = True  # a match on the Sign component (`(Sign::Minus, _) => None`)
            if not ok:
                rep.violation("SIGN-gate", "BigInt::as_u64", "BigInt::as_u64 answers Some(..) on a path that never tests the sign: for a negative value whose magnitude fits into 64 bits it returns the magnitude (BigInt(-1).as_u64() = Some(1)) instead of None", {})
                break
    # KEY-ord: the order of asset-map keys separates different names
    rep.rule("KEY-ord", "AssetName's Ord - the key order of every Assets / MintAssets BTreeMap, on which Value addition, subtraction and comparison merge and match quantities - compares lengths first and the bytes only on equal length: it is Equal exactly for equal names. An order that identifies different names (leading zero bytes ignored) merges the quantities of two assets: a + b != b + a, spurious overflow, a wrong comparison")
    from ruleutil import assetname_ord_rule
    assetname_ord_rule(rep, F, "KEY-ord")
    from ruleutil import value_sub_total_rule
    value_sub_total_rule(rep, F)
    from ruleutil import int_range_rule
    int_range_rule(rep, F)
    from ruleutil import value_iter_rule
    value_iter_rule(rep, F)
    return rep.finish(
        EXPLANATION,
        ["BigNum's checked_* delegate to u64::checked_* (std)", "num-bigint arithmetic is exact", "wasm32 makes usize 32-bit: casts involving usize are marked target dependent in the table"],
        ["rustc MIR/HIR (csl-facts)", "tables/c14_allow.json"],
    )


ORD = ("Less", "Equal", "Greater")


def _pat_matches(p, val):
    """p: HIR pattern; val: 'Less'|'Equal'|'Greater'|True|False"""
    while p and p[0] == "pref":
        p = p[1]
    if not p:
        return False
    if p[0] == "wild" or p[0] == "bind":
        return True
    if p[0] == "ppath":
        return H.short(p[1][2]) == val if p[1][0] == "def" else False
    if p[0] == "plit":
        return p[1][0] == "bool" and p[1][1] == val
    if p[0] == "por":
        return any(_pat_matches(q, val) for q in p[1])
    return False


def _result_of(body, binds):
    """arm body -> 'Less'|'Equal'|'Greater'|'None'|('bind', name)|'?'"""
    b = H.strip(body)
    if H.is_node(b) and b[0] == "call" and (b[2] or "").endswith("Some") and len(b[4]) == 1:
        inner = H.strip(b[4][0])
        if H.is_node(inner) and inner[0] == "path":
            r = inner[2]
            if r[0] == "def":
                return H.short(r[2])
            if r[0] == "local":
                return ("bind", r[1])
    if H.is_node(b) and b[0] == "path" and b[2][0] == "def" and H.short(b[2][2]) == "None":
        return "None"
    return "?"


def order_tables(rep, F):
    rep.rule("ORDER", "comparison tables evaluated exhaustively on the finite ordering domain equal the component-wise partial order")
    # Value::partial_cmp combination table (inside the closure passed to and_then)
    fid = find_fn(rep, F, "<Value as std::cmp::PartialOrd>::partial_cmp")
    if fid:
        hir = F.hir[fid]
        combos = [n for n in H.walk(hir["body"]) if n[0] == "match" and H.is_node(H.strip(n[2])) and H.strip(n[2])[0] == "tup" and len(H.strip(n[2])[2]) == 2 and all(a[0] and a[0][0] == "ptuple" for a in n[3])]
        tbl = [n for n in combos if [H.path_str(x) for x in H.strip(n[2])[2]] == ["coin_cmp", "assets_match"]]
        rep.inst("ORDER")
        if len(tbl) != 1:
            rep.lost("Value::partial_cmp: combination match (coin_cmp, assets_match) not found")
        else:
            n = tbl[0]
            for c in ORD:
                for a in ORD:
                    rep.inst("ORDER")
                    got = "?"
                    for pat, g, body in n[3]:
                        ps = pat[1]
                        if _pat_matches(ps[0], c) and _pat_matches(ps[1], a):
                            r = _result_of(body, None)
                            if isinstance(r, tuple):
                                # bound variable: which position?
                                names = [H.pat_bindings(ps[0]), H.pat_bindings(ps[1])]
                                r = c if r[1] in names[0] else (a if r[1] in names[1] else "?")
                            got = r
                            break
                    want = c if a == "Equal" else (a if c == "Equal" else (c if c == a else "None"))
                    if got != want:
                        rep.violation("ORDER", "Value::partial_cmp|%s,%s" % (c, a), "Value::partial_cmp: lovelace %s and assets %s yields %s; component-wise comparison requires %s" % (c, a, got, want), {})
            rep.sample({"rule": "ORDER", "table": "Value::partial_cmp (coin x assets)", "cells": 9})
        # compare_assets arms (nested fn item: its own body)
        nested = [k for k in F.hir if k.endswith("partial_cmp::compare_assets") and "Value" in k]
        combos2 = []
        for k in nested:
            combos2 += [n for n in H.walk(F.hir[k]["body"]) if n[0] == "match" and H.is_node(H.strip(n[2])) and H.strip(n[2])[0] == "tup" and len(H.strip(n[2])[2]) == 2]
        ca = [n for n in combos + combos2 if [H.path_str(x) for x in H.strip(n[2])[2]] == ["lhs", "rhs"]]
        rep.inst("ORDER")
        if len(ca) != 1:
            rep.lost("Value::partial_cmp::compare_assets: match (lhs, rhs) not found")
        else:
            for pat, g, body in ca[0][3]:
                ps = pat[1]
                v0, v1 = H.short(H.pat_variant(ps[0]) or "?"), H.short(H.pat_variant(ps[1]) or "?")
                b0, b1 = H.pat_bindings(ps[0]), H.pat_bindings(ps[1])
                rep.inst("ORDER")
                b = H.strip(body)
                if (v0, v1) == ("None", "None"):
                    if _result_of(body, None) != "Equal":
                        rep.violation("ORDER", "compare_assets|None,None", "two values without bundles must compare Equal on assets", {})
                    continue
                ok = H.is_node(b) and b[0] == "mcall" and b[2] == "partial_cmp"
                if ok:
                    recv, arg = H.strip(b[4]), H.strip(b[5][0])
                    def side(x, binds):
                        p = H.path_str(x)
                        if p in binds:
                            return "bundle"
                        if H.is_node(x) and x[0] == "call" and (x[2] or "").endswith("MultiAsset::new"):
                            return "empty"
                        return "?"
                    want = ("bundle" if v0 == "Some" else "empty", "bundle" if v1 == "Some" else "empty")
                    got = (side(recv, b0), side(arg, b1))
                    if got != want:
                        ok = False
                if not ok:
                    rep.violation("ORDER", "compare_assets|%s,%s" % (v0, v1), "Value::partial_cmp: for (%s, %s) bundles the asset comparison must be bundle.partial_cmp(bundle) with the empty bundle standing in for a missing one; a constant ordering is wrong whenever the present bundle is empty or all-zero (found %s)" % (v0, v1, _result_of(body, None)), {})
    # MultiAsset::partial_cmp table
    fid = find_fn(rep, F, "<MultiAsset as std::cmp::PartialOrd>::partial_cmp")
    if fid:
        hir = F.hir[fid]
        ms = [n for n in H.walk(hir["body"]) if n[0] == "match" and H.is_node(H.strip(n[2])) and H.strip(n[2])[0] == "tup" and len(H.strip(n[2])[2]) == 2]
        rep.inst("ORDER")
        good = None
        for n in ms:
            a, b = H.strip(n[2])[2]
            a, b = H.strip(a), H.strip(b)
            if all(H.is_node(x) and x[0] == "call" and (x[2] or "").endswith("is_all_zeros") for x in (a, b)):
                args = [[H.path_str(y) for y in x[4]] for x in (a, b)]
                if args == [["self", "other"], ["other", "self"]]:
                    good = n
        if good is None:
            rep.violation("ORDER", "MultiAsset::partial_cmp|scrutinee", "MultiAsset::partial_cmp no longer decides on (self - other == 0, other - self == 0)", {})
        else:
            want = {(True, True): "Equal", (True, False): "Less", (False, True): "Greater", (False, False): "None"}
            for (x, y), w in want.items():
                rep.inst("ORDER")
                got = "?"
                for pat, g, body in good[3]:
                    ps = pat[1]
                    if _pat_matches(ps[0], x) and _pat_matches(ps[1], y):
                        got = _result_of(body, None)
                        break
                if got != w:
                    rep.violation("ORDER", "MultiAsset::partial_cmp|%s,%s" % (x, y), "MultiAsset::partial_cmp: (self<=other: %s, other<=self: %s) yields %s, required %s" % (x, y, got, w), {})
