import re
"""C12 — keys, signatures, encryption: the structural necessary conditions only (gates, def-use of what is signed, primitive binding)."""
import common
import facts
import fieldflow as ff
import hirq as H
import mustpass as mp
from mustpass import call_origin, field_origin, has_origin
from ruleutil import find_fn

EXPLANATION = (
    "Only structural necessary conditions of this (mostly cryptographic) property are decided, for all keys, messages and passwords: "
    "(GATE-decrypt) decrypt_with_password returns Ok only on the true edge of the authenticated decryption result and only after the "
    "`data.len() > METADATA_SIZE` check; (GATE-hrp) try_from_bech32_to_bytes returns Ok only on the false edge of `hrp != B::BECH32_HRP`, "
    "and every Bech32 impl decodes through it; (SIGN-what) make_vkey_witness / make_icarus_bootstrap_witness / "
    "make_daedalus_bootstrap_witness hand exactly the given hash's bytes to sign, and the public key placed in the witness is derived "
    "from the same private key; (PRIM) every function of the key / signature / derivation / encryption code calls exactly the audited "
    "set of cryptoxide / ed25519-bip32 primitives - in particular (CLAMP) the scalar-clamping normalisers are called only from key "
    "generation and entropy derivation, never from a signing or public-key path, so signing and public-key computation keep using the "
    "same key material; (DERIVE) secret and public derivation use the same derivation scheme constant and the public derivation "
    "propagates the dependency's refusal of hardened indices as an error; (K-emip3) the EMIP-3 layout constants (salt 32, nonce 12, "
    "tag 16, key 32, 19 162 iterations, salt|nonce|tag|ciphertext). Not decided - the bulk of the property: signature validity, "
    "derivation commuting, encoding round trips, wrong-password rejection as cryptographic facts (inside cryptoxide / ed25519-bip32)."
)

EMIP3 = {"ITER": 19162, "SALT_SIZE": 32, "NONCE_SIZE": 12, "KEY_SIZE": 32, "TAG_SIZE": 16, "METADATA_SIZE": 60, "SALT_START": 0, "SALT_END": 32, "NONCE_START": 32, "NONCE_END": 44, "TAG_START": 44, "TAG_END": 60, "ENCRYPTED_START": 60}


def check(rep, F, tier, replay=None):
    # GATE-decrypt
    rep.rule("GATE-decrypt", "decrypt_with_password: Ok only on the true edge of ChaChaPoly1305::decrypt's result, after data.len() > METADATA_SIZE")
    fid = find_fn(rep, F, "emip3::decrypt_with_password")
    if fid:
        fn = F.fns[fid]
        oks = [s for s in mp.success_stores(F, fid) if s[1] == "ok"]
        rep.inst("GATE-decrypt")
        if not oks:
            rep.violation("GATE-decrypt", "no-ok", "decrypt_with_password has no Ok return to gate", {})
        for bi, kind, loc in oks:
            gs = mp.dominating_guards(F, fid, bi)
            auth = any(d["kind"] == "call" and d["callee"].endswith("::decrypt") and edge != "0" and not d["neg"] for s, edge, d in gs) or \
                any(d["kind"] == "other" and edge != "0" and has_origin(d["of"], call_origin("::decrypt")) for s, edge, d in gs)
            ln = any(d["kind"] == "bin" and d["op"] in ("Le", "Lt") and edge == "0" and has_origin(d["lhs"], call_origin("Vec::<T, A>::len")) for s, edge, d in gs) or \
                any(d["kind"] == "bin" and d["op"] in ("Gt", "Ge") and edge != "0" and has_origin(d["lhs"], call_origin("Vec::<T, A>::len")) for s, edge, d in gs)
            rep.inst("GATE-decrypt", 2)
            if not auth:
                rep.violation("GATE-decrypt", "auth", "decrypt_with_password returns Ok at %s on a path that does not depend on the authenticated-decryption result: a wrong password or modified ciphertext would yield plaintext" % facts.loc_str(loc, fn), {"guards": [(g[1], g[2]["kind"], g[2].get("callee") or g[2].get("op")) for g in gs]})
            if not ln:
                rep.violation("GATE-decrypt", "length", "decrypt_with_password returns Ok without the metadata-length check", {})
    # GATE-hrp
    rep.rule("GATE-hrp", "try_from_bech32_to_bytes: Ok only when the human-readable part equals the type's constant; every Bech32 impl decodes through it")
    fid = find_fn(rep, F, "chain_crypto::bech32::try_from_bech32_to_bytes")
    if fid:
        fn = F.fns[fid]
        rep.inst("GATE-hrp")
        good = True
        n = 0
        for bi, kind, loc in mp.success_stores(F, fid):
            n += 1
            gs = mp.dominating_guards(F, fid, bi)
            ok = any(d["kind"] == "call" and d["callee"].endswith(("::ne", "PartialEq<&str>>::ne")) and edge == "0" and has_origin(d["args"][0], call_origin("bech32::decode")) for s, edge, d in gs) or \
                any(d["kind"] == "call" and d["callee"].endswith("::eq") and edge != "0" and has_origin(d["args"][0], call_origin("bech32::decode")) for s, edge, d in gs)
            good = good and ok
        if not n or not good:
            rep.violation("GATE-hrp", "bypass", "try_from_bech32_to_bytes can return Ok without the human-readable part having been compared with the expected prefix", {})
        impls = F.trait_impl_methods.get("chain_crypto::bech32::Bech32", {}).get("try_from_bech32_str", [])
        rep.floor("Bech32 impls", 5, len(impls))
        for m in impls:
            rep.inst("GATE-hrp")
            if not any((c.to or "").endswith("bech32::try_from_bech32_to_bytes") for c in F.calls(m)):
                rep.violation("GATE-hrp", "%s|direct" % F.key(m), "%s decodes bech32 without try_from_bech32_to_bytes (no prefix check)" % F.key(m), {})
    # SIGN-what
    rep.rule("SIGN-what", "witness helpers sign exactly the given hash bytes; the witness's public key comes from the same private key")
    for key, hash_arg, key_arg in (("utils::make_vkey_witness", 1, 2), ("utils::make_icarus_bootstrap_witness", 1, 3), ("utils::make_daedalus_bootstrap_witness", 1, 3)):
        fid = find_fn(rep, F, key)
        if not fid:
            continue
        rep.inst("SIGN-what")
        org = ff.Origins(F, fid)
        signs = [c for c in F.calls(fid) if (c.to or "").rsplit("::", 1)[-1] == "sign"]
        if len(signs) != 1:
            rep.violation("SIGN-what", key + "|sign-count", "%s calls sign %d times (expected once)" % (key, len(signs)), {})
            continue
        msg = org.of_operand(signs[0].args[1])
        calls = {o[5:].split("@")[0] for o in msg if o.startswith("call:")}
        allowed = ("to_bytes", "as_ref", "deref", "to_vec", "as_slice", "Deref>::deref", "AsRef<[u8]>>::as_ref", "AsRef<[T]>>::as_ref")
        bad = [c for c in calls if not c.endswith(allowed)]
        if "arg:%d" % hash_arg not in msg or bad:
            rep.violation("SIGN-what", key + "|message", "%s does not sign the given transaction hash unmodified (message origins: %s)" % (key, sorted(msg)[:8]), {})
        sk = org.of_operand(signs[0].args[0])
        if "arg:%d" % key_arg not in sk:
            rep.violation("SIGN-what", key + "|key", "%s does not sign with the given private key" % key, {})
        # vkey from same key
        vk = [c for c in F.calls(fid) if (c.to or "").endswith("Vkey::new")]
        if not vk or "arg:%d" % key_arg not in org.of_operand(vk[0].args[0]):
            rep.violation("SIGN-what", key + "|vkey", "%s: the verification key placed in the witness is not derived from the signing key" % key, {})
    # PRIM
    rep.rule("PRIM", "each key/signature/derivation/encryption function calls exactly the audited cryptoxide / ed25519-bip32 primitives")
    tab = common.load_table("c12_primitives.json")["functions"]
    seen = {}
    for fid, fn in F.fns.items():
        if F.is_derived(fid):
            continue
        if not (fn["file"].startswith("src/chain_crypto/") or fn["file"] in ("src/emip3.rs",) or fn["file"].startswith("src/protocol_types/crypto/") or fn["file"] == "src/impl_mockchain/key.rs"):
            continue
        ext = sorted({c.to for c in F.calls(fid) if c.to and c.info.get("crate") in ("cryptoxide", "ed25519_bip32")})
        if ext:
            seen[F.key(fid)] = ext
    for key in sorted(set(tab) | set(seen)):
        rep.inst("PRIM")
        a, b = seen.get(key, []), tab.get(key, [])
        if a != b:
            added = sorted(set(a) - set(b))
            removed = sorted(set(b) - set(a))
            rep.violation("PRIM", key, "%s binds different cryptographic primitives than audited: now also calls %s, no longer calls %s" % (key, added or "-", removed or "-"), {"function": key, "added": added, "removed": removed})
    rep.floor("functions with a cryptographic primitive binding", 30, len(seen))
    # CLAMP
    rep.rule("CLAMP", "scalar clamping (XPrv::normalize_bytes_*) is called only from key generation / entropy derivation")
    allowed = {"<Ed25519Bip32 as chain_crypto::key::AsymmetricKey>::generate", "<Ed25519Extended as chain_crypto::key::AsymmetricKey>::generate", "chain_crypto::derive::from_bip39_entropy"}
    n = 0
    for fid, fn in F.fns.items():
        if F.is_derived(fid):
            continue
        for c in F.calls(fid):
            if c.to and "normalize_bytes" in c.to:
                n += 1
                rep.inst("CLAMP")
                if F.key(fid) not in allowed:
                    rep.violation("CLAMP", F.key(fid), "%s clamps key bytes (%s): the signature would be made with a different scalar than the one the public key was computed from whenever the stored key is not already clamped" % (F.key(fid), c.to.rsplit("::", 1)[1]), {"function": fid})
    rep.floor("clamping call sites", 3, n)
    # DERIVE
    rep.rule("DERIVE", "secret and public derivation use the same scheme constant; public derivation returns the dependency's error")
    sk = find_fn(rep, F, "chain_crypto::derive::derive_sk_ed25519")
    pk = find_fn(rep, F, "chain_crypto::derive::derive_pk_ed25519")
    if sk and pk:
        rep.inst("DERIVE")
        def scheme(fid):
            for c in F.calls(fid):
                if (c.to or "").endswith(("XPrv::derive", "XPub::derive")):
                    fn = F.fns[fid]
                    org = ff.Origins(F, fid)
                    pl = c.args[1][1] if c.args[1][0] in ("c", "m") else None
                    for kind, bi, dest, rv in org.defs.get((pl or "_").split("|")[0], []):
                        if kind == "st" and rv[0] == "agg":
                            return rv[3]
                    return str(c.args[1])
            return None
        a, b = scheme(sk), scheme(pk)
        if a is None or a != b:
            rep.violation("DERIVE", "scheme", "secret derivation uses scheme %s but public derivation %s: soft derivation would not commute with taking the public key" % (a, b), {})
        else:
            rep.sample({"rule": "DERIVE", "scheme": a})
        rep.inst("DERIVE")
        ret = F.fns[pk]["locals"][0]
        bad = [c.to for c in F.calls(pk) if c.to and ("unwrap" in c.to or "expect" in c.to)]
        if "Result<" not in ret or bad:
            rep.violation("DERIVE", "pk-error", "public derivation no longer returns the dependency's error for hardened indices (%s)" % (bad or ret), {})
    # DERIVE-total: the wrappers put no index range of their own in front of the dependency's derivation
    rep.rule("DERIVE-total", "the derivation wrappers (derive_sk_ed25519 / derive_pk_ed25519, Bip32PrivateKey::derive / Bip32PublicKey::derive) reach the dependency's derive for every index the dependency accepts: a comparison of the index with a constant that dominates the call must leave all soft indices 0 ..= 0x7FFFFFFF (public side) resp. every u32 (secret side) - an early `index >= 0x7FFFFFFF` refuses the last soft index, for which private derivation followed by to_public() still works, so soft derivation no longer commutes with taking the public key")
    from ruleutil import gate_limit as _glim, gate_min as _gmin
    for key_, callee_, need_hi in (("chain_crypto::derive::derive_pk_ed25519", "XPub::derive", 0x7FFFFFFF), ("chain_crypto::derive::derive_sk_ed25519", "XPrv::derive", 0xFFFFFFFF),
                                   ("Bip32PublicKey::derive", "derive_pk_ed25519", 0x7FFFFFFF), ("Bip32PrivateKey::derive", "derive_sk_ed25519", 0xFFFFFFFF)):
        fid_ = find_fn(rep, F, key_)
        if not fid_:
            continue
        cs_ = [c for c in F.calls(fid_) if (c.to or "").endswith(callee_)]
        if not cs_:
            rep.lost("%s no longer calls %s" % (key_, callee_))
            continue
        for c in cs_:
            rep.inst("DERIVE-total")
            hi_ = _glim(F, fid_, c.bb)[0]
            lo_ = _gmin(F, fid_, c.bb)[0]
            if (hi_ is not None and hi_ < need_hi) or (lo_ is not None and lo_ > 0):
                rep.violation("DERIVE-total", "%s|%s..%s" % (key_, lo_ if lo_ is not None else 0, hi_ if hi_ is not None else "max"), "%s reaches %s only for indices %s ..= %s: index %s, which the dependency derives, is refused by the wrapper" % (key_, callee_, lo_ if lo_ is not None else 0, hi_ if hi_ is not None else "u32::MAX", ("0x%X" % (hi_ + 1)) if hi_ is not None else lo_ - 1), {})
    # KDF-pad: HMAC identifies a key with its zero-padded extension
    rep.rule("KDF-pad", "the password reaches the key derivation either through a step that binds its length (a hash, a length prefix) or the KDF's MAC is not HMAC keyed directly with it: HMAC zero-pads a key shorter than the hash block (128 bytes for SHA-512), so `pw` and `pw || 00..` are the same key - two different passwords decrypt the same container (a fact about the primitive, tables/dep_model.json; the rule decides from the origins of Hmac::new's key argument)")
    for key_ in ("emip3::encrypt_with_password", "emip3::decrypt_with_password"):
        fid_ = find_fn(rep, F, key_)
        if not fid_:
            continue
        fn_ = F.fns[fid_]
        org_ = ff.Origins(F, fid_)
        hm_ = [c for c in F.calls(fid_) if (c.to or "").endswith("hmac::Hmac::<D>::new")]
        if not hm_:
            rep.lost("%s no longer keys an HMAC (re-anchor KDF-pad)" % key_)
            continue
        for c in hm_:
            rep.inst("KDF-pad")
            o_ = org_.of_operand(fn_["bbs"][c.bb]["t"][3][1])
            calls_ = {x.split("@")[0][5:] for x in o_ if x.startswith("call:")}
            binds = [x for x in calls_ if re.search(r"(blake2b|sha2|sha3|digest|Digest|hash|len)", x) and "hex::decode" not in x]
            if "arg:1" in o_ and not binds:
                rep.violation("KDF-pad", "%s|password" % key_.rsplit("::", 1)[-1], "%s keys HMAC-SHA512 directly with the hex-decoded password: a password that differs only by trailing 00 bytes derives the same key - decrypt_with_password(`70617373776f726400`, encrypt_with_password(`70617373776f7264`, ..)) returns the plaintext instead of an error" % key_, {})
    # K-emip3
    rep.rule("K-emip3", "EMIP-3 container constants")
    for name, want in EMIP3.items():
        rep.inst("K-emip3")
        c = F.consts.get("emip3::password_encryption_parameter::" + name)
        if c is None:
            rep.lost("constant emip3::password_encryption_parameter::%s" % name)
        elif int(c["val"]) != want:
            rep.violation("K-emip3", name, "EMIP-3 constant %s is %s, the container format requires %s" % (name, c["val"], want), {})
    # DEC-reject: what a raw key / signature decoder may reject on its own
    rep.rule("DEC-reject", "the raw decoders of chain_crypto (public_from_binary / secret_from_binary / signature_from_bytes) build only the size error themselves; every other rejection is the key library's own verified constructor - a hand-written structure test can reject keys the library itself derives, breaking their byte / hex / bech32 round trip")
    n_dec = 0
    for fid, fn in sorted(F.fns.items()):
        last = fid.rsplit("::", 1)[-1]
        if last not in ("public_from_binary", "secret_from_binary", "signature_from_bytes") or "/tests/" in fn["file"] or "::{closure" in fid:
            continue
        n_dec += 1
        rep.inst("DEC-reject")
        errs = set()
        for sub in [fid] + [c for c in F.fns if c.startswith(fid + "::{closure")]:
            for bb in F.fns[sub]["bbs"]:
                for st in bb["st"]:
                    if st[1] == "=" and st[3][0] == "agg" and st[3][1] == "adt" and st[3][2].endswith("Error"):
                        errs.add("%s::%s" % (st[3][2].rsplit("::", 1)[-1], st[3][3]))
        extra = sorted(e for e in errs if not e.endswith("::SizeInvalid"))
        if extra:
            rep.violation("DEC-reject", "%s|%s" % (F.key(fid), ",".join(extra)), "%s rejects input with %s on its own: keys that the library generates or derives and that fail this hand-written test no longer survive from_bytes(as_bytes()) / hex / bech32" % (F.key(fid), ", ".join(extra)), {})
    rep.floor("raw key / signature decoders inventoried", 10, n_dec)
    # DEC-len: each raw decoder accepts exactly one length; the two secret-key kinds PrivateKey::from_hex tries in turn are disjoint
    rep.rule("DEC-len", "every raw key / signature decoder that tests the input length itself compares it for (in)equality with exactly one constant (one accepted length = the length as_bytes emits), and the accepted lengths of the normal and the extended Ed25519 secret decoders differ - PrivateKey::from_hex tries the normal decoder first and falls back to the extended one, so an overlap re-imports an extended key as a different normal key")
    import fieldflow as ff_
    lens_ = {}
    for fid, fn in sorted(F.fns.items()):
        last = fid.rsplit("::", 1)[-1]
        if last not in ("public_from_binary", "secret_from_binary", "signature_from_bytes") or "/tests/" in fn["file"] or "::{closure" in fid:
            continue
        rep.inst("DEC-len")
        org_ = ff_.Origins(F, fid)
        consts_, ops_ = set(), set()
        for bb in fn["bbs"]:
            if bb["c"]:
                continue
            for st in bb["st"]:
                if st[1] == "=" and st[3][0] == "bin" and st[3][1] in ("Eq", "Ne", "Lt", "Le", "Gt", "Ge"):
                    for a_, b_ in ((st[3][2], st[3][3]), (st[3][3], st[3][2])):
                        if b_[0] == "k" and any("::len@" in x or x == "arg:1" for x in org_.of_operand(a_)):
                            try:
                                consts_.add(int(str(b_[1]).split("_")[0]))
                                ops_.add(st[3][1])
                            except ValueError:
                                pass
        lens_[F.key(fid)] = consts_
        if len(consts_) > 1 or ops_ - {"Eq", "Ne"}:
            rep.violation("DEC-len", "%s|%s" % (F.key(fid), ",".join(str(c) for c in sorted(consts_))), "%s tests the input length against %s with %s: it accepts more than one length, so bytes of another key kind (a 64-byte extended key handed to the 32-byte decoder) are taken and truncated - PrivateKey::from_hex(extended.to_hex()) then yields a different key" % (F.key(fid), sorted(consts_), sorted(ops_)), {})
    n_ = [v for k, v in lens_.items() if k.startswith("<Ed25519 as") and k.endswith("secret_from_binary")]
    e_ = [v for k, v in lens_.items() if k.startswith("<Ed25519Extended as") and k.endswith("secret_from_binary")]
    if len(n_) != 1 or len(e_) != 1 or not n_[0] or not e_[0]:
        rep.lost("length gates of the normal / extended Ed25519 secret decoders not found")
    elif n_[0] & e_[0]:
        rep.violation("DEC-len", "overlap|%s" % sorted(n_[0] & e_[0]), "the normal and the extended Ed25519 secret decoders both accept length %s: PrivateKey::from_hex always picks the normal one" % sorted(n_[0] & e_[0]), {})
    # EMIP-min: the shortest ciphertext decrypt accepts is the one encrypt produces for an empty plaintext
    from ruleutil import gate_min
    rep.rule("EMIP-min", "decrypt_with_password goes on to decrypt exactly when the input holds at least salt + nonce + tag (METADATA_SIZE) bytes: the encryption of an empty plaintext has exactly that length and must decrypt")
    fid = find_fn(rep, F, "emip3::decrypt_with_password")
    msz = [int(v["val"]) for k, v in F.consts.items() if k.endswith("password_encryption_parameter::METADATA_SIZE")]
    if fid and len(msz) == 1:
        fn = F.fns[fid]
        sites = [c.bb for c in F.calls(fid) if "chacha20poly1305" in (c.to or "").lower() or (c.to or "").endswith("::decrypt")]
        rep.inst("EMIP-min")
        if not sites:
            rep.lost("decrypt call not found in decrypt_with_password")
        else:
            lo, why = gate_min(F, fid, sites[0])
            if lo is None:
                rep.lost("decrypt_with_password: no constant length gate found before the decryption (%s)" % why)
            elif lo != msz[0]:
                rep.violation("EMIP-min", "decrypt_with_password|min %d" % lo, "decrypt_with_password only decrypts inputs of at least %d bytes; salt + nonce + tag are %d bytes, which is exactly what encrypt_with_password returns for an empty plaintext: that ciphertext %s" % (lo, msz[0], "is rejected as 'Missing input data'" if lo > msz[0] else "length is not checked and the slices below would panic"), {})
    elif fid:
        rep.lost("METADATA_SIZE constant not found")
    return rep.finish(
        EXPLANATION,
        ["cryptoxide and ed25519-bip32 implement their primitives correctly", "ChaChaPoly1305::decrypt returns true exactly when the tag verifies"],
        ["rustc MIR/HIR + evaluated constants (csl-facts)", "tables/c12_primitives.json"],
    )
