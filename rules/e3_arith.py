"""E3 arith: inventory of raw integer operators, lossy casts, saturating/wrapping calls and discarded arithmetic errors
in the amount-handling scope."""
import re
from collections import defaultdict

import facts
from e1_panicpath import defs_of, provenance, site_fn_key

SCOPE_FILES = (
    "src/protocol_types/numeric/", "src/serialization/numeric/", "src/serialization/utils.rs", "src/utils.rs", "src/lib.rs",
    "src/protocol_types/metadata.rs", "src/builders/mint_builder.rs", "src/fees.rs", "src/rational.rs",
)
INT_BITS = {"u8": (0, 8), "u16": (0, 16), "u32": (0, 32), "u64": (0, 64), "u128": (0, 128), "usize": (0, 64),
            "i8": (1, 8), "i16": (1, 16), "i32": (1, 32), "i64": (1, 64), "i128": (1, 128), "isize": (1, 64)}
AMOUNT_TYPES = {"u64", "i64", "u128", "i128", "u32", "i32", "u16", "i16", "u8", "i8"}
ARITH = {"Add", "Sub", "Mul", "Div", "Rem", "Shl", "Shr", "AddWithOverflow", "SubWithOverflow", "MulWithOverflow",
         "AddUnchecked", "SubUnchecked", "MulUnchecked", "ShlUnchecked", "ShrUnchecked"}
LOSSY_CALL = re.compile(r"::(wrapping_\w+|saturating_\w+|overflowing_\w+|abs|unsigned_abs|pow|sum|product|clamped_sub|rem_euclid|div_euclid)$")
INT_TRAIT_OP = re.compile(r"^<&?(?:'\w+ )?[ui](?:8|16|32|64|128|size) as std::ops::(Add|Sub|Mul|Div|Rem|Neg|Shl|Shr)(Assign)?(<.*>)?>::\w+$")
DISCARD = re.compile(r"Result::<T, E>::(ok|unwrap_or|unwrap_or_default|unwrap_or_else|is_ok|is_err|map_or|map_or_else|unwrap|expect|err)$")


def in_scope(fn):
    return fn["file"].startswith(SCOPE_FILES) or fn["file"] in SCOPE_FILES


def rng(t):
    s, b = INT_BITS[t]
    return (-(1 << (b - 1)), (1 << (b - 1)) - 1) if s else (0, (1 << b) - 1)


def cast_lossy(frm, to):
    if frm not in INT_BITS or to not in INT_BITS:
        return None
    a, b = rng(frm), rng(to)
    if b[0] <= a[0] and a[1] <= b[1]:
        return None
    kind = "narrowing" if INT_BITS[to][1] < INT_BITS[frm][1] else "sign-changing"
    if to in ("usize", "isize") or frm in ("usize", "isize"):
        kind += " (target dependent: 32-bit on wasm32)"
    return kind


def const_cast_exact(op, to):
    """the operand of a cast is a literal whose value the target type holds exactly (`x >>= 7` casts the constant 7_i32 to u32
    for the shift amount; `0 as u8`): not a conversion of a runtime quantity"""
    if not op or op[0] != "k":
        return False
    m = re.match(r"^(-?\d+)_", str(op[1]))
    if not m or to not in INT_BITS:
        return False
    v = int(m.group(1))
    lo, hi = rng(to)
    return lo <= v <= hi


class Site:
    __slots__ = ("fid", "bb", "kind", "detail", "loc", "key", "note")

    def __init__(self, fid, bb, kind, detail, loc, note=""):
        self.fid, self.bb, self.kind, self.detail, self.loc, self.note = fid, bb, kind, detail, loc, note
        self.key = None


def sites(F):
    out = []
    for fid, fn in F.fns.items():
        if F.is_derived(fid) or not in_scope(fn) or "/tests/" in fn["file"]:
            continue
        defs = None
        for bi, bb in enumerate(fn["bbs"]):
            if bb["c"]:
                continue
            for st in bb["st"]:
                if st[1] != "=":
                    continue
                rv = st[3]
                if rv[0] == "bin" and rv[1] in ARITH and rv[4] in AMOUNT_TYPES:
                    defs = defs or defs_of(fn)
                    pa, pb = provenance(fn, defs, rv[2]), provenance(fn, defs, rv[3])
                    if rv[4] in ("i32", "u32", "usize") and pa.startswith(("counter", "constset", "const")) and pb.startswith(("const", "constset")):
                        continue  # a loop counter stepped by a constant (`attempts_left -= 1`), not an amount
                    out.append(Site(fid, bi, "op", "%s:%s" % (rv[1].replace("WithOverflow", "").replace("Unchecked", ""), rv[4]), st[0], "%s , %s" % (pa, pb)))
                elif rv[0] == "un" and rv[1] == "Neg" and rv[3] in AMOUNT_TYPES:
                    out.append(Site(fid, bi, "op", "Neg:%s" % rv[3], st[0]))
                elif rv[0] == "cast" and rv[1] in ("IntToInt",):
                    k = cast_lossy(rv[3], rv[4])
                    if k and const_cast_exact(rv[2], rv[4]):
                        k = None
                    if k:
                        defs = defs or defs_of(fn)
                        p = provenance(fn, defs, rv[2])
                        out.append(Site(fid, bi, "cast", "%s->%s" % (rv[3], rv[4]), st[0], "%s; operand %s" % (k, p)))
                elif rv[0] == "cast" and rv[1] in ("FloatToInt", "IntToFloat"):
                    out.append(Site(fid, bi, "cast", "%s:%s->%s" % (rv[1], rv[3], rv[4]), st[0]))
            t = bb["t"]
            if t[1] == "call":
                to = t[2].get("to") or ""
                if LOSSY_CALL.search(to) and ("core::num::" in to or "numeric::big_num" in to or "utils::Value" in to or "MultiAsset" in to or "Iterator::sum" in to or "Iterator::product" in to):
                    out.append(Site(fid, bi, "lossy-call", to, t[0]))
                elif to.endswith("MultiAsset::sub"):
                    out.append(Site(fid, bi, "lossy-call", to, t[0]))
                elif DISCARD.search(to):
                    defs = defs or defs_of(fn)
                    p = provenance(fn, defs, t[3][0]) if t[3] else ""
                    if "checked_" in p or "::div_floor" in p:
                        out.append(Site(fid, bi, "discard", "%s <- %s" % (to.rsplit("::", 1)[1], p.replace("call:", "")), t[0]))
                elif to.endswith("de::Deserializer::<R>::negative_integer"):
                    out.append(Site(fid, bi, "i64-reader", to, t[0]))
                elif INT_TRAIT_OP.match(to):
                    out.append(Site(fid, bi, "op", "trait:" + to, t[0]))
            if t[1] == "switch":
                # match on the Result of a checked_* call that is not the `?` desugaring: the error arm is handled locally
                pl = t[2][1] if t[2][0] in ("c", "m") else None
                if pl:
                    defs = defs or defs_of(fn)
                    ds = defs.get(pl, [])
                    if len(ds) == 1 and ds[0][0] == "st" and ds[0][2][0] == "discr":
                        src = ds[0][2][1]
                        sd = defs.get(src, [])
                        if len(sd) == 1 and sd[0][0] == "call":
                            cto = sd[0][2][2].get("to") or ""
                            if re.search(r"(big_num::BigNum|utils::Value|numeric::int::Int|BigInt)::checked_\w+$", cto):
                                out.append(Site(fid, bi, "discard", "match <- %s" % cto, t[0]))
    # keys
    by = defaultdict(list)
    for s in out:
        by[(site_fn_key(F, s.fid), s.kind, s.detail)].append(s)
    for (fk, kind, det), lst in by.items():
        lst.sort(key=lambda s: (s.fid, s.bb))
        for i, s in enumerate(lst):
            s.key = "%s|%s|%s" % (fk, kind, det)
    return out, by
