import re
"""C11 — address encodings are lossless and classified by their header (E7 header table by constant evaluation, strictness shape, nat codec shape)."""
import itertools

import common

import facts
import fieldflow as ff
import hirq as H
import mustpass as mp
import wildarms
from mustpass import call_origin, has_origin
from ruleutil import find_fn

EXPLANATION = (
    "(HDR) The header byte every Address::to_bytes arm can emit is computed by constant evaluation of the arm's header expression over "
    "all credential kinds {key, script} and network ids 0..15, and must fall in the nibble pattern of the from_bytes arm that builds "
    "the same variant; reader arms are disjoint; bit 4 / bit 5 carry the payment / stake credential kind on both sides (the reader's "
    "credential closure maps a clear bit to a key hash, the writer shifts CredKind with Key = 0); the network id is the low nibble on "
    "both sides. (STRICT) every Shelley arm of the strict parser has a NotEnough exit and a `trailing data and not lenient` exit before it "
    "constructs an address, and the Byron parser compares the consumed length with the input length. (NAT) the pointer field decoder "
    "accumulates in a type wider than its 64-bit result, rejects values above u64::MAX before narrowing, returns a value only on a "
    "byte without continuation bit and None when the input ends first; the encoder emits 7-bit groups with continuation bits. "
    "(LENIENT) the embedded reader turns every parse error into Malformed(the same input bytes) and Malformed writes its bytes back "
    "unchanged. (WILD) address-kind matches kept their explicit variants. Not decided: Bech32 / Base58 round trips and Byron attribute "
    "round trips (codecs inside dependencies, value level)."
)

AT = "protocol_types::address::AddrType"


def ev(node, env):
    """evaluate a u8 header expression; env maps path-suffix keys to ints. Raises KeyError/ValueError outside the domain."""
    node = H.strip_keepcast(node) if hasattr(H, "strip_keepcast") else node
    while H.is_node(node) and node[0] in ("block",) and not node[2] and node[3] is not None:
        node = node[3]
    if not H.is_node(node):
        raise ValueError("non-node")
    k = node[0]
    if k == "lit":
        if node[2][0] == "int":
            return int(node[2][1])
        raise ValueError("lit")
    if k == "cast":
        return ev(node[2], env) & 0xFF if node[4] in ("u8",) else ev(node[2], env)
    if k == "binary":
        a, b = ev(node[3], env), ev(node[4], env)
        op = node[2]
        if op == "BitOr":
            return a | b
        if op == "BitAnd":
            return a & b
        if op == "Shl":
            return (a << b) & 0xFFFFFFFF
        if op == "Shr":
            return a >> b
        if op == "Add":
            return a + b
        if op == "Mul":
            return a * b
        raise ValueError("op " + op)
    if k == "ref":
        return ev(node[3], env)
    p = H.path_str(node)
    if p is not None:
        for key, v in env.items():
            if p.endswith(key):
                return v
        raise KeyError(p)
    raise ValueError("kind " + k)


def hdr_rule(rep, F):
    """HDR: the header table of the address writer against the strict parser (shared with C01)"""
    # ---------------- HDR writer table ---------------------------------------------------------
    rep.rule("HDR", "every header byte a to_bytes arm can emit falls in the from_bytes arm of the same variant; credential bits and network nibble agree")
    w = find_fn(rep, F, "Address::to_bytes")
    r = find_fn(rep, F, "Address::from_bytes_internal_impl")
    cred = F.adts.get("protocol_types::credential::CredKind")
    kinds = {v["name"]: v["discr"] for v in cred["variants"]} if cred else {}
    rep.inst("HDR")
    if kinds != {"Key": 0, "Script": 1}:
        rep.violation("HDR", "CredKind", "CredKind discriminants are %s; the header bit is 0 for key and 1 for script" % kinds, {})
    writer = {}
    if w:
        hir = F.hir[w]
        ms = [n for n in H.walk(hir["body"]) if n[0] == "match" and (n[5] or "").replace("&", "").strip().endswith("AddrType")]
        if len(ms) != 1:
            rep.lost("Address::to_bytes: match over AddrType")
        else:
            for pat, g, body in ms[0][3]:
                v = H.short(H.pat_variant(pat) or "_")
                hdr = None
                for n in H.walk(body):
                    if n[0] == "block":
                        for st in n[2]:
                            if st[0] == "let" and H.pat_bindings(st[2]) == ["header"]:
                                hdr = st[3]
                if hdr is None:
                    continue
                vals = {}
                for pk, sk, net in itertools.product((0, 1), (0, 1), range(16)):
                    env = {"payment.kind()": pk, "stake.kind()": sk, ".network": net}
                    try:
                        vals[(pk, sk, net)] = ev(hdr, env) & 0xFF
                    except (KeyError, ValueError) as e:
                        rep.lost("Address::to_bytes arm %s: header expression outside the evaluator's domain (%s)" % (v, e))
                        vals = None
                        break
                if vals:
                    writer[v] = vals
    rep.floor("writer arms with a computed header", 4, len(writer))
    # reader table
    reader = {}
    cred_bits = {}
    if r:
        cl = [k for k in F.hir if k.startswith(r)]
        hir = F.hir[r]
        ms = []
        for n in H.walk(hir["body"]):
            if n[0] == "match":
                sc = H.strip(n[2])
                if H.is_node(sc) and sc[0] == "binary" and sc[2] == "Shr":
                    ms.append(n)
        if len(ms) != 1:
            rep.lost("from_bytes_internal_impl: match over the header nibble")
        else:
            sc = H.strip(ms[0][2])
            rep.inst("HDR")
            try:
                ok_scrut = all(ev(sc, {"header": h}) == (h & 0xF0) >> 4 for h in range(256))
            except (KeyError, ValueError):
                ok_scrut = False
            if not ok_scrut:
                rep.violation("HDR", "reader-scrutinee", "the strict parser no longer dispatches on the high nibble of the header", {})
            for pat, g, body in ms[0][3]:
                lits = []
                for alt in H.pat_alternatives(pat):
                    if alt[0] == "plit":
                        lits.append(int(alt[1][1]))
                ctor = None
                bits = {}
                for n in H.walk(body):
                    if n[0] == "call" and (n[2] or "").startswith("ctor:") and "AddrType::" in n[2]:
                        ctor = n[2].rsplit("::", 1)[1]
                    if n[0] == "call" and H.path_str(n[3]) == "read_addr_cred" and len(n[4]) == 2:
                        bit = H.lit_int(n[4][0])
                        bits.setdefault("calls", []).append(bit)
                if ctor and lits:
                    reader[ctor] = set(lits)
                    cred_bits[ctor] = bits.get("calls", [])
        # credential closure: clear bit -> keyhash
        rep.inst("HDR")
        ok_cl = False
        for n in H.walk(hir["body"]):
            if n[0] == "closure" and [b for p in n[3] for b in H.pat_bindings(p)] == ["bit", "pos"]:
                for x in H.walk(n[4]):
                    if x[0] == "if":
                        c = H.strip(x[2])
                        if H.is_node(c) and c[0] == "binary" and c[2] == "Eq" and H.lit_int(c[4]) == 0:
                            t = str(x[3])
                            e = str(x[4])
                            if "from_keyhash" in t and "from_scripthash" in e:
                                try:
                                    if all(ev(c[3], {"header": h, "bit": b}) == (h & (1 << b)) for h in (0, 0x10, 0x20, 0x30) for b in (4, 5)):
                                        ok_cl = True
                                except (KeyError, ValueError):
                                    pass
        if not ok_cl:
            rep.violation("HDR", "cred-closure", "the credential reader no longer maps a clear header bit to a key hash and a set bit to a script hash", {})
        # network nibble
        rep.inst("HDR")
        net_ok = False
        for n in H.walk(hir["body"]):
            if n[0] == "block":
                for st in n[2]:
                    if st[0] == "let" and H.pat_bindings(st[2]) == ["network"] and st[3] is not None:
                        try:
                            net_ok = all(ev(st[3], {"header": h}) == (h & 0x0F) for h in range(256))
                        except (KeyError, ValueError):
                            net_ok = False
        if not net_ok:
            rep.violation("HDR", "network", "the strict parser no longer takes the network id from the low nibble of the header", {})
    rep.floor("reader arms constructing a Shelley variant", 4, len([k for k in reader if k in ("Base", "Ptr", "Enterprise", "Reward")]))
    for v, vals in writer.items():
        rep.inst("HDR", len(vals))
        if v not in reader:
            rep.violation("HDR", "%s|no-reader" % v, "no strict-parser arm constructs AddrType::%s" % v, {})
            continue
        bad = sorted({h for h in vals.values() if (h >> 4) not in reader[v]})
        if bad:
            rep.violation("HDR", "%s|nibble" % v, "Address::to_bytes can emit header(s) %s for %s, which the strict parser does not classify as %s (its nibbles: %s)" % (["0x%02x" % h for h in bad[:4]], v, v, sorted(reader[v])), {})
        for (pk, sk, net), h in vals.items():
            if (h & 0x0F) != net:
                rep.violation("HDR", "%s|network" % v, "Address::to_bytes does not place the network id in the low nibble for %s" % v, {})
                break
        for (pk, sk, net), h in vals.items():
            if ((h >> 4) & 1) != pk:
                rep.violation("HDR", "%s|payment-bit" % v, "Address::to_bytes does not encode the payment credential kind in header bit 4 for %s" % v, {})
                break
        if v == "Base":
            for (pk, sk, net), h in vals.items():
                if ((h >> 5) & 1) != sk:
                    rep.violation("HDR", "Base|stake-bit", "Address::to_bytes does not encode the stake credential kind in header bit 5 for base addresses", {})
                    break
        want_bits = [4, 5] if v == "Base" else [4]
        if cred_bits.get(v) != want_bits:
            rep.violation("HDR", "%s|reader-bits" % v, "the strict parser reads the credential kind(s) of %s from header bit(s) %s, expected %s" % (v, cred_bits.get(v), want_bits), {})
    allsets = [s for k, s in reader.items()]
    rep.inst("HDR")
    if sum(len(s) for s in allsets) != len(set().union(*allsets)) if allsets else False:
        rep.violation("HDR", "overlap", "strict-parser nibble patterns overlap between variants: %s" % {k: sorted(v) for k, v in reader.items()}, {})
    if writer and reader:
        rep.sample({"rule": "HDR", "reader_nibbles": {k: sorted(v) for k, v in reader.items()}, "writer_headers": {k: sorted({"0x%02x" % h for h in v.values()})[:4] for k, v in writer.items()}})
    return w, r


def check(rep, F, tier, replay=None):
    w, r = hdr_rule(rep, F)
    # ---------------- STRICT -------------------------------------------------------------------
    rep.rule("STRICT", "each Shelley arm has a NotEnough exit and a `TrailingData && !ignore_leftover_bytes` exit; the Byron parser compares consumed and total length")
    if r:
        hir = F.hir[r]
        for n in H.walk(hir["body"]):
            if n[0] == "match" and H.is_node(H.strip(n[2])) and H.strip(n[2])[0] == "binary" and H.strip(n[2])[2] == "Shr":
                for pat, g, body in n[3]:
                    ctor = None
                    for x in H.walk(body):
                        if x[0] == "call" and (x[2] or "").startswith("ctor:") and "AddrType::" in x[2]:
                            ctor = x[2].rsplit("::", 1)[1]
                    if ctor not in ("Base", "Ptr", "Enterprise", "Reward"):
                        continue
                    rep.inst("STRICT")
                    txt = str(body)
                    ne = "Error::NotEnough" in txt
                    tr = False
                    for x in H.walk(body):
                        if x[0] == "if":
                            c = str(x[2])
                            if "ignore_leftover_bytes" in c and "Not" in c and "TrailingData" in str(x[3]):
                                tr = True
                        if x[0] == "match":
                            for pat2, g2, b2 in x[3]:
                                if g2 is not None and "ignore_leftover_bytes" in str(g2) and "Not" in str(g2) and "TrailingData" in str(b2):
                                    tr = True  # `Ordering::Greater if !ignore_leftover_bytes => Err(TrailingData)`
                    if ne and not tr and "TrailingData" in txt and "ignore_leftover_bytes" in txt:
                        rep.lost("the strict parser's %s arm mentions TrailingData and ignore_leftover_bytes in a shape STRICT does not read" % ctor)
                        continue
                    if not ne or not tr:
                        rep.violation("STRICT", "%s|%s" % (ctor, "not-enough" if not ne else "trailing"), "the strict parser's %s arm lacks the %s exit: %s input would be accepted" % (ctor, "NotEnough" if not ne else "TrailingData (unless lenient)", "truncated" if not ne else "over-long"), {})
    # every stand-alone Byron entry point: the function that owns the cursor compares consumed and total length
    owners = {}
    for fid, fn in F.fns.items():
        if "/tests/" in fn["file"] or F.is_derived(fid):
            continue
        cs = F.calls(fid)
        if any("Cursor::<T>::new" in (c.to or "") for c in cs) and any((c.to or "").endswith("::deserialize") for c in cs) and any(l == "legacy_address::address::ExtendedAddr" for l in fn["locals"]):
            owners[fid] = fn
    entries = [fid for fid, fn in F.fns.items() if F.key(fid).startswith("ByronAddress::") and "/tests/" not in fn["file"] and not F.is_derived(fid)]
    reach = set()
    for e in entries:
        seen_, stack_ = {e}, [(e, 0)]
        while stack_:
            x, d_ = stack_.pop()
            if x in owners:
                reach.add(x)
            if d_ >= 4:
                continue
            for c in F.calls(x) if x in F.fns else []:
                t_ = c.to_id if hasattr(c, "to_id") else None
                for cand in ([t_] if t_ else [f2 for f2 in F.fns if c.to and (f2 == c.to or F.fns[f2].get("t") == c.to)]):
                    if cand and cand not in seen_:
                        seen_.add(cand)
                        stack_.append((cand, d_ + 1))
    rep.floor("cursor-owning Byron parsers reachable from ByronAddress entry points", 2, len(reach))
    for b in sorted(reach):
        rep.inst("STRICT")
        ok = False
        for bi, kind, loc in mp.success_stores(F, b):
            for s_, edge, d in mp.dominating_guards(F, b, bi):
                if d["kind"] == "bin" and d["op"] in ("Ne", "Eq"):
                    both = d["lhs"] + d["rhs"]
                    if has_origin(both, call_origin("Cursor::<T>::position")) and (has_origin(both, call_origin("Vec::<T, A>::len")) or has_origin(both, call_origin("::len")) or "arg:1" in both):
                        if (d["op"] == "Ne" and edge == "0") or (d["op"] == "Eq" and edge != "0"):
                            ok = True
        if not ok:
            k_ = F.key(b)
            rep.violation("STRICT", "Byron|trailing" if k_ == "ByronAddress::from_bytes" else "Byron|trailing|%s" % k_, "%s returns Ok without having compared the consumed length with the input length: bytes after the CRC-protected address are silently dropped (ByronAddress::from_base58 / is_valid accept base58(address ++ 00) and re-encode it differently)" % k_, {})
    # ---------------- NAT ----------------------------------------------------------------------
    rep.rule("NAT", "variable_nat_decode: accumulator wider than 64 bits, > u64::MAX rejected before narrowing, Some only on a byte without continuation bit, None at end of input")
    d = find_fn(rep, F, "protocol_types::address::variable_nat_decode")
    if d:
        fn = F.fns[d]
        shl = [(bi, st) for bi, bb in enumerate(fn["bbs"]) for st in bb["st"] if st[1] == "=" and st[3][0] == "bin" and st[3][1].startswith("Shl")]
        casts = [(bi, st) for bi, bb in enumerate(fn["bbs"]) for st in bb["st"] if st[1] == "=" and st[3][0] == "cast" and st[3][1] == "IntToInt" and st[3][4] == "u64"]
        rep.inst("NAT")
        if not shl or any(st[3][4] != "u128" for bi, st in shl):
            rep.violation("NAT", "accumulator", "variable_nat_decode shifts a %s accumulator: bits shifted out of a 64-bit accumulator are lost silently, so over-wide pointer fields would be accepted with a wrapped value" % (sorted({st[3][4] for bi, st in shl}) or "missing"), {})
        rep.inst("NAT")
        guarded = False
        for bi, st in casts:
            if st[3][3] != "u128":
                continue
            for s, edge, dsc in mp.dominating_guards(F, d, bi):
                if dsc["kind"] == "bin" and dsc["op"] in ("Gt", "Ge") and edge == "0":
                    # constant operand = u64::MAX as u128
                    for stt in fn["bbs"][dsc["bb"]]["st"]:
                        if stt[1] == "=" and stt[3][0] == "bin" and stt[3][1] == dsc["op"]:
                            c = facts.const_int(stt[3][3])
                            if c == (1 << 64) - 1 or (dsc["op"] == "Ge" and c == (1 << 64)):
                                guarded = True
                    if has_origin(dsc["rhs"], call_origin("Into<U>>::into")) or has_origin(dsc["rhs"], call_origin("From<u64>>::from")):
                        guarded = True
        if casts and not guarded:
            rep.violation("NAT", "overflow-check", "variable_nat_decode narrows to u64 without a dominating `> u64::MAX` rejection", {})
        checked_narrow = [c for c in F.calls(d) if re.search(r"(TryFrom<u128>>::try_from|TryInto<u64>>::try_into|TryFrom<.*> for u64>::try_from|TryInto<U>>::try_into)$", c.to or "")]
        if not casts and checked_narrow:
            pass  # u64::try_from(u128): the exact, fallible narrowing - nothing above 2^64 - 1 gets through
        elif not casts and shl and all(st[3][4] == "u128" for bi, st in shl):
            rep.violation("NAT", "no-narrowing", "variable_nat_decode no longer narrows its wide accumulator explicitly", {})
        # Some only under (byte & 0x80) == 0 ; None at loop end
        rep.inst("NAT")
        somes = [(bi, st) for bi, bb in enumerate(fn["bbs"]) for st in bb["st"] if st[1] == "=" and st[2] == "_0" and st[3][0] == "agg" and st[3][3] == "Some"]
        nones = [(bi, st) for bi, bb in enumerate(fn["bbs"]) for st in bb["st"] if st[1] == "=" and st[2] == "_0" and st[3][0] == "agg" and st[3][3] == "None"]
        ok_some = bool(somes)
        for bi, st in somes:
            good = False
            for s, edge, dsc in mp.dominating_guards(F, d, bi):
                if dsc["kind"] == "bin" and dsc["op"] == "Eq" and edge != "0":
                    for stt in fn["bbs"][dsc["bb"]]["st"]:
                        if stt[1] == "=" and stt[3][0] == "bin" and stt[3][1] == "BitAnd" and facts.const_int(stt[3][3]) == 0x80:
                            good = True
                    for o in dsc["lhs"]:
                        if o.startswith("call:") and "BitAnd" in o:
                            cb = int(o.split("@")[1])
                            t = fn["bbs"][cb]["t"]
                            if any(facts.const_int(a) == 0x80 for a in t[3]):
                                good = True
            ok_some = ok_some and good
        if not ok_some:
            rep.violation("NAT", "terminator", "variable_nat_decode returns a value on a path where the last byte read still has its continuation bit set (or never returns one)", {})
        residual_nones = [c for c in F.calls(d) if (c.to or "").endswith("from_residual") and c.dest == "_0"]
        if len(nones) + len(residual_nones) < 2:
            rep.violation("NAT", "unterminated", "variable_nat_decode lacks the None exits for overflow / unterminated input (found %d)" % len(nones), {})
    e = find_fn(rep, F, "protocol_types::address::variable_nat_encode")
    if e:
        rep.inst("NAT")
        hir = F.hir[e]
        txt = str(hir["body"])
        lits = sorted({H.lit_int(x) for x in H.walk(hir["body"]) if H.lit_int(x) is not None})
        if not (127 in lits and 128 in lits and "reverse" in txt):
            rep.violation("NAT", "encode", "variable_nat_encode no longer emits 7-bit groups with continuation bits in big-endian order (literals %s)" % lits, {})
    # ---------------- LENIENT ------------------------------------------------------------------
    rep.rule("LENIENT", "embedded reader: Err -> Malformed(same input bytes); Malformed writes its bytes back unchanged")
    u = find_fn(rep, F, "Address::from_bytes_impl_unsafe")
    if u:
        rep.inst("LENIENT")
        fn = F.fns[u]
        org = ff.Origins(F, u)
        mal = [(bi, st) for bi, bb in enumerate(fn["bbs"]) for st in bb["st"] if st[1] == "=" and st[3][0] == "agg" and st[3][2].endswith("MalformedAddress")]
        if not mal:
            rep.violation("LENIENT", "no-malformed", "from_bytes_impl_unsafe no longer falls back to a malformed-address carrier", {})
        else:
            o = org.of_operand(mal[0][1][3][4][0])
            cut = [x for x in o if x.startswith("call:") and any(k in x for k in ("ops::Index", "::get", "split", "truncate", "::take", "::skip", "chunks", "::min", "::max"))]
            if cut:
                rep.violation("LENIENT", "partial-bytes", "the malformed-address carrier holds only part of / a transformation of the input bytes (%s)" % cut[0].split("@")[0][5:], {})
            if "arg:1" not in o or not has_origin(o, call_origin("to_vec")):
                rep.violation("LENIENT", "other-bytes", "the malformed-address carrier does not hold a copy of the input bytes", {"origins": sorted(o)[:8]})
        if not any((c.to or "").endswith("from_bytes_internal_impl") for c in F.calls(u)):
            rep.violation("LENIENT", "no-parse", "from_bytes_impl_unsafe no longer tries the strict parser first", {})
    dser = find_fn(rep, F, "<Address as serialization::traits::Deserialize>::deserialize")
    if dser:
        rep.inst("LENIENT")
        if not any((c.to or "").endswith("from_bytes_impl_unsafe") for c in F.calls(dser)):
            rep.violation("LENIENT", "embedded-entry", "the embedded Address reader no longer goes through the lenient parser: a non-address byte string would make the enclosing structure undecodable", {})
    if w:
        rep.inst("LENIENT")
        hir = F.hir[w]
        ok = False
        for n in H.walk(hir["body"]):
            if n[0] == "match" and (n[5] or "").replace("&", "").strip().endswith("AddrType"):
                for pat, g, body in n[3]:
                    if H.short(H.pat_variant(pat) or "") == "Malformed":
                        b = H.pat_bindings(pat)
                        for c in H.calls_in(body, "extend"):
                            p = H.path_str(c[5][0])
                            if b and p in (b[0] + ".0", b[0] + ".0.clone()"):
                                ok = True
        if not ok:
            rep.violation("LENIENT", "write-back", "Address::to_bytes no longer writes a malformed address's bytes back unchanged", {})
    wildarms.check(rep, F, "C11")
    # LENIENT-tail: the lenient (embedded) decoder keeps what it cannot represent exactly
    rep.rule("LENIENT-tail", "the lenient address decoder used inside larger structures does not ask the parser to ignore leftover bytes: an address followed by extra bytes is kept verbatim as malformed (and written back unchanged) instead of being truncated to a well-formed address")
    fid_ = find_fn(rep, F, "Address::from_bytes_impl_unsafe")
    if fid_:
        fn_ = F.fns[fid_]
        cs_ = [c for c in F.calls(fid_) if (c.to or "").endswith("Address::from_bytes_internal_impl")]
        if not cs_:
            rep.lost("from_bytes_impl_unsafe no longer calls from_bytes_internal_impl")
        for c in cs_:
            rep.inst("LENIENT-tail")
            a_ = fn_["bbs"][c.bb]["t"][3]
            flag = a_[1] if len(a_) > 1 else None
            if flag and flag[0] == "k" and str(flag[1]) == "true":
                rep.violation("LENIENT-tail", "Address::from_bytes_impl_unsafe|ignore_leftover_bytes", "the lenient decoder parses with ignore_leftover_bytes = true: a TransactionOutput whose address field is a valid enterprise / base / reward address followed by extra bytes decodes to that address without the extra bytes, and re-encodes to different bytes (the strict parser rejects the same input with TrailingData)", {})
    # Byron attributes are stored as read: no constructor or decoder may normalise them (e.g. drop an explicit mainnet magic)
    rep.rule("BYRON-verbatim", "every function that builds a Byron `Attributes` value stores derivation_path and protocol_magic exactly as given / read: the stored operands pass through no filtering or mapping call (Option::filter / map / and_then, NetworkInfo lookups), so an address that spells out a redundant attribute is re-emitted with it")
    ATTR = [a for a in F.adts if a.endswith("legacy_address::address::Attributes")]
    n_attr = 0
    if len(ATTR) != 1:
        rep.lost("legacy_address::address::Attributes not found")
    else:
        for fid_, fn_ in F.fns.items():
            if "/tests/" in fn_["file"] or F.is_derived(fid_):
                continue
            org_ = None
            for bb_ in fn_["bbs"]:
                for st_ in bb_["st"]:
                    if st_[1] == "=" and st_[3][0] == "agg" and st_[3][2] == ATTR[0]:
                        org_ = org_ or ff.Origins(F, fid_)
                        n_attr += 1
                        rep.inst("BYRON-verbatim")
                        for op_ in st_[3][4]:
                            o_ = org_.of_operand(op_)
                            badc = sorted({x.split("@")[0][5:] for x in o_ if x.startswith("call:") and (x.split("@")[0].rsplit("::", 1)[-1] in ("filter", "map", "and_then", "take_if", "xor", "or", "unwrap_or", "unwrap_or_default", "protocol_magic", "mainnet", "network_id") or "NetworkInfo" in x)})
                            if badc:
                                rep.violation("BYRON-verbatim", "%s|%s" % (F.key(fid_), ",".join(H.short(b) for b in badc)), "%s stores a Byron attribute that went through %s: an attribute present in the parsed address can be dropped or altered, so bytes / Base58 / Bech32 of the re-encoded address differ from the input" % (F.key(fid_), ", ".join(H.short(b) for b in badc)), {})
        # the decoder must build the value itself or through a constructor that is judged above; it must not post-process the result
        dec = [k for k in F.fns if k.endswith("Deserialize for legacy_address::address::Attributes>::deserialize") or ("legacy_address::address" in k and "Attributes" in k and k.endswith("::deserialize"))]
        rep.floor("constructions of Byron Attributes inspected", 2, n_attr)
    # Byron attribute map: the decoder accepts the two entries in either order, so byte identity of a round trip rests on the writer
    # alone: key 1 (derivation payload) before key 2 (protocol magic), the canonical order every existing Byron address uses.
    from e2_all import Inventory, short_ty
    rep.rule("BYRON-attr", "the Byron attribute writer emits key 1 = derivation payload and key 2 = protocol magic, in ascending key order, in every presence state (E2 wire table)")
    inv = Inventory(F)
    wf = [fid for T, fid in inv.ser.items() if T.endswith("legacy_address::address::Attributes")]
    if len(wf) != 1:
        rep.lost("Byron Attributes writer not found")
    else:
        r = inv.result(wf[0])
        if r["status"] != "ok":
            rep.lost("Byron Attributes writer is not derivable by E2 (%s)" % r.get("why"))
        else:
            maps = [c for c in r["containers"] if c["kind"] == "map" and c.get("sid", 0) == 0]
            seen = set()
            for c in maps:
                rep.inst("BYRON-attr")
                ks = [k for k in c["keys"]]
                seen |= set(ks)
                if ks != sorted(ks) or any(not isinstance(k, int) for k in ks):
                    rep.violation("BYRON-attr", "order|%s" % ks, "Byron attributes are written with keys in the order %s: existing addresses carry them in ascending order, so parse -> to_bytes / Base58 no longer reproduces the input" % ks, {})
                for k, v in zip(c["keys"], c["vals"]):
                    if k == 1 and isinstance(v, str) and "derivation_path" not in v:
                        rep.violation("BYRON-attr", "key1|%s" % v, "Byron attribute key 1 is written from %s, not from the derivation payload" % v, {})
            if seen != {1, 2}:
                rep.violation("BYRON-attr", "keys|%s" % sorted(seen), "Byron attribute writer emits keys %s, expected {1, 2}" % sorted(seen), {})
            rep.floor("presence states of the Byron attribute map", 4, len(maps))
    # BECH-total / NET-table
    rep.rule("BECH-total", "Address::to_bech32 never fails because of the network lookup: the result of network_id() is not propagated with `?` (it only selects the prefix, which does not affect the encoded data) - otherwise a Byron address of an unknown network has no Bech32 and no JSON form, and no structure containing it converts to JSON")
    tb_ = find_fn(rep, F, "Address::to_bech32")
    if tb_:
        rep.inst("BECH-total")
        fn_ = F.fns[tb_]
        org_ = ff.Origins(F, tb_)
        prop = False
        for c in F.calls(tb_):
            if (c.to or "").endswith("Try>::branch"):
                o_ = org_.of_operand(fn_["bbs"][c.bb]["t"][3][0])
                if any(x.startswith("call:") and x.split("@")[0].endswith("Address::network_id") for x in o_) and not any(x.startswith("call:") and "bech32::encode" in x for x in o_):
                    prop = True
        if prop:
            rep.violation("BECH-total", "Address::to_bech32|network_id?", "Address::to_bech32 propagates the error of network_id(): ByronAddress::icarus_from_key(key, 42).to_address().to_bech32(None) and to_json() fail (`Unknown network 42`), so the address has no Bech32 / JSON form", {})
    rep.rule("NET-table", "ByronAddress::network_id decides on byron_protocol_magic() (which supplies the mainnet magic when the attribute is omitted) and compares it with the protocol magic of each known network (mainnet, preprod, preview): an address that spells out the mainnet magic reports the same network as one that omits it")
    bn_ = find_fn(rep, F, "ByronAddress::network_id")
    if bn_:
        rep.inst("NET-table")
        cs_ = [c.to or "" for c in F.calls(bn_)]
        nets = {n_ for n_ in ("mainnet", "testnet_preprod", "testnet_preview") if any(x.endswith("NetworkInfo::" + n_) for x in cs_)}
        n_magic = sum(1 for x in cs_ if x.endswith("NetworkInfo::protocol_magic"))
        via = any(x.endswith("ByronAddress::byron_protocol_magic") for x in cs_)
        if not via or n_magic < 3 or len(nets) < 3:
            rep.violation("NET-table", "ByronAddress::network_id", "ByronAddress::network_id %s and compares with %d network magic(s) of %s: a decoded Byron address whose attributes carry the explicit mainnet magic 764824073 is reported as `Unknown network` (no network id, no default Bech32, no JSON) although byron_protocol_magic() answers mainnet" % ("reads the raw attribute instead of byron_protocol_magic()" if not via else "uses byron_protocol_magic()", n_magic, sorted(nets)), {})
    # ADDR-cast: no unaudited lossy cast in address code
    import e3_arith as e3_
    rep.rule("ADDR-cast", "no lossy integer cast (narrowing / sign-changing `as`) in the address code (legacy_address, protocol_types/address.rs) outside the audited inventory: a checksum, length or header value read from the wire is compared / used at its full width (a CRC item narrowed to u32 before the comparison accepts `k * 2^32 + crc`)")
    aud_ = common.load_table("c11_casts.json")["casts"]
    seen_ = {}
    tot_ = 0
    for fid_, fn_ in F.fns.items():
        if F.is_derived(fid_) or "/tests/" in fn_["file"]:
            continue
        if not (fn_["file"].startswith("src/legacy_address/") or fn_["file"].endswith("protocol_types/address.rs")):
            continue
        for bb in fn_["bbs"]:
            if bb["c"]:
                continue
            for st in bb["st"]:
                if st[1] == "=" and st[3][0] == "cast" and st[3][1] == "IntToInt":
                    tot_ += 1
                    if e3_.cast_lossy(st[3][3], st[3][4]) and not e3_.const_cast_exact(st[3][2], st[3][4]):
                        k_ = "%s|%s->%s" % (F.key(fid_.split("::{closure")[0]), st[3][3], st[3][4])
                        seen_[k_] = seen_.get(k_, 0) + 1
    rep.inst("ADDR-cast", tot_)
    for k_, n_ in sorted(seen_.items()):
        if k_ in aud_ and n_ <= aud_[k_]["count"]:
            rep.allow("ADDR-cast", n_)
            continue
        rep.violation("ADDR-cast", k_, "lossy integer cast %s (%d site(s)) in address code, not in the audited inventory: a value read from the wire is narrowed before it is checked or used, so bytes that are not a valid address can be accepted as one and re-encoded differently" % (k_, n_), {})
    rep.floor("integer casts inspected in address code", 30, tot_)
    from ruleutil import ser_filter_rule
    ser_filter_rule(rep, F)
    # FIXED-exact: a fixed-size field of a decoded Byron address is converted from exactly that many bytes
    rep.rule("FIXED-exact", "in the Byron payload decoder (ExtendedAddr::deserialize) the 28-byte root is produced from the bytes of the wire by an exact-length conversion (slice -> [u8; 28] try_into / try_from, which fails unless the lengths are equal), or by a copy that is dominated by comparisons pinning the length to exactly 28: a longer root that is cut to 28 bytes makes the strict parsers accept bytes that re-encode differently, and an embedded such address is classified Byron instead of being kept verbatim as malformed")
    import fieldflow as _ff
    from ruleutil import gate_min as _gmin, gate_limit as _glim
    ids_ = [f for f in F.fns if f.endswith("Deserialize for legacy_address::address::ExtendedAddr>::deserialize") or F.key(f) == "<ExtendedAddr as cbor_event::Deserialize>::deserialize"]
    if len(ids_) != 1:
        rep.lost("ExtendedAddr::deserialize not found (%d)" % len(ids_))
    else:
        fid_ = ids_[0]
        fn_ = F.fns[fid_]
        org_ = _ff.Origins(F, fid_)
        aggs_ = [(bi, st) for bi, bb in enumerate(fn_["bbs"]) if not bb["c"] for st in bb["st"] if st[1] == "=" and st[3][0] == "agg" and str(st[3][2]).endswith("legacy_address::address::ExtendedAddr")]
        if len(aggs_) != 1:
            rep.lost("ExtendedAddr::deserialize: struct construction not found")
        else:
            bi_, st_ = aggs_[0]
            rep.inst("FIXED-exact")
            o_ = org_.of_operand(st_[3][4][0])
            from_wire = any(x.startswith("call:") and x.split("@")[0].endswith("Deserializer::<R>::bytes") for x in o_)
            exact = any(x.startswith("call:") and re.search(r"(TryInto<U>>::try_into|TryFrom<&.*\[T\]> for \[T; N\]>::try_from|TryFrom<.*>>::try_from)$", x.split("@")[0]) for x in o_)
            copies = [c for c in F.calls(fid_) if (c.to or "").endswith("copy_from_slice") or (c.to or "").endswith("clone_from_slice")]
            if copies:
                for c in copies:
                    lo, hi = _gmin(F, fid_, c.bb)[0], _glim(F, fid_, c.bb)[0]
                    if lo != 28 or hi != 28:
                        rep.violation("FIXED-exact", "ExtendedAddr::deserialize|root|%s..%s" % (lo, hi), "ExtendedAddr::deserialize copies the root out of the wire bytes where their length is only known to be in %s ..= %s: a root of another length (29, 32, 56 bytes) with a correct CRC is accepted and cut to 28 bytes - ByronAddress::from_bytes / from_base58 / Address::from_bytes answer Ok and re-encode to different bytes, and inside a TransactionOutput the bytes are classified Byron instead of being kept verbatim" % (lo if lo is not None else "0", hi if hi is not None else "unbounded"), {"line": c.line})
            elif not from_wire:
                rep.lost("ExtendedAddr::deserialize: the root no longer comes from raw.bytes()")
            elif not exact:
                rep.lost("ExtendedAddr::deserialize: neither an exact-length conversion nor a gated copy produces the root (origins %s)" % sorted(x.split("@")[0][-40:] for x in o_ if x.startswith("call:"))[:5])
    return rep.finish(
        EXPLANATION,
        ["bech32 / base58 / CRC codecs are dependencies or value-level (not decided)", "the strict parsers never panic: C02"],
        ["rustc HIR/MIR (csl-facts)", "tables/wildarms.json"],
    )
