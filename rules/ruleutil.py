"""Shared rule helpers: anchors, transitive field reads, must-flow table runner, amount-operator scan."""
import json
import re

import facts
import mustflow


def find_fn(rep, F, key):
    ids = F.by_key(key)
    if len(ids) != 1:
        rep.lost("function %s not found (got %d candidates)" % (key, len(ids)))
        return None
    return ids[0]


def fields_read(F, fid, depth=3):
    """(adt, field) pairs appearing in places of fid and its local callees up to `depth`"""
    seen = set()
    out = set()
    work = [(fid, 0)]
    while work:
        f, d = work.pop()
        if f in seen or f not in F.fns:
            continue
        seen.add(f)
        fn = F.fns[f]
        txt = json.dumps(fn["bbs"])
        for m in re.finditer(r"f:([^:|\"]+(?:::[^:|\"]+)*):[^:|\"]*:([A-Za-z0-9_]+)", txt):
            out.add((m.group(1), m.group(2)))
        if d < depth:
            for c in F.calls(f):
                if c.info.get("local") and c.to in F.fns:
                    work.append((c.to, d + 1))
            for cl in F.closures_of.get(f, []):
                work.append((cl, d))
    return out


def run_mustflow(rep, F, entries):
    rep.rule("MF", "on every success path, the returned value is derived from the source term (flow-sensitive must-flow on MIR)")
    for e in entries:
        ids = F.by_key(e["fn"])
        if len(ids) != 1:
            rep.lost("mustflow anchor %s not found" % e["fn"])
            continue
        fid = ids[0]
        ff = mustflow.FnFlow(F, fid)
        for src in e["sources"]:
            rep.inst("MF")
            if src.startswith("arg:"):
                res = ff.run(("arg", int(src[4:])))
                sites = [None]
                allres = [res]
            else:
                cs = mustflow.find_calls(F, fid, lambda to, c: to.endswith(src) or F.key(to) .endswith(src) if to in F.fns else to.endswith(src))
                if not cs:
                    rep.violation("MF", "%s|%s|missing" % (e["fn"], src), "%s no longer calls %s: the term it contributed (%s) is missing from the total" % (e["fn"], src, e.get("what", "")), {"function": e["fn"], "source": src})
                    continue
                allres = [ff.run(("call", c.bb)) for c in cs]
            for res in allres:
                bad = [r for r in res if not r["ok"]]
                if not res:
                    rep.violation("MF", "%s|%s|noreturn" % (e["fn"], src), "%s: no success return is reachable after computing %s" % (e["fn"], src), {"function": e["fn"], "source": src})
                elif bad:
                    where = ", ".join(facts.loc_str(r["loc"], F.fns[fid]) for r in bad)
                    rep.violation("MF", "%s|%s" % (e["fn"], src), "%s: the value returned at %s is not derived from %s on some path (term dropped or accumulator overwritten) — %s" % (e["fn"], where, src, e.get("what", "")), {"function": e["fn"], "source": src, "returns": bad})
                else:
                    rep.sample({"mustflow": e["fn"], "source": src, "success_returns_checked": len(res)})


AMOUNT_TYPES = {"u64", "i64", "u128", "i128", "i32", "u32"}
ARITH = {"Add", "Sub", "Mul", "Div", "Rem", "AddWithOverflow", "SubWithOverflow", "MulWithOverflow", "AddUnchecked", "SubUnchecked", "MulUnchecked", "Shl", "Shr", "Neg"}


def raw_amount_ops(F, fid, types=AMOUNT_TYPES, with_closures=True):
    """[(fid, op, ty, loc)] raw integer operators on amount-width integers in fid (and its closures)"""
    out = []
    subs = [fid]
    if with_closures:
        subs += [c for c in F.fns if c.startswith(fid + "::{closure")]
    for sub in subs:
        fn = F.fns[sub]
        for bb in fn["bbs"]:
            if bb["c"]:
                continue
            for st in bb["st"]:
                if st[1] == "=" and st[3][0] == "bin" and st[3][1] in ARITH and st[3][4] in types:
                    out.append((sub, st[3][1], st[3][4], st[0]))
                if st[1] == "=" and st[3][0] == "un" and st[3][1] == "Neg" and st[3][3] in types:
                    out.append((sub, "Neg", st[3][3], st[0]))
    return out


def stmt_reading_field(F, fid, adt, field):
    """first (bb, si) whose rvalue mentions the field place"""
    fn = F.fns[fid]
    needle = "f:%s:-:%s" % (adt, field)
    for bi, bb in enumerate(fn["bbs"]):
        if bb["c"]:
            continue
        for si, st in enumerate(bb["st"]):
            if st[1] == "=" and needle in json.dumps(st[3]):
                return (bi, si)
    return None


def placeholder_full_rule(rep, F):
    """add_inputs_from_and_change_with_collateral_return fixes change and fee against a *placeholder* collateral return; the placeholder
    must be at least as large as the real return, i.e. carry the collateral's full value (every asset), not a projection of it."""
    import fieldflow as ff
    rep.rule("PLACEHOLDER-full", "the placeholder collateral-return output used while change and fee are computed is built from the full collateral value (all assets): its value operand derives from TransactionBuilder.collateral and passes through no coin projection (Value::coin / Value::new)")
    fid = find_fn(rep, F, "TransactionBuilder::add_inputs_from_and_change_with_collateral_return")
    if not fid:
        return
    fn = F.fns[fid]
    org = ff.Origins(F, fid)
    sets = [c for c in F.calls(fid) if (c.to or "").endswith("TransactionBuilder::set_collateral_return")]
    news = [c for c in F.calls(fid) if (c.to or "").endswith("TransactionOutput::new")]
    if not sets or not news:
        rep.lost("placeholder collateral return (set_collateral_return(TransactionOutput::new(..))) not found in add_inputs_from_and_change_with_collateral_return")
        return
    first_set = min(sets, key=lambda c: c.bb)
    o_set = org.of_operand(fn["bbs"][first_set.bb]["t"][3][1])
    for c in news:
        if not any(x == "call:%s@%d" % (c.to, c.bb) for x in o_set):
            continue
        rep.inst("PLACEHOLDER-full")
        o = org.of_operand(fn["bbs"][c.bb]["t"][3][1])
        if "field:builders::tx_builder::TransactionBuilder.collateral" not in o:
            rep.violation("PLACEHOLDER-full", "not-from-collateral", "the placeholder collateral return's value does not derive from the collateral inputs", {})
        proj = sorted({x.split("@")[0][5:] for x in o if x.startswith("call:") and (x.split("@")[0].endswith("Value::coin") or x.split("@")[0].endswith("Value::new") or x.split("@")[0].endswith("::coin"))})
        if proj:
            rep.violation("PLACEHOLDER-full", "projected|%s" % ",".join(H_short(p) for p in proj), "the placeholder collateral return is built from a projection of the collateral value (%s): with token-carrying collateral the real return output is larger than the placeholder the fee was fixed against" % ", ".join(H_short(p) for p in proj), {})


def H_short(p):
    return "::".join(p.split("::")[-2:])


def direct_call_of(fn, op, limit=8):
    """follow `_x = use _y` / `?`-Continue projections of single-definition locals back to the call that produced the value; -> bb of the call or None"""
    defs = {}
    for bi, bb in enumerate(fn["bbs"]):
        for st in bb["st"]:
            if st[1] == "=":
                defs.setdefault(st[2], []).append(("st", st[3], bi))
        t = bb["t"]
        if t[1] == "call":
            defs.setdefault(t[4], []).append(("call", t, bi))
    cur = op[1] if op[0] in ("c", "m") else None
    for _ in range(limit):
        if cur is None:
            return None
        base = cur.split("|")[0]
        ds = defs.get(cur) or (defs.get(base) if "|d:Continue" in cur else None)
        if not ds or len(ds) != 1:
            return None
        kind, x, bi = ds[0]
        if kind == "call":
            to = x[2].get("to") or ""
            if to.endswith("Try>::branch"):
                a = x[3][0]
                cur = a[1] if a[0] in ("c", "m") else None
                continue
            return bi, to
        if x[0] == "use" and x[1][0] in ("c", "m"):
            cur = x[1][1]
            continue
        return None
    return None




WHO_ASSETS_OK = {
    "<Assets as serialization::traits::Deserialize>::deserialize": "decoder fills a fresh map",
    "Assets::insert": "the public setter of one quantity",
    "MultiAsset::sub": "subtraction with zero pruning (C03 ZERO-prune)",
    "Value::checked_add": "the one place quantities of the same asset are added (checked)",
}


def who_assets_rule(rep, F):
    """who may mutate a map of asset quantities: merging two bundles by hand (extend / insert) overwrites the quantity of an asset that
    is present on both sides instead of adding it"""
    rep.rule("WHO-assets", "BTreeMap<AssetName, BigNum> (the quantities of one policy) is mutated only by Assets::insert, the Assets decoder, Value::checked_add and MultiAsset::sub; every other sum of bundles goes through those")
    n = 0
    seen = {}
    for fid, fn in F.fns.items():
        if "/tests/" in fn["file"] or F.is_derived(fid):
            continue
        for bb in fn["bbs"]:
            t = bb["t"]
            if t[1] != "call":
                continue
            to = t[2].get("to") or ""
            ga = t[2].get("ga") or ""
            if "BTreeMap" in to and to.rsplit("::", 1)[-1] in ("insert", "extend", "entry", "get_mut", "remove", "append", "retain", "pop_first", "pop_last", "clear", "values_mut", "iter_mut") and "AssetName" in ga and "BigNum" in ga:
                n += 1
                base = F.key(fid.split("::{closure")[0])
                seen.setdefault(base, set()).add(to.rsplit("::", 1)[-1])
    for base, ops in sorted(seen.items()):
        rep.inst("WHO-assets")
        if base in WHO_ASSETS_OK:
            rep.allow("WHO-assets")
            continue
        rep.violation("WHO-assets", "%s|%s" % (base, ",".join(sorted(ops))), "%s mutates a map of asset quantities directly (%s): merging bundles by hand overwrites the quantity of an asset held on both sides instead of adding it (use Value::checked_add / MultiAsset::add)" % (base, ", ".join(sorted(ops))), {})
    rep.floor("direct mutations of asset-quantity maps inventoried", 5, n)
