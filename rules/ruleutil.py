"""Shared rule helpers: anchors, transitive field reads, must-flow table runner, amount-operator scan."""
import json
import re

import facts
import hirq as H
import mustflow


def find_fn(rep, F, key):
    ids = F.by_key(key)
    if len(ids) != 1:
        rep.lost("function %s not found (got %d candidates)" % (key, len(ids)))
        return None
    return ids[0]


def fields_read(F, fid, depth=3):
    """(adt, field) pairs appearing in places of fid and its local callees up to `depth`"""
    seen = set()
    out = set()
    work = [(fid, 0)]
    while work:
        f, d = work.pop()
        if f in seen or f not in F.fns:
            continue
        seen.add(f)
        fn = F.fns[f]
        txt = json.dumps(fn["bbs"])
        for m in re.finditer(r"f:([^:|\"]+(?:::[^:|\"]+)*):[^:|\"]*:([A-Za-z0-9_]+)", txt):
            out.add((m.group(1), m.group(2)))
        if d < depth:
            for c in F.calls(f):
                if c.info.get("local") and c.to in F.fns:
                    work.append((c.to, d + 1))
            for cl in F.closures_of.get(f, []):
                work.append((cl, d))
    return out


def run_mustflow(rep, F, entries):
    rep.rule("MF", "on every success path, the returned value is derived from the source term (flow-sensitive must-flow on MIR)")
    for e in entries:
        ids = F.by_key(e["fn"])
        if len(ids) != 1:
            rep.lost("mustflow anchor %s not found" % e["fn"])
            continue
        fid = ids[0]
        ff = mustflow.FnFlow(F, fid)
        for src in e["sources"]:
            rep.inst("MF")
            if src.startswith("arg:"):
                res = ff.run(("arg", int(src[4:])))
                sites = [None]
                allres = [res]
            else:
                alts = src.split("|")
                cs = mustflow.find_calls(F, fid, lambda to, c: any((to.endswith(a) or F.key(to).endswith(a)) if to in F.fns else to.endswith(a) for a in alts))
                if not cs:
                    if all("::" not in a for a in alts):
                        # a std adaptor by bare name (try_fold / fold / checked_add): its absence is a change of shape, not a dropped term
                        rep.lost("mustflow source `%s` of %s not found (the accumulation was rewritten: re-anchor)" % (src, e["fn"]))
                        continue
                    rep.violation("MF", "%s|%s|missing" % (e["fn"], src), "%s no longer calls %s: the term it contributed (%s) is missing from the total" % (e["fn"], src, e.get("what", "")), {"function": e["fn"], "source": src})
                    continue
                allres = [ff.run(("call", c.bb)) for c in cs]
            for res in allres:
                bad = [r for r in res if not r["ok"]]
                if not res:
                    rep.violation("MF", "%s|%s|noreturn" % (e["fn"], src), "%s: no success return is reachable after computing %s" % (e["fn"], src), {"function": e["fn"], "source": src})
                elif bad:
                    where = ", ".join(facts.loc_str(r["loc"], F.fns[fid]) for r in bad)
                    rep.violation("MF", "%s|%s" % (e["fn"], src), "%s: the value returned at %s is not derived from %s on some path (term dropped or accumulator overwritten) — %s" % (e["fn"], where, src, e.get("what", "")), {"function": e["fn"], "source": src, "returns": bad})
                else:
                    rep.sample({"mustflow": e["fn"], "source": src, "success_returns_checked": len(res)})


AMOUNT_TYPES = {"u64", "i64", "u128", "i128", "i32", "u32"}
ARITH = {"Add", "Sub", "Mul", "Div", "Rem", "AddWithOverflow", "SubWithOverflow", "MulWithOverflow", "AddUnchecked", "SubUnchecked", "MulUnchecked", "Shl", "Shr", "Neg"}


def raw_amount_ops(F, fid, types=AMOUNT_TYPES, with_closures=True):
    """[(fid, op, ty, loc)] raw integer operators on amount-width integers in fid (and its closures)"""
    out = []
    subs = [fid]
    if with_closures:
        subs += [c for c in F.fns if c.startswith(fid + "::{closure")]
    for sub in subs:
        fn = F.fns[sub]
        for bb in fn["bbs"]:
            if bb["c"]:
                continue
            for st in bb["st"]:
                if st[1] == "=" and st[3][0] == "bin" and st[3][1] in ARITH and st[3][4] in types:
                    out.append((sub, st[3][1], st[3][4], st[0]))
                if st[1] == "=" and st[3][0] == "un" and st[3][1] == "Neg" and st[3][3] in types:
                    out.append((sub, "Neg", st[3][3], st[0]))
    return out


def stmt_reading_field(F, fid, adt, field):
    """first (bb, si) whose rvalue mentions the field place"""
    fn = F.fns[fid]
    needle = "f:%s:-:%s" % (adt, field)
    for bi, bb in enumerate(fn["bbs"]):
        if bb["c"]:
            continue
        for si, st in enumerate(bb["st"]):
            if st[1] == "=" and needle in json.dumps(st[3]):
                return (bi, si)
    return None


def placeholder_full_rule(rep, F):
    """add_inputs_from_and_change_with_collateral_return fixes change and fee against a *placeholder* collateral return; the placeholder
    must be at least as large as the real return, i.e. carry the collateral's full value (every asset), not a projection of it."""
    import fieldflow as ff
    rep.rule("PLACEHOLDER-full", "the placeholder collateral-return output used while change and fee are computed is built from the full collateral value (all assets): its value operand derives from TransactionBuilder.collateral and passes through no coin projection (Value::coin / Value::new)")
    fid = find_fn(rep, F, "TransactionBuilder::add_inputs_from_and_change_with_collateral_return")
    if not fid:
        return
    fn = F.fns[fid]
    org = ff.Origins(F, fid)
    sets = [c for c in F.calls(fid) if (c.to or "").endswith("TransactionBuilder::set_collateral_return")]
    news = [c for c in F.calls(fid) if (c.to or "").endswith("TransactionOutput::new")]
    if not sets or not news:
        rep.lost("placeholder collateral return (set_collateral_return(TransactionOutput::new(..))) not found in add_inputs_from_and_change_with_collateral_return")
        return
    first_set = min(sets, key=lambda c: c.bb)
    o_set = org.of_operand(fn["bbs"][first_set.bb]["t"][3][1])
    for c in news:
        if not any(x == "call:%s@%d" % (c.to, c.bb) for x in o_set):
            continue
        rep.inst("PLACEHOLDER-full")
        o = org.of_operand(fn["bbs"][c.bb]["t"][3][1])
        if "field:builders::tx_builder::TransactionBuilder.collateral" not in o:
            rep.violation("PLACEHOLDER-full", "not-from-collateral", "the placeholder collateral return's value does not derive from the collateral inputs", {})
        proj = sorted({x.split("@")[0][5:] for x in o if x.startswith("call:") and (x.split("@")[0].endswith("Value::coin") or x.split("@")[0].endswith("Value::new") or x.split("@")[0].endswith("::coin"))})
        if proj:
            rep.violation("PLACEHOLDER-full", "projected|%s" % ",".join(H_short(p) for p in proj), "the placeholder collateral return is built from a projection of the collateral value (%s): with token-carrying collateral the real return output is larger than the placeholder the fee was fixed against" % ", ".join(H_short(p) for p in proj), {})


def H_short(p):
    return "::".join(p.split("::")[-2:])


def direct_call_of(fn, op, limit=8):
    """follow `_x = use _y` / `?`-Continue projections of single-definition locals back to the call that produced the value; -> bb of the call or None"""
    defs = {}
    for bi, bb in enumerate(fn["bbs"]):
        for st in bb["st"]:
            if st[1] == "=":
                defs.setdefault(st[2], []).append(("st", st[3], bi))
        t = bb["t"]
        if t[1] == "call":
            defs.setdefault(t[4], []).append(("call", t, bi))
    cur = op[1] if op[0] in ("c", "m") else None
    for _ in range(limit):
        if cur is None:
            return None
        base = cur.split("|")[0]
        ds = defs.get(cur) or (defs.get(base) if "|d:Continue" in cur else None)
        if not ds or len(ds) != 1:
            return None
        kind, x, bi = ds[0]
        if kind == "call":
            to = x[2].get("to") or ""
            if to.endswith("Try>::branch"):
                a = x[3][0]
                cur = a[1] if a[0] in ("c", "m") else None
                continue
            if to.endswith("Clone>::clone") and x[3] and x[3][0][0] in ("c", "m"):
                # a clone carries the same value: follow the reference it was given
                r = x[3][0][1]
                tgt = None
                for _ in range(3):
                    rb = r[:-2] if r.endswith("|*") else r
                    nx = [d for d in defs.get(rb, []) if d[0] == "st" and d[1][0] == "ref"]
                    if len(nx) != 1:
                        break
                    tgt = nx[0][1][2]
                    r = tgt
                    if "|" not in tgt and not any(d[0] == "st" and d[1][0] == "ref" for d in defs.get(tgt, [])):
                        break
                cur = tgt
                continue
            return bi, to
        if x[0] == "use" and x[1][0] in ("c", "m"):
            cur = x[1][1]
            continue
        return None
    return None




WHO_ASSETS_OK = {
    "<Assets as serialization::traits::Deserialize>::deserialize": "decoder fills a fresh map",
    "Assets::insert": "the public setter of one quantity",
    "MultiAsset::sub": "subtraction with zero pruning (C03 ZERO-prune)",
    "Value::checked_add": "the one place quantities of the same asset are added (checked)",
}


def who_assets_rule(rep, F):
    """who may mutate a map of asset quantities: merging two bundles by hand (extend / insert) overwrites the quantity of an asset that
    is present on both sides instead of adding it"""
    rep.rule("WHO-assets", "BTreeMap<AssetName, BigNum> (the quantities of one policy) is mutated only by Assets::insert, the Assets decoder, Value::checked_add and MultiAsset::sub; every other sum of bundles goes through those")
    n = 0
    seen = {}
    for fid, fn in F.fns.items():
        if "/tests/" in fn["file"] or F.is_derived(fid):
            continue
        for bb in fn["bbs"]:
            t = bb["t"]
            if t[1] != "call":
                continue
            to = t[2].get("to") or ""
            ga = t[2].get("ga") or ""
            if "BTreeMap" in to and to.rsplit("::", 1)[-1] in ("insert", "extend", "entry", "get_mut", "remove", "append", "retain", "pop_first", "pop_last", "clear", "values_mut", "iter_mut") and "AssetName" in ga and "BigNum" in ga:
                n += 1
                base = F.key(fid.split("::{closure")[0])
                seen.setdefault(base, set()).add(to.rsplit("::", 1)[-1])
    for base, ops in sorted(seen.items()):
        rep.inst("WHO-assets")
        if base in WHO_ASSETS_OK:
            rep.allow("WHO-assets")
            continue
        rep.violation("WHO-assets", "%s|%s" % (base, ",".join(sorted(ops))), "%s mutates a map of asset quantities directly (%s): merging bundles by hand overwrites the quantity of an asset held on both sides instead of adding it (use Value::checked_add / MultiAsset::add)" % (base, ", ".join(sorted(ops))), {})
    rep.floor("direct mutations of asset-quantity maps inventoried", 5, n)


def arith_unused_rule(rep, F, file_prefixes=None):
    """the result of a checked arithmetic call is a NEW value: `x.checked_add(&y)?;` as a statement computes and forgets it"""
    import json as _json
    import re as _re
    rep.rule("ARITH-unused", "the value returned by checked_add / checked_sub / checked_mul / clamped_sub on BigNum, Value, MultiAsset, BigInt, Int, Rational is returned or read afterwards - never computed and dropped (these methods do not mutate their receiver)")

    def reads_of(fn, needle):
        n = 0
        for bb in fn["bbs"]:
            if bb["c"]:
                continue
            for st in bb["st"]:
                if st[1] == "=" and needle in _json.dumps(st[3]):
                    n += 1
            t = bb["t"]
            if t[1] == "call" and needle in _json.dumps(t[3]):
                n += 1
            if t[1] == "switch" and needle in _json.dumps(t[2]):
                n += 1
        return n

    tot = 0
    for fid, fn in F.fns.items():
        if "/tests/" in fn["file"] or F.is_derived(fid):
            continue
        if file_prefixes and not fn["file"].startswith(tuple(file_prefixes)):
            continue
        for c in F.calls(fid):
            to = c.to or ""
            if not _re.search(r"::(checked_add|checked_sub|checked_mul|clamped_sub|checked_div)$", to):
                continue
            if not any(k in to for k in ("BigNum", "Value", "BigInt", "Int::", "MultiAsset", "Rational")):
                continue
            tot += 1
            rep.inst("ARITH-unused")
            t = fn["bbs"][c.bb]["t"]
            dest = t[4]
            if dest == "_0" or dest.startswith("_0|"):
                continue
            br = None
            for c2 in F.calls(fid):
                if (c2.to or "").endswith("Try>::branch"):
                    a = fn["bbs"][c2.bb]["t"][3][0]
                    if a[0] in ("c", "m") and a[1] == dest:
                        br = fn["bbs"][c2.bb]["t"][4]
            if br:
                # locals that receive the unwrapped value; the value is used iff one of them (transitively through plain moves) is read
                used = False
                frontier = []
                for bb_ in fn["bbs"]:
                    for st_ in bb_["st"]:
                        if st_[1] == "=" and ('"%s|d:Continue' % br) in _json.dumps(st_[3]):
                            if st_[3][0] == "use" and "|" not in st_[2] and st_[2] != "_0":
                                frontier.append(st_[2])
                            else:
                                used = True
                    t_ = bb_["t"]
                    if t_[1] in ("call", "switch") and ('"%s|d:Continue' % br) in _json.dumps(t_[2:4]):
                        used = True
                seen_l = set()
                while frontier and not used:
                    l_ = frontier.pop()
                    if l_ in seen_l:
                        continue
                    seen_l.add(l_)
                    for bb_ in fn["bbs"]:
                        if bb_["c"]:
                            continue
                        for st_ in bb_["st"]:
                            if st_[1] == "=" and (('"%s"' % l_) in _json.dumps(st_[3]) or ('"%s|' % l_) in _json.dumps(st_[3])):
                                if st_[3][0] == "use" and "|" not in st_[2] and st_[2] != "_0":
                                    frontier.append(st_[2])
                                else:
                                    used = True
                        t_ = bb_["t"]
                        if t_[1] in ("call", "switch") and (('"%s"' % l_) in _json.dumps(t_[2:4]) or ('"%s|' % l_) in _json.dumps(t_[2:4])):
                            used = True
            else:
                used = reads_of(fn, '"%s"' % dest) + reads_of(fn, '"%s|' % dest) > 0
            if not used:
                rep.violation("ARITH-unused", "%s|%s" % (F.key(fid), to.rsplit("::", 1)[-1]), "%s computes %s and drops the result (%s): the receiver is not modified by this method, so the amount is silently not accumulated" % (F.key(fid), "::".join(to.rsplit("::", 2)[-2:]), facts.loc_str(t[0], fn)), {})
    rep.floor("checked arithmetic calls inspected for a dropped result", 15 if file_prefixes else 100, tot)


ENCODING_DETAIL_FIELDS = {"serialization_format", "original_bytes", "definite_encoding", "prefer_alonzo_format", "cbor_set_type"}


def ord_eq_rule(rep, F):
    """a type that is a key in ordered containers (Ord) and in hashed / de-duplicating ones (Eq + Hash) must compare the same content in
    all three; only audited encoding-detail fields may make Ord / Hash finer than Eq"""
    rep.rule("ORD-EQ", "for every struct with a hand-written PartialEq, Ord or Hash: the fields equality reads are also read by Ord and Hash, and whatever Ord / Hash read beyond equality is an audited encoding-detail field (serialization_format, original_bytes, definite_encoding, prefer_alonzo_format, cbor_set_type) - a builder that keys by Ord and emits through an Eq/Hash de-duplicating set otherwise counts entries it does not emit")

    def impl_of(adt, prefix):
        for im in F.impls:
            if (im.get("trait") or "").startswith(prefix) and (im.get("self_adt") or im["self_ty"]) == adt and "/tests/" not in im.get("file", ""):
                return im
        return None

    n = 0
    for adt, a in sorted(F.adts.items()):
        if a["kind"] != "struct":
            continue
        eq, od, hs = impl_of(adt, "std::cmp::PartialEq"), impl_of(adt, "std::cmp::Ord"), impl_of(adt, "std::hash::Hash")
        if not eq or not (od or hs):
            continue
        if eq.get("derive") and (not od or od.get("derive")) and (not hs or hs.get("derive")):
            continue
        fs = {f["name"] for f in a["variants"][0]["fields"]}

        def basis(im, mname):
            if im is None:
                return None
            if im.get("derive"):
                return set(fs)
            mid = [m["id"] for m in im["methods"] if m["name"] == mname]
            if not mid or mid[0] not in F.fns:
                return None
            return {f for (x, f) in fields_read(F, mid[0], depth=2) if x == adt} & fs
        e, o, h = basis(eq, "eq"), basis(od, "cmp"), basis(hs, "hash")
        if e is None:
            continue
        n += 1
        rep.inst("ORD-EQ")
        short = adt.rsplit("::", 1)[-1]

        def normalisers(im, mname):
            """order-normalising / re-collecting callees of a hand-written impl (sorted, collect, iter ...): comparing a normalised view
            in one relation and the raw sequence in another makes the relations disagree although they read the same field"""
            if im is None or im.get("derive"):
                return frozenset()
            mid = [m["id"] for m in im["methods"] if m["name"] == mname]
            if not mid or mid[0] not in F.fns:
                return frozenset()
            out = set()
            for sub in [mid[0]] + [c for c in F.fns if c.startswith(mid[0] + "::{closure")]:
                for c in F.calls(sub):
                    nm = (c.to or "").rsplit("::", 1)[-1]
                    if nm in ("sorted", "sorted_by", "sorted_by_key", "sort", "sort_by", "sort_unstable", "collect", "collect_vec", "iter", "into_iter", "from_iter", "dedup", "rev", "unique"):
                        out.add(nm)
            return frozenset(out)
        ns = {"eq": normalisers(eq, "eq"), "Ord": normalisers(od, "cmp") if od else None, "Hash": normalisers(hs, "hash") if hs else None}
        for nm_ in ("Ord", "Hash"):
            if ns[nm_] is not None and ns[nm_] != ns["eq"]:
                rep.violation("ORD-EQ", "%s|%s|normalises|%s" % (short, nm_, ",".join(sorted(ns[nm_] ^ ns["eq"]))), "%s: %s compares a re-ordered / re-collected view (%s) while equality compares %s: values that are equal can be ordered apart, or values that differ can share a key, so an Ord-keyed builder map and an Eq/Hash de-duplicating set disagree on how many entries there are" % (short, nm_, sorted(ns[nm_]) or "the raw field", sorted(ns["eq"]) or "the raw field"), {})
        for nm, b in (("Ord", o), ("Hash", h)):
            if b is None:
                continue
            miss = e - b
            extra = b - e - ENCODING_DETAIL_FIELDS
            if miss:
                rep.violation("ORD-EQ", "%s|%s|eq-only|%s" % (short, nm, ",".join(sorted(miss))), "%s: equality compares %s but %s does not read %s (it reads %s): two values can be equal yet ordered / hashed apart, or different yet collapse, so a collection keyed one way and de-duplicated the other way counts entries it does not emit" % (short, sorted(e), nm, sorted(miss), sorted(b)), {})
            if extra:
                rep.violation("ORD-EQ", "%s|%s|extra|%s" % (short, nm, ",".join(sorted(extra))), "%s: %s also reads %s, which equality ignores and which is not an audited encoding-detail field" % (short, nm, sorted(extra)), {})
    rep.floor("structs with hand-written Eq / Ord / Hash compared", 20, n)


def ref_size_pass_rule(rep, F):
    """the size of a reference script carried by a spent UTxO reaches the registration in every address arm"""
    import fieldflow as ff
    rep.rule("REF-size", "every arm of TxInputsBuilder::add_regular_input_extended registers the input through an `_extended` registration and hands it the reference-script size parameter unchanged (min_fee charges the tiered reference-script fee from it)")
    fid = find_fn(rep, F, "TxInputsBuilder::add_regular_input_extended")
    if not fid:
        return
    fn = F.fns[fid]
    org = ff.Origins(F, fid)
    n = 0
    for c in F.calls(fid):
        to = c.to or ""
        short = to.rsplit("::", 1)[-1]
        if "TxInputsBuilder::add_" not in to or "input" not in short:
            continue
        n += 1
        rep.inst("REF-size")
        t = fn["bbs"][c.bb]["t"]
        if not short.endswith("_extended"):
            rep.violation("REF-size", "add_regular_input_extended|%s" % short, "add_regular_input_extended registers an input through %s, which has no reference-script size: the script carried by such a UTxO is never charged (fee below the ledger minimum when ref_script_coins_per_byte is set)" % short, {"loc": facts.loc_str(t[0], fn)})
            continue
        o = org.of_operand(t[3][-1])
        if "arg:5" not in o:
            rep.violation("REF-size", "add_regular_input_extended|%s|size-arg" % short, "add_regular_input_extended calls %s with a reference-script size that is not its own parameter (origins %s)" % (short, sorted(o)[:4]), {})
    rep.floor("input registrations in add_regular_input_extended", 4, n)



def _const_operand_value(F, fn, op, defs):
    """constant value of an operand through copies / static loads / widening casts; None if not constant"""
    import re as _re
    for _ in range(8):
        if op[0] == "k":
            sv = str(op[1])
            if sv.startswith("static:"):
                for k, v in F.consts.items():
                    if k == sv[7:] or k.endswith("::" + sv[7:]):
                        return int(v["val"])
                return None
            m = _re.match(r"^(-?\d+)_", sv)
            return int(m.group(1)) if m else None
        pl = op[1]
        base = pl.split("|")[0]
        ds = [d for d in defs.get(base, []) if d[0] == "stmt"]
        if len(ds) != 1:
            return None
        rv = ds[0][1]
        if rv[0] in ("use", "deref"):
            op = rv[1] if rv[0] == "use" else ["c", rv[1]]
            continue
        if rv[0] == "cast" and rv[1] == "IntToInt":
            op = rv[2]
            continue
        if rv[0] == "un" and rv[1] == "Neg":
            v = _const_operand_value(F, fn, rv[2], defs)
            return None if v is None else -v
        if rv[0] == "bin" and rv[1].replace("WithOverflow", "") in ("Add", "Sub", "Mul", "Shl") and ("|t:0" in pl or "WithOverflow" not in rv[1]):
            a, b = _const_operand_value(F, fn, rv[2], defs), _const_operand_value(F, fn, rv[3], defs)
            if a is None or b is None:
                return None
            o_ = rv[1].replace("WithOverflow", "")
            return a + b if o_ == "Add" else a - b if o_ == "Sub" else a * b if o_ == "Mul" else (a << b if 0 <= b < 256 else None)
        return None
    return None


def _range_gate(F, fn, defs, s):
    """switch block `s` tests `<const range>.contains(&q)`: -> (lo, hi, operand of q) with None for an open end, else None"""
    t = fn["bbs"][s]["t"]
    if t[1] != "switch":
        return None
    cp = t[2][1].split("|")[0]
    ds = [d for d in defs.get(cp, []) if d[0] == "call"]
    if len(ds) != 1:
        return None
    ct = ds[0][1]
    to = ct[2].get("to") or ""
    if not (to.startswith("std::ops::Range") and to.endswith("::contains")) or len(ct[3]) != 2:
        return None

    def deref(op):
        # follow `&x` / copies back to the local that holds the value
        for _ in range(6):
            base = op[1].split("|")[0] if op[0] in ("m", "c") else None
            if base is None:
                return None
            dd = defs.get(base, [])
            if len(dd) != 1:
                return base
            if dd[0][0] == "stmt" and dd[0][1][0] == "ref":
                op = ["c", dd[0][1][2]]
                continue
            if dd[0][0] == "stmt" and dd[0][1][0] == "use" and dd[0][1][1][0] in ("m", "c"):
                op = dd[0][1][1]
                continue
            return base
        return None
    rl = deref(ct[3][0])
    if rl is None:
        return None
    dd = defs.get(rl, [])
    if len(dd) != 1:
        return None
    lo = hi = None
    # a constant range is usually promoted: `&(a..=b)` lives in <fn>::promoted[i], whose MIR builds it
    if dd[0][0] == "stmt" and dd[0][1][0] == "use" and dd[0][1][1][0] == "k" and "::promoted[" in str(dd[0][1][1][1]):
        pm = getattr(F, "promoted", {}).get(str(dd[0][1][1][1]).split("::", 0)[0])
        if pm is None:
            for k_, v_ in getattr(F, "promoted", {}).items():
                if k_.endswith(str(dd[0][1][1][1])) or str(dd[0][1][1][1]).endswith(k_):
                    pm = v_
        if pm is None:
            return None
        pdefs = {}
        for bj, bb in enumerate(pm["bbs"]):
            for st in bb["st"]:
                if st[1] == "=":
                    pdefs.setdefault(st[2].split("|")[0], []).append(("stmt", st[3], bj))
            t_ = bb["t"]
            if t_[1] == "call":
                pdefs.setdefault(t_[4].split("|")[0], []).append(("call", t_, bj))
        cand = [d for ds_ in pdefs.values() for d in ds_ if (d[0] == "call" and "RangeInclusive" in (d[1][2].get("to") or "")) or (d[0] == "stmt" and d[1][0] == "agg" and str(d[1][2]).startswith("std::ops::Range"))]
        if len(cand) != 1:
            return None
        dd = cand
        fn = pm
        defs = pdefs
    if dd[0][0] == "call" and "RangeInclusive" in (dd[0][1][2].get("to") or "") and (dd[0][1][2].get("to") or "").endswith("::new"):
        a = dd[0][1][3]
        lo, hi = _const_operand_value(F, fn, a[0], defs), _const_operand_value(F, fn, a[1], defs)
        if lo is None or hi is None:
            return None
    elif dd[0][0] == "stmt" and dd[0][1][0] == "agg" and str(dd[0][1][2]).startswith("std::ops::Range"):
        kind = str(dd[0][1][2]).rsplit("::", 1)[-1]
        vals = [_const_operand_value(F, fn, o, defs) for o in dd[0][1][4]]
        if any(v is None for v in vals):
            return None
        if kind == "Range" and len(vals) == 2:
            lo, hi = vals[0], vals[1] - 1
        elif kind == "RangeFrom" and len(vals) == 1:
            lo = vals[0]
        elif kind == "RangeTo" and len(vals) == 1:
            hi = vals[0] - 1
        elif kind == "RangeToInclusive" and len(vals) == 1:
            hi = vals[0]
        else:
            return None
    else:
        return None
    return lo, hi, ct[3][1]


def gate_limit(F, fid, site_bb):
    """largest value of the compared quantity with which block `site_bb` can be reached, from the dominating comparisons `q <= C`,
    `q < C`, `!(q > C)`, `!(q >= C)` against a constant. -> (limit or None, why)"""
    from e1_panicpath import dominators
    import mustpass as mp
    fn = F.fns[fid]
    defs = {}
    for bj, bb in enumerate(fn["bbs"]):
        for st in bb["st"]:
            if st[1] == "=":
                defs.setdefault(st[2].split("|")[0], []).append(("stmt", st[3], bj))
        t = bb["t"]
        if t[1] == "call":
            defs.setdefault(t[4].split("|")[0], []).append(("call", t, bj))
    best = None
    best_q = set()
    why = "no dominating comparison with a constant"
    import fieldflow as _ff
    org = _ff.Origins(F, fid)
    for s in dominators(fn, site_bb):
        t = fn["bbs"][s]["t"]
        if t[1] != "switch":
            continue
        rg = _range_gate(F, fn, defs, s)
        if rg is not None:
            f_ = [tg for v, tg in t[3] if v == "0"]
            if mp.dominated_by(fn, site_bb, t[4]) and not (f_ and mp.dominated_by(fn, site_bb, f_[0]) and f_[0] != t[4]) and rg[1] is not None:
                if best is None or rg[1] < best:
                    best = rg[1]
                    best_q = org.of_operand(rg[2])
            continue
        cp = t[2][1].split("|")[0]
        ds = [d for d in defs.get(cp, []) if d[0] == "stmt" and d[1][0] == "bin"]
        if len(ds) != 1:
            continue
        rv = ds[0][1]
        op, lhs, rhs = rv[1], rv[2], rv[3]
        cl, cr = _const_operand_value(F, fn, lhs, defs), _const_operand_value(F, fn, rhs, defs)
        false_tgt = [tg for v, tg in t[3] if v == "0"]
        on_false = bool(false_tgt) and mp.dominated_by(fn, site_bb, false_tgt[0]) and false_tgt[0] != t[4]
        on_true = mp.dominated_by(fn, site_bb, t[4]) and not on_false
        if cr is not None and cl is None:
            lim = {"Le": cr, "Lt": cr - 1}.get(op) if on_true else {"Gt": cr, "Ge": cr - 1}.get(op) if on_false else None
        elif cl is not None and cr is None:
            lim = {"Ge": cl, "Gt": cl - 1}.get(op) if on_true else {"Lt": cl, "Le": cl - 1}.get(op) if on_false else None
        else:
            lim = None
            if op in ("Le", "Lt", "Gt", "Ge"):
                why = "the comparison %s is against a value that is not a compile-time constant" % op
        if lim is not None and (best is None or lim < best):
            best = lim
            best_q = org.of_operand(lhs if cr is not None else rhs)
    return best, why, best_q


def batch_total_rule(rep, F):
    """the coin-width bound the batcher packs values against is the total over ALL supplied UTxOs"""
    import fieldflow as ff
    rep.rule("TOTAL-all", "the total ADA handed to UtxosStat::new (upper bound of the coin width used when packing values against max_value_size) is accumulated over the whole supplied UTxO list, not over a locally built sub-collection")
    fid = find_fn(rep, F, "AssetCategorizer::new")
    if not fid:
        return
    fn = F.fns[fid]
    org = ff.Origins(F, fid)
    n = 0
    for c in F.calls(fid):
        if not (c.to or "").endswith("UtxosStat::new"):
            continue
        n += 1
        rep.inst("TOTAL-all")
        o = org.of_operand(fn["bbs"][c.bb]["t"][3][0])
        whole = any(x == "field:utils::TransactionUnspentOutputs.0" for x in o) and any(x.endswith("Value.coin") for x in o)
        local = sorted(x.split("@")[0][5:] for x in o if x.startswith("call:") and (x.split("@")[0].endswith("Vec::<T>::new") or "with_capacity" in x or x.split("@")[0].endswith("Iterator::collect") or x.split("@")[0].endswith("::push")))
        if not whole or local:
            rep.violation("TOTAL-all", "AssetCategorizer::new|%s" % ("sub-collection" if local else "not-from-utxos"), "AssetCategorizer::new hands UtxosStat::new a total ADA that is %s: when the ADA sits in asset-bearing UTxOs the coin is assumed narrower than it will be and packed values exceed max_value_size by the missing coin bytes" % ("accumulated over a locally built collection (%s)" % ", ".join(H_short(l) for l in local) if local else "not accumulated over the coins of the supplied UTxOs"), {})
    rep.floor("UtxosStat::new calls in AssetCategorizer::new", 1, n)


def cert_cred_rule(rep, F):
    """has_script_credentials of each certificate type looks at the credential the ledger witnesses (tables/c18_cert_signers.json)"""
    import re as _re
    import common as _common
    tab = _common.load_table("c18_cert_signers.json")["table"]
    rep.rule("CERT-cred", "for every certificate type, has_script_credentials() tests the credential the ledger requires a witness for (the same credential the key-signer table names): a certificate is offered / denied a script witness, and gets / misses its redeemer pointer, by the right credential")
    n = 0
    for variant, ops in sorted(tab.items()):
        fields = set()
        for o in ops:
            m = _re.search(r"\$v\.([a-z_]+)", o)
            if m:
                fields.add(m.group(1))
        cred = {f for f in fields if f.endswith("credential")}
        ids = F.by_key("%s::has_script_credentials" % variant)
        if not ids or not cred:
            continue
        adts = [a for a in F.adts if a.endswith("::" + variant)]
        if len(ids) != 1 or len(adts) != 1:
            rep.lost("%s::has_script_credentials / its type not found uniquely" % variant)
            continue
        n += 1
        rep.inst("CERT-cred")
        fs = {f["name"] for f in F.adts[adts[0]]["variants"][0]["fields"]}
        rd = {f for (a, f) in fields_read(F, ids[0], depth=1) if a == adts[0]} & fs
        rd_cred = {f for f in rd if f.endswith("credential")}
        if rd_cred != cred:
            rep.violation("CERT-cred", "%s|%s" % (variant, ",".join(sorted(rd_cred))), "%s::has_script_credentials tests %s; the ledger witnesses %s for this certificate: with credentials of different kinds the builder accepts a script witness (and emits a redeemer pointing at a certificate that is not script-locked) or refuses the one that is needed" % (variant, sorted(rd_cred), sorted(cred)), {})
    rep.floor("certificate types whose script-credential test is compared with the ledger table", 12, n)



def gate_min(F, fid, site_bb):
    """smallest value of the compared quantity with which block `site_bb` can be reached, from dominating comparisons against a constant
    (`q < C` false edge -> C, `q <= C` false edge -> C + 1, `q >= C` true edge -> C, `q > C` true edge -> C + 1). -> (min or None, why)"""
    from e1_panicpath import dominators
    import mustpass as mp
    fn = F.fns[fid]
    defs = {}
    for bj, bb in enumerate(fn["bbs"]):
        for st in bb["st"]:
            if st[1] == "=":
                defs.setdefault(st[2].split("|")[0], []).append(("stmt", st[3], bj))
        t_ = bb["t"]
        if t_[1] == "call":
            defs.setdefault(t_[4].split("|")[0], []).append(("call", t_, bj))
    best = None
    why = "no dominating comparison with a constant"
    for s_ in dominators(fn, site_bb):
        t = fn["bbs"][s_]["t"]
        if t[1] != "switch":
            continue
        rg = _range_gate(F, fn, defs, s_)
        if rg is not None:
            f_ = [tg for v, tg in t[3] if v == "0"]
            if mp.dominated_by(fn, site_bb, t[4]) and not (f_ and mp.dominated_by(fn, site_bb, f_[0]) and f_[0] != t[4]) and rg[0] is not None:
                if best is None or rg[0] > best:
                    best = rg[0]
            continue
        cp = t[2][1].split("|")[0]
        ds = [d for d in defs.get(cp, []) if d[0] == "stmt" and d[1][0] == "bin"]
        if len(ds) != 1:
            continue
        rv = ds[0][1]
        op, lhs, rhs = rv[1], rv[2], rv[3]
        cl, cr = _const_operand_value(F, fn, lhs, defs), _const_operand_value(F, fn, rhs, defs)
        false_tgt = [tg for v, tg in t[3] if v == "0"]
        on_false = bool(false_tgt) and mp.dominated_by(fn, site_bb, false_tgt[0]) and false_tgt[0] != t[4]
        on_true = mp.dominated_by(fn, site_bb, t[4]) and not on_false
        lo = None
        if cr is not None and cl is None:
            lo = {"Ge": cr, "Gt": cr + 1}.get(op) if on_true else {"Lt": cr, "Le": cr + 1}.get(op) if on_false else None
        elif cl is not None and cr is None:
            lo = {"Le": cl, "Lt": cl + 1}.get(op) if on_true else {"Gt": cl, "Ge": cl + 1}.get(op) if on_false else None
        if lo is not None and (best is None or lo > best):
            best = lo
    return best, why


# ---- structural must-analysis over the HIR -------------------------------------------------------------------------------
def hir_escapes(n):
    """node contains a continue/break that leaves the current iteration (not inside a nested loop/closure)"""
    if not H.is_node(n):
        return False
    if n[0] in ("continue", "break"):
        return True
    if n[0] in ("for", "loop", "closure"):
        return False
    return any(hir_escapes(c) for c in H.children(n))


def hir_must(n, is_event, known=None):
    """True when every path through the evaluation of `n` (loops may run zero times, closures may not be called, a `continue` /
    `break` ends the path) evaluates a node for which is_event(node) holds. known(cond) may return 'pos' / 'neg' when the truth of
    a condition already proves the event happened on the then- ('neg': else-) side."""
    if not H.is_node(n):
        return False
    k = n[0]
    if is_event(n):
        return True
    if k in ("for", "loop", "closure"):
        return hir_must(n[3], is_event, known) if k == "for" else False
    if k == "block":
        for st in n[2]:
            parts = [st[3], st[4]] if st[0] == "let" else [st[2]]
            for p_ in parts:
                if p_ is None:
                    continue
                if hir_must(p_, is_event, known):
                    return True
                if hir_escapes(p_):
                    return False
        return hir_must(n[3], is_event, known) if n[3] is not None else False
    if k == "if":
        if hir_must(n[2], is_event, known):
            return True
        kn = known(n[2]) if known else None
        t = hir_must(n[3], is_event, known)
        e = hir_must(n[4], is_event, known) if n[4] is not None else False
        if kn == "pos":
            return e
        if kn == "neg":
            return t
        return t and e
    if k == "match":
        return hir_must(n[2], is_event, known) or all(hir_must(a[2], is_event, known) for a in n[3])
    if k == "binary" and n[2] in ("And", "Or"):
        return hir_must(n[3], is_event, known)
    return any(hir_must(c, is_event, known) for c in H.children(n))


def value_sub_total_rule(rep, F):
    """Value::checked_sub / clamped_sub: when both sides hold assets the result is decided by the actual difference"""
    rep.rule("SUB-total", "Value::checked_sub (and clamped_sub): in the arm where both values hold assets, MultiAsset::sub of the two bundles is evaluated on every path - the asset part of the result is the computed difference (or None when that difference is empty), never a shortcut taken from an ordering test that cannot tell 'nothing left' from 'incomparable'")
    n = 0
    for name in ("Value::checked_sub", "Value::clamped_sub"):
        fid = find_fn(rep, F, name)
        if not fid or fid not in F.hir:
            continue
        arm = None
        for m in H.walk(F.hir[fid]["body"]):
            if m[0] != "match":
                continue
            for pat, g, body in m[3]:
                if pat and pat[0] == "ptuple" and len(pat[1]) == 2 and all(q and q[0] == "pts" and (H.pat_variant(q) or "").endswith("Some") for q in pat[1]):
                    arm = (H.pat_bindings(pat), body)
        if not arm:
            rep.lost("%s: the (Some(lhs), Some(rhs)) arm was not found" % name)
            continue
        n += 1
        rep.inst("SUB-total")
        names, body = arm

        def ev(x):
            return x[0] == "mcall" and (x[3] or "").endswith("MultiAsset::sub") and H.path_str(H.strip(x[4])) == names[0] and x[5] and H.path_str(H.strip(x[5][0])) == names[1]
        if not hir_must(body, ev):
            rep.violation("SUB-total", name, "%s: when both values hold assets, some path yields the asset part without computing `%s.sub(%s)`: assets of the minuend that the subtrahend does not cover are dropped whenever the two bundles are incomparable (e.g. inputs {A: 5}, return {B: 5} -> difference None instead of {A: 5})" % (name, names[0], names[1]), {})
    rep.floor("value subtraction functions with a both-assets arm", 1, n)
    sub_prune_rule(rep, F)


def cancel_rule(rep, F, file_prefixes):
    """`acc -= g(v); acc += g(v)` with the same callee and the same value v is a no-op: a size model that replaces the header of
    the old count by the header of the new count must evaluate g on two different counts"""
    from collections import defaultdict
    rep.rule("CANCEL", "no accumulator is decreased and increased by the result of the same function applied to the same value within one function (a self-cancelling update: the size model must take the old element count for the part it removes and the new count for the part it adds)")
    n_fn = 0
    n_pairs = 0
    for fid, fn in F.fns.items():
        if "/tests/" in fn["file"] or F.is_derived(fid) or not any(fn["file"].endswith(p) or p in fn["file"] for p in file_prefixes):
            continue
        n_fn += 1
        defs = defaultdict(list)
        for bi, bb in enumerate(fn["bbs"]):
            if bb["c"]:
                continue
            for st in bb["st"]:
                if st[1] == "=":
                    defs[st[2]].append(("st", st[3]))
            t = bb["t"]
            if t[1] == "call":
                defs[t[4]].append(("call", t))

        def root(op, depth=0):
            """('k', const) | ('l', local) | ('call', callee, arg roots)"""
            if op[0] == "k":
                return ("k", str(op[1]))
            pl = op[1]
            if "|" in pl:
                return ("place", pl)   # a field / deref place may be written between the two uses: never "the same value"
            if depth > 8:
                return ("l", pl)
            ds = defs.get(pl, [])
            if len(ds) == 0:
                return ("l", pl)       # a parameter: one value throughout
            if len(ds) > 1:
                return ("place", pl)   # re-assigned local: may differ between the two uses
            kind, x = ds[0]
            if kind == "call":
                if depth == 0:
                    return ("call", x[2].get("to") or "?", tuple(root(a, depth + 1) for a in x[3]))
                return ("inst", pl)   # the result of one particular call (single definition): one value
            if x[0] == "use":
                return root(x[1], depth + 1)
            if x[0] == "cast":
                r = root(x[2], depth + 1)
                return r
            return ("l", pl)

        subs, adds = [], []
        for bi, bb in enumerate(fn["bbs"]):
            if bb["c"]:
                continue
            for st in bb["st"]:
                if st[1] != "=" or st[3][0] != "bin":
                    continue
                op = st[3][1]
                if op in ("Sub", "SubWithOverflow"):
                    r = root(st[3][3])
                    if r[0] == "call":
                        subs.append((st[3][2][1] if st[3][2][0] != "k" else None, r))
                elif op in ("Add", "AddWithOverflow"):
                    for acc, other in ((st[3][2], st[3][3]), (st[3][3], st[3][2])):
                        r = root(other)
                        if r[0] == "call":
                            adds.append((acc[1] if acc[0] != "k" else None, r))
        for sa, sr in subs:
            for aa, ar in adds:
                n_pairs += 1
                if sr == ar and sa is not None and sa == aa and all(x[0] in ("l", "k", "inst") for x in sr[2]) and sr[2]:
                    rep.violation("CANCEL", "%s|%s" % (F.key(fid), sr[1].rsplit("::", 1)[-1]), "%s subtracts and adds %s of the same value to the same accumulator: the update cancels out (the header of the element count before the insertion must be replaced by the header of the count after it) - sizes are under-predicted when the count crosses a CBOR width boundary (24, 256, ...)" % (F.key(fid), sr[1].rsplit("::", 1)[-1]), {})
    rep.inst("CANCEL", n_fn)
    rep.floor("functions scanned for self-cancelling updates", 10, n_fn)


def boot_attr_rule(rep, F):
    """a bootstrap witness (real or placeholder) carries the attributes of the address it witnesses"""
    import fieldflow as ff
    rep.rule("BOOT-attr", "every BootstrapWitness::new outside the decoders takes its `attributes` argument directly from `attributes()` of the Byron address parameter it witnesses: the attributes (derivation payload, protocol magic) are the only variable-size part of a bootstrap witness, so a placeholder built from anything else mis-predicts size and fee for Daedalus-style addresses")
    n = 0
    for fid, fn in F.fns.items():
        if "/tests/" in fn["file"] or F.is_derived(fid) or "/serialization/" in fn["file"]:
            continue
        for c in F.calls(fid):
            if not (c.to or "").endswith("BootstrapWitness::new"):
                continue
            n += 1
            rep.inst("BOOT-attr")
            t = fn["bbs"][c.bb]["t"]
            d = direct_call_of(fn, t[3][3]) if len(t[3]) >= 4 else None
            ok = False
            if d and d[1].endswith("ByronAddress::attributes"):
                org = ff.Origins(F, fid)
                recv = fn["bbs"][d[0]]["t"][3][0]
                o = org.of_operand(recv)
                if any(x.startswith("arg:") for x in o) and not any(x.startswith("call:") and "ByronAddress" in x and not x.split("@")[0].endswith("attributes") for x in o):
                    ok = True
            if not ok:
                rep.violation("BOOT-attr", F.key(fid), "%s builds a bootstrap witness whose attributes are not `attributes()` of the address handed to it (direct definition: %s): for a Daedalus-style address (attributes ~34 bytes longer than Icarus') the witness is shorter than the real one, full_size / min_fee come out too low and build_tx accepts the under-paid fee" % (F.key(fid), d[1] if d else "not a direct call result"), {})
    rep.floor("BootstrapWitness::new sites outside decoders", 3, n)


def boot_size_each_rule(rep, F):
    """the batcher's witness size model adds the size of each Byron address's own bootstrap witness"""
    import fieldflow as ff
    import mustpass as mp
    rep.rule("BOOT-size-each", "WitnessesCalculator::add_boostrap evaluates get_boostrap_witness_size on its own address argument on every path (the call post-dominates the entry, is not deferred into a closure / cache) and adds the result to total_size: bootstrap witnesses differ in size with the address attributes, a size remembered from another address under-predicts the transaction size")
    fid = find_fn(rep, F, "WitnessesCalculator::add_boostrap")
    if not fid:
        return
    fn = F.fns[fid]
    rep.inst("BOOT-size-each")
    cs = [c for c in F.calls(fid) if (c.to or "").endswith("get_boostrap_witness_size")]
    pd, _ = mp.postdominators(fn)
    org = ff.Origins(F, fid)
    ok = False
    for c in cs:
        t = fn["bbs"][c.bb]["t"]
        if c.bb in pd.get(0, set()) and "arg:2" in org.of_operand(t[3][0]):
            # the result reaches total_size
            for bb in fn["bbs"]:
                for st in bb["st"]:
                    if st[1] == "=" and st[2].endswith(":total_size") and any(x.startswith("call:") and "get_boostrap_witness_size" in x for x in org.of_place(st[2].split("|")[0]) | (org.of_operand(st[3][1]) if st[3][0] == "use" else set())):
                        ok = True
    if not ok:
        rep.violation("BOOT-size-each", "WitnessesCalculator::add_boostrap", "add_boostrap does not price its own address on every call (get_boostrap_witness_size(address) is %s): with an Icarus address first and Daedalus-style addresses after it the predicted size is ~34 bytes short per witness and create_send_all returns transactions above max_tx_size" % ("conditional or not applied to the argument" if cs else "not called directly - deferred into a closure or cache"), {})


def datum_id_rule(rep, F):
    """identity of a datum in every de-duplication = value + the bytes it is written with"""
    # DATUM-id: the ordered-set de-duplication is only right because PlutusData's Ord tells different encodings apart
    rep.rule("DATUM-id", "PlutusData's Ord (the relation every datum de-duplication uses) identifies a datum by its value and the bytes it is written with (preserved original bytes, else the canonical encoding - compared through to_bytes): different encodings stay apart (different hashes), identical bytes are one element")
    pd = [a for a in F.adts if a.endswith("plutus_data::PlutusData")]
    if len(pd) != 1:
        rep.lost("PlutusData not found")
    else:
        rep.inst("DATUM-id")
        om = [im for im in F.impls if (im.get("trait") or "").startswith("std::cmp::Ord") and (im.get("self_adt") or im["self_ty"]) == pd[0]]
        if not om:
            rep.violation("DATUM-id", "PlutusData|no-ord", "PlutusData has no Ord impl any more", {})
        elif om[0].get("derive"):
            rep.violation("DATUM-id", "PlutusData|derived-ord", "PlutusData's Ord is derived: it compares the Option field original_bytes structurally, so a datum decoded from bytes (Some(canonical bytes)) and the same datum built through the API (None) are different set elements although they are written with identical bytes - the witness set the builder emits then holds the datum twice (`9f 18 2a 18 2a ff`), which a set-typed field must not", {})
        elif not om[0].get("derive"):
            mid = [m["id"] for m in om[0]["methods"] if m["name"] == "cmp"]
            rd = {f for (a, f) in fields_read(F, mid[0], depth=2) if a == pd[0]} if mid and mid[0] in F.fns else set()
            mid_calls = [c.to or "" for c in F.calls(mid[0])] + [c.to or "" for sub in F.fns if sub.startswith(mid[0] + "::{closure") for c in F.calls(sub)] if mid and mid[0] in F.fns else []
            if "original_bytes" in rd and "datum" in rd and not any(x.endswith("PlutusData::to_bytes") or x.endswith("PlutusData as cbor_event::Serialize>::serialize") for x in mid_calls):
                rep.violation("DATUM-id", "PlutusData|ord-not-on-bytes", "PlutusData's hand-written Ord reads original_bytes but never compares the bytes the two datums are written with (to_bytes): Some(canonical bytes) and None would still be told apart", {})
            if mid and mid[0] in F.fns:
                import fieldflow as _ff
                o0 = _ff.Origins(F, mid[0]).of_place("_0")
                if any(x.startswith("call:") and ("PlutusDataEnum as std::cmp::Ord>::cmp" in x or x.split("@")[0].endswith("Ordering::then_with") or x.split("@")[0].endswith("Ordering::then")) for x in o0):
                    rep.violation("DATUM-id", "PlutusData|ord-value-decides", "PlutusData's Ord returns the order of the decoded values whenever they differ (datum.cmp(..).then_with(bytes)): the value order also looks at encoding details of nested lists (definite_encoding: None for an API-built list, Some(..) for a decoded one) that do not show in the bytes, so a list datum built through the API and the same datum decoded from its own bytes are two set elements - witness set `9f 9f01ff 9f01ff ff`. The value order may only be a shortcut for Equal; otherwise the bytes decide", {})
            if "original_bytes" not in rd or "datum" not in rd:
                rep.violation("DATUM-id", "PlutusData|ord-basis|%s" % ",".join(sorted(rd)), "PlutusData's hand-written Ord compares %s only: two datums with equal value but different preserved bytes (different hashes, both required by their inputs) collapse to one in every witness-set de-duplication" % sorted(rd), {})


def datum_rules(rep, F):
    datum_id_rule(rep, F)
    datum_eq_rule(rep, F)
    dedup_total_rule(rep, F)


def hash_eq_rule(rep, F):
    """Hash/Eq contract for everything that is (part of) an element of a hash-based de-duplicating set"""
    rep.rule("HASH-EQ", "every type that is, or is contained in, an element of a hash-based de-duplicating set (the `dedup` HashSet of Certificates, Credentials, Ed25519KeyHashes, VotingProposals, Vkeywitnesses, BootstrapWitnesses) hashes no field that its equality ignores - no encoding-detail allowance here: equal elements must land in the same bucket, or the set holds (and writes) the same element twice while the decoder, which rebuilds the elements uniformly, collapses them")
    names = {a.rsplit("::", 1)[-1]: a for a in F.adts}
    roots = []
    for adt, a in F.adts.items():
        for v in a["variants"]:
            for f in v["fields"]:
                if f["name"] == "dedup":
                    for x in re.findall(r"Hash(?:Set|Map)<(?:std::rc::Rc<)?([A-Za-z0-9_:]+)", f["ty"]):
                        roots.append(x if x in F.adts else names.get(x.rsplit("::", 1)[-1]))
    roots = [r for r in roots if r]
    if len(roots) < 5:
        rep.lost("hash-based de-duplicating sets not found (%d)" % len(roots))
        return

    def refs(adt):
        out = set()
        for v in F.adts[adt]["variants"]:
            for f in v["fields"]:
                for tok in re.findall(r"[A-Za-z_][A-Za-z0-9_:]*", f["ty"]):
                    if tok in F.adts:
                        out.add(tok)
                    elif "::" not in tok and tok in names:
                        out.add(names[tok])
        return out
    clo, work = set(), list(roots)
    while work:
        x = work.pop()
        if x in clo:
            continue
        clo.add(x)
        work.extend(refs(x))

    def impl_of(adt, prefix):
        for im in F.impls:
            if (im.get("trait") or "").startswith(prefix) and (im.get("self_adt") or im["self_ty"]) == adt and "/tests/" not in im.get("file", ""):
                return im
        return None
    n = 0
    for adt in sorted(clo):
        a = F.adts[adt]
        if a["kind"] != "struct":
            continue
        eq, hs = impl_of(adt, "std::cmp::PartialEq"), impl_of(adt, "std::hash::Hash")
        if not eq or not hs or (eq.get("derive") and hs.get("derive")):
            continue
        fs = {f["name"] for f in a["variants"][0]["fields"]}

        def basis(im, mname):
            if im.get("derive"):
                return set(fs)
            mid = [m["id"] for m in im["methods"] if m["name"] == mname]
            if not mid or mid[0] not in F.fns:
                return None
            return {f for (x, f) in fields_read(F, mid[0], depth=2) if x == adt} & fs
        e, h = basis(eq, "eq"), basis(hs, "hash")
        if e is None or h is None:
            continue
        n += 1
        rep.inst("HASH-EQ")
        if h - e:
            short = adt.rsplit("::", 1)[-1]
            rep.violation("HASH-EQ", "%s|%s" % (short, ",".join(sorted(h - e))), "%s hashes %s, which its equality ignores: two equal %s values (e.g. one decoded from an untagged array, one built through the API) land in different buckets, so a set-typed collection that contains them - directly or inside an element such as a pool registration's owners - keeps both, writes the element twice, and does not survive its own round trip" % (short, sorted(h - e), short), {})
    rep.floor("hand-written Hash / Eq pairs inside de-duplicated set elements", 3, n)


def int_range_rule(rep, F):
    """Int::from_str accepts exactly the range of a CBOR integer"""
    rep.rule("INT-span", "Int::from_str builds an Int exactly for -2^64 ..= 2^64 - 1, the range the CBOR reader produces and to_str prints: the construction is dominated by comparisons of the parsed value with those two constants (a test of the magnitude alone cannot express the asymmetric range and rejects -2^64, which then survives neither the decimal-string nor the JSON round trip)")
    # the sibling conversion from a big integer has the same range
    bid = F.by_key("BigInt::as_int")
    if len(bid) == 1:
        rep.inst("INT-span")
        bfn = F.fns[bid[0]]
        sites = [bi for bi, bb in enumerate(bfn["bbs"]) if not bb["c"] for st in bb["st"] if st[1] == "=" and st[3][0] == "agg" and st[3][2].endswith("numeric::int::Int")]
        via_neg = any((c.to or "").endswith("Int::new_negative") for c in F.calls(bid[0]))
        if not sites and via_neg:
            rep.violation("INT-span", "BigInt::as_int|lower|magnitude", "BigInt::as_int builds negative values through Int::new_negative(u64 magnitude), which cannot express -2^64: BigInt(-18446744073709551616).as_int() is None although an Int holds that value (Int::from_bytes(3b ff..ff))", {})
        elif not sites:
            rep.lost("BigInt::as_int: Int construction not found")
        for bi in sites:
            lo, why = gate_min(F, bid[0], bi)
            hi = gate_limit(F, bid[0], bi)[0]
            if lo != -(1 << 64) or hi != (1 << 64) - 1:
                rep.violation("INT-span", "BigInt::as_int|range|%s..%s" % (lo, hi), "BigInt::as_int answers Some for %s ..= %s; the range of an Int is -2^64 ..= 2^64 - 1" % (lo, hi), {})
    ids = F.by_key("Int::from_str")
    if len(ids) != 1:
        rep.lost("Int::from_str not found")
        return
    fn = F.fns[ids[0]]
    n = 0
    for bi, bb in enumerate(fn["bbs"]):
        for st in bb["st"]:
            if st[1] == "=" and st[3][0] == "agg" and st[3][2].endswith("numeric::int::Int"):
                n += 1
                rep.inst("INT-span")
                lo, why = gate_min(F, ids[0], bi)
                hi = gate_limit(F, ids[0], bi)[0]
                uses_abs = any((c.to or "").rsplit("::", 1)[-1] in ("unsigned_abs", "abs", "checked_abs", "wrapping_abs") for c in F.calls(ids[0]))
                if lo is None and uses_abs:
                    rep.violation("INT-span", "Int::from_str|lower|magnitude", "Int::from_str bounds the magnitude only: -18446744073709551616 (= -2^64, which Int::from_bytes(3b ff..ff) yields and to_str prints) is rejected, so the decimal-string and JSON forms of that value do not read back", {})
                elif lo is None:
                    rep.lost("Int::from_str: lower bound of the accepted range not derivable (%s)" % why)
                elif lo != -(1 << 64):
                    rep.violation("INT-span", "Int::from_str|lower|%d" % lo, "Int::from_str accepts values down to %d; the range of an Int is -2^64 ..= 2^64 - 1" % lo, {})
                if hi is not None and hi != (1 << 64) - 1:
                    rep.violation("INT-span", "Int::from_str|upper|%d" % hi, "Int::from_str accepts values up to %d; the range of an Int is -2^64 ..= 2^64 - 1" % hi, {})
    rep.floor("Int constructions in Int::from_str", 1, n)


def ser_filter_rule(rep, F):
    """a CBOR writer writes what is stored: no filtering of fields or elements on the way out"""
    rep.rule("SER-filter", "no CBOR writer (cbor_event::Serialize impl or serialize_* helper) passes a field or its elements through a filtering adaptor (Option::filter / take_if / xor, Iterator::filter / filter_map / flat_map / flatten / take / skip / find ...) outside the audited inventory: a value the reader can produce and the API can hold is written as it is - a writer that drops `redundant` content (a protocol magic equal to the mainnet one) makes decode(encode(v)) differ from v")
    OK = {("<VotingProcedures as cbor_event::Serialize>::serialize", "filter"): "counts the voters that have votes - the declared map length of exactly the entries the loop below writes (W-len checks the agreement)"}
    DROP = re.compile(r"(Iterator::(filter|filter_map|flat_map|flatten|take|skip|take_while|skip_while|find|step_by|map_while)$|Option::<T>::(filter|take_if|xor)$)")
    got = {}
    n = 0
    for fid, fn in F.fns.items():
        if "/tests/" in fn["file"] or F.is_derived(fid):
            continue
        base = fid.split("::{closure")[0]
        it = (F.fns.get(base) or {}).get("impl_trait") or ""
        last = base.rsplit("::", 1)[-1]
        if not it.startswith("cbor_event::Serialize") and not (fn["file"].startswith("src/serialization/") and "serialize" in last and "deserialize" not in last):
            continue
        n += 1
        for c in F.calls(fid):
            if DROP.search(c.to or ""):
                k = (F.key(base), (c.to or "").rsplit("::", 1)[-1])
                got[k] = got.get(k, 0) + 1
    rep.inst("SER-filter", n)
    for k, m in sorted(got.items()):
        if k in OK and m <= 1:
            rep.allow("SER-filter", m)
            continue
        rep.violation("SER-filter", "%s|%s" % k, "%s passes what it writes through `%s`: content the value holds is dropped on the wire, so the decoded value (and the re-encoded bytes of a decoded one) differ from the original" % k, {})
    rep.floor("CBOR writer functions inspected", 150, n)


def boot_size_real_rule(rep, F):
    """the batcher's bootstrap witness size is measured on a real encoding, not assembled from constants"""
    import fieldflow as ff
    rep.rule("BOOT-size-real", "CborCalculator::get_boostrap_witness_size returns the length of the serialised form (to_bytes().len()) of a bootstrap witness built for the address it is given: the attributes' own CBOR head grows from 1 to 2 bytes at 24 bytes (Daedalus addresses carry 34), which a constant + attributes().len() misses by one byte per witness - fee 44 lovelace below the minimum")
    fid = find_fn(rep, F, "CborCalculator::get_boostrap_witness_size")
    if not fid:
        return
    rep.inst("BOOT-size-real")
    o = ff.Origins(F, fid).of_place("_0")
    measured = any(x.startswith("call:") and x.split("@")[0].endswith("BootstrapWitness::to_bytes") for x in o) and any(x.startswith("call:") and x.split("@")[0].endswith("::len") for x in o)
    built = any(x.startswith("call:") and ("bootstrap_witness" in x.split("@")[0]) for x in o) and "arg:1" in o
    if not (measured and built):
        rep.violation("BOOT-size-real", "CborCalculator::get_boostrap_witness_size", "get_boostrap_witness_size does not measure a serialised witness of its address (origins of the result: %s)" % sorted(x.split("@")[0] for x in o if x.startswith("call:"))[:5], {})


def assetname_ord_rule(rep, F, RULE):
    """AssetName's Ord = (length, bytes): total, canonical, and Equal only for equal names"""
    fid = find_fn(rep, F, "<AssetName as std::cmp::Ord>::cmp")
    if fid:
        rep.inst(RULE)
        hir = F.hir[fid]
        ok = False
        for n in H.walk(hir["body"]):
            if n[0] == "match":
                sc = H.strip(n[2])
                if H.is_node(sc) and sc[0] == "mcall" and sc[2] == "cmp" and (H.path_str(sc[4]) or "").endswith(".len()") and (H.path_str(sc[5][0]) or "").endswith(".len()"):
                    for pat, g, body in n[3]:
                        if (H.pat_variant(pat) or "").endswith("Equal"):
                            b = H.strip(body)
                            if H.is_node(b) and b[0] == "mcall" and b[2] == "cmp" and H.path_str(b[4]) == "self.0":
                                ok = True
        if not ok:
            rep.violation(RULE, "AssetName::cmp", "AssetName's Ord no longer compares lengths first and contents only on equal length (canonical CBOR key order)", {})
    fidp = find_fn(rep, F, "<AssetName as std::cmp::PartialOrd>::partial_cmp")
    if fidp:
        rep.inst(RULE)
        if not any((c.to or "").endswith("AssetName as std::cmp::Ord>::cmp") or F.key(c.to or "") == "<AssetName as std::cmp::Ord>::cmp" for c in F.calls(fidp)):
            rep.violation(RULE, "AssetName::partial_cmp", "AssetName's PartialOrd does not delegate to its Ord", {})


# ---- identity of datums outside the Ord-based de-duplication -------------------------------------------------------------
_VALUE_ID_PRIM = re.compile(
    r"(slice::<impl \[T\]>::(contains|starts_with|ends_with)|(HashSet|HashMap|LinkedHashMap|LinkedHashSet|IndexMap|IndexSet).*::(insert|contains|contains_key|entry|get|get_mut|remove|replace|take)"
    r"|Vec::<T, A>::(dedup|dedup_by_key)|VecDeque::<T, A>::contains)$")


def datum_eq_rule(rep, F):
    """DATUM-eq: no library code decides whether a datum 'is already there' by value equality"""
    rep.rule("DATUM-eq", "the identity of a witness datum is its Ord (value + the bytes it is written with, DATUM-id); PartialEq / Hash of PlutusData look at the decoded value only (and Hash at encoding details of nested lists that equality ignores). Every membership / de-duplication primitive that is instantiated over PlutusData and decides by PartialEq or Hash (slice contains, hash sets / maps, Vec::dedup, a direct == on datums) sits in the audited places - PlutusMap (a Plutus map is keyed by value), the public query PlutusList::contains, the comparison impls themselves - and the audited query has no caller inside the library: a builder or witness-set helper that skips, merges or keeps a datum on that basis makes the fee estimate, the script data hash and the emitted set disagree about which datums exist")
    pd = [a for a in F.adts if a.endswith("plutus_data::PlutusData")]
    if len(pd) != 1:
        rep.lost("PlutusData not found")
        return
    PD = pd[0]
    ALLOW_ADT = ("plutus_data::PlutusMap", "plutus_data::PlutusMapValues")
    # audited by reading, one line of reason each (a site here is not a decision about which datums a witness set holds)
    ALLOW_FN = {
        "Redeemer::partially_eq": "MintBuilder's consistency gate for a repeated mint witness of one policy: a redeemer of different *value* is refused; on equal value the first redeemer stays and the second is used nowhere - redeemer data is not an element of the datum set",
    }
    QUERY = [f for f in F.by_key("PlutusList::contains")]
    sites = 0
    ord_sites = 0
    for fid, fn in F.fns.items():
        if fn.get("derive") or "/tests/" in (fn.get("file") or "") or "tests::" in fid or (fn.get("file") or "").startswith("src/tests"):
            continue
        for c in F.calls(fid):
            ga = c.info.get("ga") or ""
            to = c.to or ""
            first = ga.strip("[]").split(",")[0].strip() if ga else ""
            over_pd = first.endswith(PD) and ("<" not in first)
            direct_eq = to in ("<%s as std::cmp::PartialEq>::eq" % PD, "<%s as std::cmp::PartialEq>::ne" % PD, "<%s as std::hash::Hash>::hash" % PD)
            if over_pd and re.search(r"BTree(Set|Map).*::(insert|contains|contains_key|entry|get)$", to):
                ord_sites += 1
            if not ((over_pd and _VALUE_ID_PRIM.search(to)) or direct_eq):
                continue
            sites += 1
            rep.inst("DATUM-eq")
            owner = fn.get("self_adt") or ""
            root = fid.split("::{closure")[0]
            if any(owner.endswith(a) for a in ALLOW_ADT) or root in QUERY or F.key(root) in ALLOW_FN:
                rep.allow("DATUM-eq")
                continue
            if (fn.get("impl_trait") or "").split("<")[0] in ("std::cmp::PartialEq", "std::hash::Hash", "std::cmp::Eq"):
                rep.allow("DATUM-eq")
                continue
            rep.violation("DATUM-eq", "%s|%s" % (F.key(root), H_short(to)), "%s decides about a datum with %s, i.e. by PartialEq / Hash of the decoded value, not by the Ord every witness-set de-duplication uses: a datum built through the API and the same datum decoded from bytes (or two datums of equal value written with different bytes) are treated differently here than in the emitted witness set" % (F.key(root), to), {"line": c.line, "file": fn.get("file")})
    for q in QUERY:
        for fid, fn in F.fns.items():
            if "/tests/" in (fn.get("file") or "") or "tests::" in fid or (fn.get("file") or "").startswith("src/tests") or fid.split("::{closure")[0] == q:
                continue
            for c in F.calls(fid):
                if c.to == q:
                    rep.inst("DATUM-eq")
                    rep.violation("DATUM-eq", "%s|calls|PlutusList::contains" % F.key(fid.split("::{closure")[0]), "%s asks PlutusList::contains (value equality) whether a datum is present: the witness set tells datums apart by the bytes they are written with, so a datum of equal value but different bytes is treated as present although the emitted set will hold both" % F.key(fid.split("::{closure")[0]), {"line": c.line, "file": fn.get("file")})
    rep.floor("DATUM-eq value-identity sites over PlutusData", 6, sites)
    rep.floor("DATUM-eq ordered-set sites over PlutusData", 3, ord_sites)


def dedup_total_rule(rep, F):
    """DEDUP-total: the de-duplicating helpers de-duplicate on every path"""
    rep.rule("DEDUP-total", "deduplicated_view / deduplicated_clone of PlutusList, NativeScripts and PlutusScripts reach their return only through the loop over the elements (the loop head dominates the return: no early exit for 'already a set' markers, which neither the decoder nor add() guarantees), and every push inside the loop is control dependent on the result of the ordered-set insert")
    import e1_panicpath as _e1
    import mustpass as _mp
    for T in ("PlutusList", "NativeScripts", "PlutusScripts"):
        for m in ("deduplicated_view", "deduplicated_clone"):
            ids = F.by_key("%s::%s" % (T, m))
            if len(ids) != 1:
                rep.lost("%s::%s not found" % (T, m))
                continue
            fid = ids[0]
            fn = F.fns[fid]
            calls = F.calls(fid)
            heads = [c for c in calls if (c.to or "").endswith("::into_iter") or (c.to or "").endswith("slice::<impl [T]>::iter")]
            ins = [c for c in calls if re.search(r"BTreeSet.*::insert$", c.to or "")]
            pushes = [c for c in calls if (c.to or "").endswith("Vec::<T, A>::push")]
            rets = [bi for bi, bb in enumerate(fn["bbs"]) if bb["t"][1] in ("ret", "return") and not bb["c"]]
            if heads and rets and not ins and not pushes:
                # iterator form: `.iter().filter(|e| set.insert(..))...collect()` - the closure's verdict IS the ordered-set insert
                flt = [c for c in calls if (c.to or "").endswith("Iterator::filter")]
                cl = [x for x in F.fns if x.startswith(fid + "::{closure")]
                cl_ins = [x for x in cl if any(re.search(r"BTreeSet.*::insert$", k.to or "") for k in F.calls(x))]
                if flt and cl_ins:
                    rep.inst("DEDUP-total")
                    for r in rets:
                        if not any(_mp.dominated_by(fn, r, h.bb) for h in flt):
                            rep.violation("DEDUP-total", "%s::%s|early-exit" % (T, m), "%s::%s can return without filtering its elements through the ordered set (the return is not dominated by the filter over the elements)" % (T, m), {})
                    for x in cl_ins:
                        xf = F.fns[x]
                        o_ = set()
                        import fieldflow as _ffx
                        o_ = _ffx.Origins(F, x).of_place("_0")
                        if not any(y.startswith("call:") and re.search(r"BTreeSet.*::insert$", y.split("@")[0]) for y in o_) or any(y.startswith("const") or y == "k:true" for y in o_):
                            rep.violation("DEDUP-total", "%s::%s|filter-verdict" % (T, m), "%s::%s filters with a closure whose verdict is not the result of the ordered-set insert alone" % (T, m), {})
                    continue
            if not heads or not ins or not pushes or not rets:
                rep.lost("%s::%s: loop / insert / push / return not recognised (%d %d %d %d)" % (T, m, len(heads), len(ins), len(pushes), len(rets)))
                continue
            rep.inst("DEDUP-total")
            for r in rets:
                if not any(_mp.dominated_by(fn, r, h.bb) for h in heads):
                    rep.violation("DEDUP-total", "%s::%s|early-exit" % (T, m), "%s::%s can return without walking its elements (the return is not dominated by the loop over the elements): on that path the list is handed on as it is - e.g. a list decoded from a tag-258 set that repeats a datum, or one that add() extended afterwards, keeps its duplicates through TransactionWitnessSet's setter and is written with them" % (T, m), {})
            gates = [g for g in (_mp.bool_gate(F, fid, c) for c in ins) if g]
            for p in pushes:
                deps = _mp.control_deps(F, fid, p.bb)
                sw = set()
                for c in ins:
                    # the switch consuming the insert's bool
                    cur = c.target
                    for _ in range(8):
                        if cur is None:
                            break
                        t = fn["bbs"][cur]["t"]
                        if t[1] == "switch":
                            sw.add(cur)
                            break
                        cur = t[2] if t[1] == "goto" else t[3] if t[1] == "drop" else None
                if not gates or not (deps & sw):
                    rep.violation("DEDUP-total", "%s::%s|push-ungated" % (T, m), "%s::%s pushes an element without the ordered-set insert deciding it" % (T, m), {})


# ---- the size a batch proposal is accepted on is the size after its last change ----------------------------------------------
def size_fresh_rule(rep, F):
    """SIZE-fresh: a proposal is accepted only behind `size <= max_tx_size` on the size returned by the LAST set_min_ada_for_tx"""
    rep.rule("SIZE-fresh", "in every send-all function that sizes a proposal with set_min_ada_for_tx and then accepts it (TxProposalChanges::new): from each sizing call, the acceptance is reachable without another sizing call only through the edge of a comparison that certifies `that call's result <= config.max_tx_size` (operand origins name the call site). A size taken before further inputs were added (a shadowed variable, a gate hoisted above the top-up) does not certify the proposal that is returned")
    import mustpass as _mp
    import fieldflow as _ff
    n = 0
    for fid, fn in F.fns.items():
        if "batch_tools" not in fid and "tx_batch_builder" not in fid:
            continue
        calls = F.calls(fid)
        sizing = [c for c in calls if (c.to or "").endswith("AssetCategorizer::set_min_ada_for_tx")]
        accept = [c for c in calls if (c.to or "").endswith("TxProposalChanges::new")]
        if not sizing or not accept:
            continue
        org = _ff.Origins(F, fid)
        bbs = fn["bbs"]
        succ = {i: [x for x in _mp._succs(fn, i) if x is not None and not bbs[x]["c"]] for i in range(len(bbs)) if not bbs[i]["c"]}
        # comparisons size ? max  ->  (switch block, edge certifying size <= max, set of sizing blocks named by the size operand)
        gates = []
        for bi, bb in enumerate(bbs):
            if bb["c"]:
                continue
            for st in bb["st"]:
                if not (st[1] == "=" and st[3][0] == "bin" and st[3][1] in ("Gt", "Lt", "Ge", "Le")):
                    continue
                oa, ob = org.of_operand(st[3][2]), org.of_operand(st[3][3])
                is_max = lambda o: any(x.endswith("TransactionBuilderConfig.max_tx_size") for x in o)
                szs = lambda o: {int(x.rsplit("@", 1)[1]) for x in o if x.startswith("call:") and x.split("@")[0].endswith("set_min_ada_for_tx")}
                if is_max(ob) and szs(oa) and not is_max(oa):
                    size_left, named = True, szs(oa)
                elif is_max(oa) and szs(ob) and not is_max(ob):
                    size_left, named = False, szs(ob)
                else:
                    continue
                op = st[3][1]
                # edge on which size <= max is certain: for size>max / size>=max the false edge, for size<=max / size<max the true edge
                if not size_left:
                    op = {"Gt": "Lt", "Lt": "Gt", "Ge": "Le", "Le": "Ge"}[op]
                ok_edge_true = op in ("Le", "Lt")
                t = bb["t"]
                if t[1] != "switch" or _mp.op_place(t[2]) != st[2]:
                    # the bool may be moved once before the switch
                    continue
                f = [tgt for v, tgt in t[3] if v == "0"]
                if not f:
                    continue
                gates.append((bi, t[4] if ok_edge_true else f[0], named))
        sz_bbs = {c.bb for c in sizing}
        for s in sizing:
            n += 1
            rep.inst("SIZE-fresh")
            cut = {(g, e) for g, e, named in gates if s.bb in named}
            seen, work = set(), [s.target] if s.target is not None else []
            hit = None
            while work:
                b = work.pop()
                if b in seen or b is None or bbs[b]["c"]:
                    continue
                seen.add(b)
                if b in sz_bbs and b != s.bb:
                    continue
                if any(a.bb == b for a in accept):
                    hit = b
                    break
                for x in succ.get(b, []):
                    if (b, x) in cut:
                        continue
                    work.append(x)
            if hit is not None:
                rep.violation("SIZE-fresh", "%s|sizing@%d" % (F.key(fid), [c.bb for c in sizing].index(s.bb)), "%s accepts the proposal (TxProposalChanges::new) after its %s set_min_ada_for_tx call without a comparison of *that* call's size with config.max_tx_size on the way (%d comparison(s) with max_tx_size exist, naming sizing calls %s): inputs added before this call (the ADA top-up and its witnesses) are not in the size that was tested, so create_send_all can return a transaction above max_tx_size" % (F.key(fid), ["first", "second", "third", "fourth"][min(3, [c.bb for c in sizing].index(s.bb))], len(gates), sorted({[c.bb for c in sizing].index(x) for g, e, nm in gates for x in nm if x in sz_bbs})), {"file": fn.get("file"), "line": s.line})
    rep.floor("sizing calls followed by an acceptance (send-all)", 3, n)


# ---- a reader that opened a container with a length book-keeper closes it ------------------------------------------------------
def close_len_rule(rep, F):
    """CLOSE-len: every reader that counts a declared length with CBORReadLen ends the container it opened"""
    rep.rule("CLOSE-len", "in every reader that wraps the Len of its array() / map() call in a CBORReadLen: (definite) the success return is not reachable on the definite-length side without CBORReadLen::finish - read_elems only rejects a declared length that is too *small*, so without finish an over-long array is accepted, its surplus items are read as whatever follows, and a byte-preserving owner (PlutusData, the auxiliary data / body / witness set of a FixedTransaction) keeps a span that is not one CBOR item; (indefinite) the success return is not reachable on the indefinite side without consuming the Break (special() directly or through a helper that takes the Len): otherwise the kept span ends one byte early")
    import mustpass as _mp
    helpers = set()
    for fid, fn in F.fns.items():
        if any(t == "cbor_event::Len" for t in fn["locals"][1:1 + fn.get("argc", 0)]) and any((c.to or "").endswith("Deserializer::<R>::special") for c in F.calls(fid)):
            helpers.add(fid)
    n = 0
    for fid, fn in F.fns.items():
        news = [c for c in F.calls(fid) if (c.to or "").endswith("CBORReadLen::new")]
        if not news:
            continue
        bbs = fn["bbs"]
        succ = {i: [x for x in _mp._succs(fn, i) if x is not None and not bbs[x]["c"]] for i in range(len(bbs)) if not bbs[i]["c"]}
        # constant loop conditions: `Len::Indefinite => true` assigns a constant and jumps to the block that switches on it
        for b_ in list(succ):
            t_ = bbs[b_]["t"]
            if t_[1] != "goto":
                continue
            j_ = t_[2]
            tj = bbs[j_]["t"]
            if bbs[j_]["st"] or tj[1] != "switch":
                continue
            L_ = _mp.op_place(tj[2])
            val = None
            for st in bbs[b_]["st"]:
                if st[1] == "=" and st[2] == L_:
                    val = st[3][1][1] if (st[3][0] == "use" and st[3][1][0] == "k" and st[3][1][1] in ("true", "false")) else None
            if val is not None:
                f_ = [tgt for v, tgt in tj[3] if v == "0"]
                succ[b_] = [f_[0]] if (val == "false" and f_) else [tj[4]] if val == "true" else succ[b_]
        succ_stores = {b for b, kind, loc in _mp.success_stores(F, fid)}
        fin = {c.bb for c in F.calls(fid) if (c.to or "").endswith("CBORReadLen::finish")}
        brk = {c.bb for c in F.calls(fid) if (c.to or "").endswith("Deserializer::<R>::special") or c.to in helpers}
        # switches on the discriminant of a Len
        indef_edges, def_edges = set(), set()
        for bi, bb in enumerate(bbs):
            if bb["c"] or bb["t"][1] != "switch":
                continue
            sw = _mp.op_place(bb["t"][2])
            for st in bb["st"]:
                if st[1] == "=" and st[2] == sw and st[3][0] == "discr":
                    src = st[3][1].split("|")[0]
                    if src.startswith("_") and src[1:].isdigit() and fn["locals"][int(src[1:])] in ("cbor_event::Len", "&cbor_event::Len"):
                        vals = {v for v, tgt in bb["t"][3]}
                        for v, tgt in bb["t"][3]:
                            (indef_edges if v == "0" else def_edges).add((bi, tgt))
                        # `if let Len::Len(_) = len {..} else {..}`: the otherwise edge stands for the variant not listed
                        if vals == {"1"}:
                            indef_edges.add((bi, bb["t"][4]))
                        elif vals == {"0"}:
                            def_edges.add((bi, bb["t"][4]))

        def reach(start, stop_bbs, cut):
            seen, work = set(), [start]
            while work:
                b = work.pop()
                if b is None or b in seen or bbs[b]["c"]:
                    continue
                seen.add(b)
                if b in stop_bbs:
                    continue
                if b in succ_stores:
                    return b
                for x in succ.get(b, []):
                    if (b, x) not in cut:
                        work.append(x)
            return None
        for i, c in enumerate(news):
            n += 1
            rep.inst("CLOSE-len")
            key = F.key(fid.split("::{closure")[0]) + ("" if len(news) == 1 else "#%d" % i)
            if reach(c.target, fin, indef_edges) is not None:
                rep.violation("CLOSE-len", "%s|definite" % key, "%s returns a value for a definite-length container without CBORReadLen::finish: a declared length larger than the items read is accepted (read_elems only fails when it is too small) - the surplus items are left in the stream and parsed as what follows, and a byte-preserving owner keeps a span that is not a complete CBOR item (PlutusData::from_hex(d866 83 00 80 00).to_hex() = d866830080)" % key, {"file": fn.get("file"), "line": c.line})
            if reach(c.target, brk, def_edges) is not None:
                rep.violation("CLOSE-len", "%s|indefinite" % key, "%s returns a value for an indefinite-length container without consuming its Break: the 0xff is left in the stream, and a byte-preserving owner (deserilized_with_orig_bytes) keeps a span that ends one byte early - FixedTransaction::to_bytes then writes a truncated item" % key, {"file": fn.get("file"), "line": c.line})
    rep.floor("CBORReadLen book-keepers", 19, n)


# ---- a fallible amount conversion is not unwrapped ------------------------------------------------------------------------------
_AMOUNT_FALLIBLE = re.compile(r"(numeric::int::Int::(as_positive|as_negative|as_i32|as_i32_or_nothing|as_i32_or_fail)|numeric::big_int::BigInt::(as_u64|as_int)|numeric::big_num::BigNum::(checked_\w+|from_str)|utils::Value::(checked_\w+)|MultiAsset::(checked_\w+)|rational::Rational::(to_bignum_ceil|to_bignum_floor))$")


def arith_unwrap_rule(rep, F):
    """ARITH-unwrap: the Option / Result of a fallible amount conversion is never unwrapped"""
    rep.rule("ARITH-unwrap", "no library function calls unwrap / expect on a value whose every definition is, through plain moves, the result of one of the library's own fallible amount conversions (Int::as_positive / as_negative / as_i32, BigInt::as_u64 / as_int, BigNum::checked_*, Value::checked_*): where the conversion has no answer the operation must fail explicitly, a panic is neither the exact result nor an error")
    n = 0
    for fid, fn in F.fns.items():
        if fn.get("derive") or "tests::" in fid or (fn.get("file") or "").startswith("src/tests") or "/tests/" in (fn.get("file") or ""):
            continue
        uw = [c for c in F.calls(fid) if re.search(r"(Option::<T>|Result::<T, E>)::(unwrap|expect)$", c.to or "")]
        if not uw:
            continue
        defs = {}
        for bi, bb in enumerate(fn["bbs"]):
            for st in bb["st"]:
                if st[1] == "=":
                    defs.setdefault(st[2], []).append(("st", st[3], bi))
            t = bb["t"]
            if t[1] == "call":
                defs.setdefault(t[4], []).append(("call", t, bi))

        def sources(pl, depth=0):
            """set of callee names if every definition chain of `pl` ends in a call, else None"""
            if depth > 6 or pl is None:
                return None
            ds = defs.get(pl)
            if not ds:
                return None
            out = set()
            for kind, x, bi in ds:
                if kind == "call":
                    out.add(x[2].get("to") or "")
                elif x[0] == "use" and x[1][0] in ("c", "m"):
                    s_ = sources(x[1][1], depth + 1)
                    if s_ is None:
                        return None
                    out |= s_
                else:
                    return None
            return out
        for c in uw:
            n += 1
            a = fn["bbs"][c.bb]["t"][3][0]
            src = sources(a[1]) if a[0] in ("c", "m") else None
            if not src or not all(_AMOUNT_FALLIBLE.search(s) for s in src):
                continue
            rep.inst("ARITH-unwrap")
            key = F.key(fid.split("::{closure")[0])
            rep.violation("ARITH-unwrap", "%s|%s" % (key, ",".join(sorted(H_short(s) for s in src))), "%s unwraps the result of %s: for an amount the conversion cannot express (a burn of 2^64 units: Int -18446744073709551616 is a legal Int, its magnitude does not fit a BigNum, as_negative() is None) the call panics instead of returning an error - TransactionBuilder::get_total_input / get_total_output reach it through get_mint_as_values" % (key, " / ".join(sorted(H_short(s) for s in src))), {"file": fn.get("file"), "line": c.line})
    rep.floor("unwrap / expect calls inspected (library code)", 100, n)


# ---- what an iteration collects is handed on ---------------------------------------------------------------------------------------
def fill_commit_rule(rep, F, scope):
    """FILL-commit: a collection created and filled inside one iteration is consumed on every path to the end of the iteration"""
    rep.rule("FILL-commit", "in the accounting code (%s): a local collection that one iteration of a loop (or one call of a fold closure) creates with ::new() and fills (insert / push / add / set) is handed on - passed to a call, moved or returned - on every path from the fill to the end of the iteration; the only skip allowed is the branch on which a test of that same collection says it is empty. `if positive.len() > 0 { minted.insert(p, &positive) } else if negative.len() > 0 { burned.insert(p, &negative) }` drops the burns of a policy that also mints" % ", ".join(scope))
    FILL = ("insert", "push", "add", "set", "extend", "push_back", "insert_unchecked", "add_move", "entry")
    n = 0
    for fid, h in F.hir.items():
        fn = F.fns.get(fid)
        if fn is None or not any(s_ in (fn.get("file") or "") for s_ in scope):
            continue
        if "tests::" in fid or fn.get("derive"):
            continue
        bodies = []
        for x in H.walk(h["body"]):
            if x[0] == "for":
                bodies.append(x[4])
            elif x[0] == "closure":
                bodies.append(x[4])
        for body in bodies:
            b = H.strip(body) if not (H.is_node(body) and body[0] == "block") else body
            if not (H.is_node(b) and b[0] == "block"):
                continue
            stmts = b[2]
            for si, st in enumerate(stmts):
                if st[0] != "let" or st[3] is None:
                    continue
                names = H.pat_bindings(st[2])
                init = H.strip(st[3])
                if len(names) != 1 or not (H.is_node(init) and init[0] == "call" and str(init[2] or "").endswith("::new") and not init[4]):
                    continue
                X = names[0]

                def is_x(e):
                    return H.path_str(e) == X

                def fills(e):
                    return H.is_node(e) and e[0] == "mcall" and e[2] in FILL and is_x(e[4])

                def consumes(e):
                    if not H.is_node(e):
                        return False
                    if e[0] == "mcall" and not is_x(e[4]) and any(is_x(a) for a in e[5]):
                        return True
                    if e[0] == "call" and any(is_x(a) for a in e[4]):
                        return True
                    if e[0] in ("struct",) and any(is_x(f_[1]) for f_ in e[3]):
                        return True
                    if e[0] in ("tup", "array") and any(is_x(a) for a in e[2]):
                        return True
                    if e[0] == "ret" and e[2] is not None and is_x(e[2]):
                        return True
                    if e[0] == "assign" and is_x(e[3]):
                        return True
                    return False
                rest = stmts[si + 1:]
                fill_idx = [i for i, r in enumerate(rest) for p_ in ([r[3], r[4]] if r[0] == "let" else [r[2]]) if p_ is not None and any(fills(y) for y in H.walk(p_))]
                if not fill_idx:
                    continue
                tail_stmts = rest[max(fill_idx) + 1:]
                tail = ["block", 0, tail_stmts, b[3]]
                if b[3] is not None and is_x(b[3]):
                    continue  # the collection is the value of the iteration

                def known(cond):
                    c = H.strip(cond)
                    ment = [y for y in H.walk(c) if H.is_node(y) and y[0] in ("path", "field", "mcall") and (H.path_str(y) or "").split(".")[0] == X]
                    if not ment:
                        return None
                    txt = json.dumps(c)
                    neg = txt.count('"Not"') % 2 == 1
                    empt = '"is_empty"' in txt or ('"Eq"' in txt and '"len"' in txt)
                    nonempt = ('"len"' in txt and ('"Gt"' in txt or '"Ne"' in txt or '"Ge"' in txt))
                    if empt == nonempt:
                        return None
                    then_is_empty_side = (empt and not neg) or (nonempt and neg)
                    return "pos" if then_is_empty_side else "neg"
                n += 1
                rep.inst("FILL-commit")
                if not hir_must(tail, consumes, known):
                    rep.violation("FILL-commit", "%s|%s" % (F.key(fid), X), "%s: the collection `%s`, created and filled inside one iteration, is not handed on on every path to the end of that iteration (a branch that does not test `%s` itself skips it): what the iteration collected there is silently dropped from the result" % (F.key(fid), X, X), {"file": fn.get("file"), "line": st[1]})
    return n


# ---- the size model of a send-all value measures the quantity that is emitted -----------------------------------------------------
def sib_qty_rule(rep, F):
    """SIB-qty: model and builder agree that an asset's quantity is the sum over the spent UTxOs"""
    rep.rule("SIB-qty", "AssetCategorizer::build_value (what is emitted) hands MultiAsset::set_asset a quantity accumulated with BigNum::checked_add over the spent UTxOs, and AssetsCalculator::calc_value_size (what min ADA, size and fee are computed from) measures get_coin_size of a quantity accumulated the same way - never of a single UTxO's amount, and never combines widths with max / min: the width of a sum can exceed the width of every addend (20 + 20, 200 + 200), and each missing byte is coins_per_byte lovelace of minimum ADA and a fee coefficient of fee")
    import fieldflow as _ff
    b = F.by_key("AssetCategorizer::build_value")
    m = F.by_key("AssetsCalculator::calc_value_size")
    if len(b) != 1 or len(m) != 1:
        rep.lost("build_value / calc_value_size not found")
        return
    import mustpass as _mpq
    _deep = _mpq.call_origin_deep(F, "BigNum::checked_add")

    def is_sum(o):
        # an accumulation with checked_add: directly, through a crate helper that returns such a sum, or inside the closure of a fold
        if any(_deep(x) for x in o):
            return True
        for x in o:
            if x.startswith("closure:") and x[8:] in F.fns and any((c.to or "").endswith("BigNum::checked_add") for c in F.calls(x[8:])):
                return True
        return False
    # real side
    fn, org = F.fns[b[0]], _ff.Origins(F, b[0])
    sets = [c for c in F.calls(b[0]) if (c.to or "").endswith("MultiAsset::set_asset")]
    if not sets:
        rep.lost("build_value no longer calls MultiAsset::set_asset")
    for c in sets:
        rep.inst("SIB-qty")
        if not is_sum(org.of_operand(fn["bbs"][c.bb]["t"][3][-1])):
            rep.violation("SIB-qty", "build_value|not-summed", "build_value emits a quantity that is not accumulated with checked_add over the spent UTxOs", {})
    # model side
    fn, org = F.fns[m[0]], _ff.Origins(F, m[0])
    gcs = [c for c in F.calls(m[0]) if (c.to or "").endswith("CborCalculator::get_coin_size")]
    if not gcs:
        rep.lost("calc_value_size no longer calls get_coin_size")
    n_dyn = 0
    for c in gcs:
        o = org.of_operand(fn["bbs"][c.bb]["t"][3][0])
        if not any(x.startswith("call:") or x.startswith("field:") or x.startswith("arg:") for x in o):
            continue  # a constant (the empty quantity)
        if not any("assets_amounts" in x or "next" in x for x in o) and not is_sum(o):
            continue
        n_dyn += 1
        rep.inst("SIB-qty")
        if not is_sum(o):
            rep.violation("SIB-qty", "calc_value_size|addend-width", "calc_value_size measures get_coin_size of a single UTxO's amount instead of the accumulated quantity: build_value emits the sum, whose CBOR width can be larger than that of every addend - the output gets coins_per_byte lovelace too little minimum ADA per missing byte and the fee is computed for a smaller transaction", {"line": c.line})
    comb = [c.to for c in F.calls(m[0]) if re.search(r"(Ord::max|Ord::min|cmp::max|cmp::min)$", c.to or "")]
    if comb:
        rep.violation("SIB-qty", "calc_value_size|width-max", "calc_value_size combines widths with %s: the width of the emitted sum is not the maximum of the widths of its addends" % ", ".join(H_short(x) for x in comb), {})
    if n_dyn == 0 and not comb:
        rep.lost("calc_value_size: no quantity-dependent get_coin_size call recognised")


def recalc_all_rule(rep, F):
    """RECALC-all: the send-all batcher re-prices every output of a proposal after every change"""
    rep.rule("RECALC-all", "AssetCategorizer::recalculate_outputs walks the output proposals with a loop in which every iteration, on every path, calls estimate_output_cost and stores its results with set_min_ada and set_size (HIR must-analysis; a `continue` ends the path): a later UTxO can add quantity to a token that sits in an earlier, 'closed' output, and when the sum crosses a CBOR width boundary a cached size / minimum ADA is too small - the output is under-funded and the fee computed for a smaller transaction")
    fid = find_fn(rep, F, "AssetCategorizer::recalculate_outputs")
    if not fid or fid not in F.hir:
        return
    loops = [n for n in H.walk(F.hir[fid]["body"]) if n[0] == "for"]
    if not loops:
        rep.lost("recalculate_outputs has no loop over the outputs")
        return
    n = 0
    for lp in loops:
        src = json.dumps(lp[3])
        if "tx_output_proposals" not in src:
            continue
        n += 1
        for ev_name in ("estimate_output_cost", "set_min_ada", "set_size"):
            rep.inst("RECALC-all")

            def ev(x, ev_name=ev_name):
                return (x[0] == "mcall" and x[2] == ev_name) or (x[0] == "call" and str(x[2] or "").endswith("::" + ev_name))
            if not hir_must(lp[4], ev):
                rep.violation("RECALC-all", "recalculate_outputs|%s" % ev_name, "AssetCategorizer::recalculate_outputs can finish an iteration over the output proposals without %s: an output whose token quantity grew (a later UTxO holding the same token) keeps the size and minimum ADA computed for the old quantity" % ev_name, {})
    if n == 0:
        rep.lost("recalculate_outputs: no loop over tx_output_proposals")


def json_filter_rule(rep, F):
    """a hand-written JSON writer writes what is stored"""
    rep.rule("JSON-filter", "no hand-written serde::Serialize impl passes what it writes through a filtering or de-duplicating step (Iterator::filter / filter_map / take / skip ..., Option::filter, Vec::dedup / retain, the deduplicated_view / deduplicated_clone helpers): the JSON form carries the value as it is - the sub-scripts of a ScriptAll / ScriptNOfK may repeat, repeats are part of the script and of its hash, and from_json(to_json(v)) must be equal to v")
    DROP = re.compile(r"(Iterator::(filter|filter_map|flat_map|flatten|take|skip|take_while|skip_while|find|step_by|map_while)$|Option::<T>::(filter|take_if|xor)$|Vec::<T, A>::(dedup|dedup_by|dedup_by_key|retain|retain_mut|truncate)$|::deduplicated_view$|::deduplicated_clone$)")
    n = 0
    for fid, fn in F.fns.items():
        if "/tests/" in fn["file"] or F.is_derived(fid):
            continue
        base = fid.split("::{closure")[0]
        it = (F.fns.get(base) or {}).get("impl_trait") or ""
        if not (it.startswith("serde::Serialize") or it.startswith("serde::ser::Serialize")):
            continue
        n += 1
        rep.inst("JSON-filter")
        for c in F.calls(fid):
            if DROP.search(c.to or ""):
                rep.violation("JSON-filter", "%s|%s" % (F.key(base), (c.to or "").rsplit("::", 1)[-1]), "%s passes what it writes through `%s`: content the value holds is missing from its JSON form, so from_json(to_json(v)) is a different value with different CBOR bytes (and, for a native script, a different hash)" % (F.key(base), c.to), {"file": fn.get("file"), "line": c.line})
    rep.floor("hand-written JSON writers inspected", 20, n)


def sub_prune_rule(rep, F):
    """SUB-prune: subtraction removes a policy only when nothing of it is left"""
    rep.rule("SUB-prune", "in MultiAsset::sub every removal of a policy entry (BTreeMap<PolicyID, Assets>::remove) is dominated by a test of the size of that policy's remaining asset map (len() == 0 / is_empty()): assets of the policy that the subtrahend does not mention stay. A removal decided by a flag that only tracks the assets the subtrahend names drops the unmentioned siblings - `inputs - return` then looks asset-free, the collateral gate accepts a return that leaves tokens behind, and change computation loses them")
    import mustpass as _mp
    import fieldflow as _ff
    fid = find_fn(rep, F, "MultiAsset::sub")
    if not fid:
        return
    org = _ff.Origins(F, fid)
    rm = [c for c in F.calls(fid) if re.search(r"BTreeMap::<K, V, A>::(remove|remove_entry|retain|clear|pop_first|pop_last)$", c.to or "") and re.match(r"\[[^,]*(ScriptHash|PolicyID)", c.info.get("ga") or "")]
    if not rm:
        rep.lost("MultiAsset::sub no longer removes emptied policies (re-anchor SUB-prune / ZERO-prune)")
        return
    for c in rm:
        rep.inst("SUB-prune")
        ok = False
        for s, edge, d in _mp.dominating_guards(F, fid, c.bb, org):
            if d["kind"] == "call" and re.search(r"BTreeMap::<K, V, A>::(len|is_empty)$", d["callee"]) and "AssetName" in (d.get("ga") or ""):
                ok = True
        if not ok:
            rep.violation("SUB-prune", "MultiAsset::sub|%s" % (c.to or "").rsplit("::", 1)[-1], "MultiAsset::sub removes a whole policy entry on a path that is not decided by the size of that policy's remaining assets: {P: {A: 5, B: 7}} - {P: {A: 5}} loses B as well, so a collateral return naming only A is accepted although the inputs still hold 7 B, and the change of a transaction that spends part of a policy drops the rest of it", {"line": c.line})


def signer_amount_rule(rep, F):
    """SIGNER-amount: who must sign does not depend on how much is moved"""
    rep.rule("SIGNER-amount", "the signer collectors of the builders (get_required_signers of every sub-builder, TransactionBuilder::count_needed_vkeys, and their closures) never branch on a predicate computed from an amount (a call on BigNum / Value / Int - is_zero, compare, <, == - or an integer comparison of an amount field): a withdrawal, certificate or vote needs its key witness whatever the coin is (a 0-lovelace withdrawal, the usual way to run a staking script, still requires the signature of a key-locked reward account), so an amount test here makes the estimated fee one key witness short")
    import mustpass as _mp
    import fieldflow as _ff
    AM = re.compile(r"(numeric::big_num::BigNum|utils::Value|numeric::int::Int|MultiAsset)\b")
    n = 0
    for fid, fn in F.fns.items():
        base = fid.split("::{closure")[0]
        if "src/builders" not in fn["file"] or base.rsplit("::", 1)[-1] not in ("get_required_signers", "count_needed_vkeys"):
            continue
        org = _ff.Origins(F, fid)
        for bi, bb in enumerate(fn["bbs"]):
            if bb["c"] or bb["t"][1] != "switch":
                continue
            n += 1
            rep.inst("SIGNER-amount")
            d = _mp.describe_cond(F, fid, bi, org)
            bad = None
            if d["kind"] == "call" and (AM.search(d["callee"]) or AM.search(d.get("ga") or "")) and not d["callee"].endswith("Try>::branch"):
                bad = d["callee"]
            elif d["kind"] == "bin" and any(x.startswith("field:") and AM.search(x) for x in d["lhs"] + d["rhs"]):
                bad = "comparison %s on an amount field" % d["op"]
            if bad:
                rep.violation("SIGNER-amount", "%s|%s" % (F.key(base), H_short(bad)), "%s decides whether a signer is required with %s: the required key witnesses of an entry do not depend on its amount - with a 0-lovelace withdrawal from a key-locked reward account the body still needs that key's signature, the fake witness set has one vkey witness too few and min_fee / validate_fee come out 44 lovelace x ~100 bytes short" % (F.key(base), bad), {"line": facts.loc_line(bb["t"][0])})
    rep.floor("branch points in signer collectors", 12, n)


def adv_own_rule(rep, F):
    """ADV-own: a CBOR head is skipped by its own size"""
    rep.rule("ADV-own", "in read_bounded_bytes (the reader behind BigInt and PlutusData byte strings) every raw.advance(1 + sz) skips the head whose length was read by the nearest dominating cbor_len() call - the size operand originates from that call, not from the head of an enclosing item: the chunks of an indefinite byte string have heads of their own (0x58 nn for 24..255 bytes, exactly what write_bounded_bytes emits for 64-byte chunks), so skipping them by the outer marker's size (0) mis-aligns the reader - a BigInt of 2^512 or more no longer survives its own encoding, or decodes to a different number")
    import mustpass as _mp
    import fieldflow as _ff
    fid = find_fn(rep, F, "utils::read_bounded_bytes")
    if not fid:
        return
    fn = F.fns[fid]
    org = _ff.Origins(F, fid)
    lens = [c for c in F.calls(fid) if (c.to or "").endswith("Deserializer::<R>::cbor_len")]
    advs = [c for c in F.calls(fid) if (c.to or "").endswith("Deserializer::<R>::advance")]
    if len(lens) < 2 or len(advs) < 2:
        rep.lost("read_bounded_bytes: cbor_len / advance calls not recognised (%d / %d)" % (len(lens), len(advs)))
        return
    for a in advs:
        rep.inst("ADV-own")
        dom = [l for l in lens if _mp.dominated_by(fn, a.bb, l.bb)]
        if not dom:
            rep.lost("read_bounded_bytes: an advance is not dominated by any cbor_len")
            continue
        nearest = [l for l in dom if all(_mp.dominated_by(fn, l.bb, o.bb) for o in dom)]
        o = org.of_operand(fn["bbs"][a.bb]["t"][3][1])
        srcs = {int(x.rsplit("@", 1)[1]) for x in o if x.startswith("call:") and x.split("@")[0].endswith("cbor_len")}
        if not nearest or nearest[0].bb not in srcs:
            rep.violation("ADV-own", "read_bounded_bytes|advance@%d" % advs.index(a), "read_bounded_bytes skips a head with a size that does not come from the cbor_len() call that read that head (it comes from %s): inside an indefinite byte string every chunk of 24 bytes or more has a two-byte head, the reader consumes it as if it had one byte - BigInt::from_bytes(to_bytes(2^512 + x)) fails, and with a trailing 0xff byte decodes to a different number" % ("an enclosing item's head" if srcs else "no cbor_len call"), {"line": a.line})


def reader_order_rule(rep, F):
    """RW-container: a CBOR reader fills an insertion-ordered field directly"""
    rep.rule("RW-container", "in every CBOR reader (serialization::traits::Deserialize impl and its closures) that builds its type by a struct literal, a field of an insertion-ordered type (Vec<..>, LinkedHashMap<..>) is not computed through a sorted or hashed std container (BTreeMap / BTreeSet / HashMap / HashSet in the value's origins): the writer emits the entries in the field's order, so a reader that re-orders them returns a value that is not equal to the one that was written (LinkedHashMap equality is order-sensitive), with different keys() order, different re-encoded bytes and a different auxiliary-data hash")
    import fieldflow as _ff
    n = 0
    for fid, fn in F.fns.items():
        base = fid.split("::{closure")[0]
        bf = F.fns.get(base) or {}
        if (bf.get("impl_trait") or "") != "serialization::traits::Deserialize" or fn.get("derive") or "/tests/" in fn["file"]:
            continue
        adt = bf.get("self_adt")
        if not adt or adt not in F.adts or F.adts[adt]["kind"] != "struct":
            continue
        fields = F.adts[adt]["variants"][0]["fields"]
        ordered = [(i, f) for i, f in enumerate(fields) if re.search(r"(LinkedHashMap|std::vec::Vec)<", f["ty"])]
        if not ordered:
            continue
        org = None
        for bi, bb in enumerate(fn["bbs"]):
            if bb["c"]:
                continue
            for st in bb["st"]:
                if st[1] == "=" and st[3][0] == "agg" and st[3][1] == "adt" and st[3][2] == adt:
                    org = org or _ff.Origins(F, fid)
                    for i, f in ordered:
                        if i >= len(st[3][4]):
                            continue
                        n += 1
                        rep.inst("RW-container")
                        o = org.of_operand(st[3][4][i])
                        bad = sorted({x.split("@")[0][5:] for x in o if x.startswith("call:") and re.search(r"collections::(BTreeMap|BTreeSet|HashMap|HashSet)|collections::btree_map|collections::hash_map", x)})
                        if bad:
                            rep.violation("RW-container", "%s|%s" % (F.key(base), f["name"]), "the CBOR reader of %s computes the insertion-ordered field `%s` (%s) through %s: entries come back sorted / in hash order instead of in wire order - a value whose entries were inserted in another order does not decode to an equal value and re-encodes to different bytes" % (H_short(adt), f["name"], f["ty"][:60], ", ".join(H_short(b) for b in bad[:3])), {"file": fn.get("file")})
    rep.floor("ordered fields built by CBOR readers", 20, n)


def dup_key_rule(rep, F):
    """DUP-key: record-map readers refuse a repeated key"""
    rep.rule("DUP-key", "in every record-map reader that dispatches on integer keys and guards at least one of them against repetition, every integer key arm contains the DuplicateKey(k) rejection for its own key: a repeated key would overwrite the decoded field and - where the original bytes of the field are kept (witness-set parts) - the bytes that are written back, so a field of the input disappears on re-serialisation")
    n = 0
    for fid, h in F.hir.items():
        fn = F.fns.get(fid)
        if fn is None or "/tests/" in h["file"] or not h["file"].startswith("src/serialization/") or fn.get("derive"):
            continue
        for m in H.walk(h["body"]):
            if m[0] != "match":
                continue
            arms = []
            for pat, g, body in m[3]:
                for alt in H.pat_alternatives(pat):
                    if alt and alt[0] == "plit" and alt[1][0] == "int":
                        arms.append((int(alt[1][1]), body))
            if len(arms) < 3:
                continue

            def dup_keys(body):
                out = set()
                for x in H.walk(body):
                    if x[0] == "call" and str(x[2] or "").endswith("DuplicateKey") and x[4]:
                        for y in H.walk(x[4][0]):
                            v = H.lit_int(y) if y[0] == "lit" else None
                            if v is not None:
                                out.add(v)
                return out
            guarded = {k: dup_keys(b) for k, b in arms}
            if not any(guarded.values()):
                continue
            for k, b in arms:
                n += 1
                rep.inst("DUP-key")
                if not guarded[k]:  # the key named in the error is not judged (AuxiliaryData's key-4 arm reports DuplicateKey(3): a wrong message, the repetition is refused all the same)
                    rep.violation("DUP-key", "%s|key %d" % (F.key(fid), k), "%s: the arm of map key %d has no DuplicateKey(%d) rejection (it guards %s) while the sibling arms refuse a repeated key: `a2 0%d .. 0%d ..` is accepted and the second entry silently replaces the first - FixedTransaction re-serialises only the last one" % (F.key(fid), k, k, sorted(guarded[k]) or "nothing", k, k), {"file": h["file"], "line": m[1]})
    rep.floor("integer key arms of guarded record-map readers", 60, n)


def value_iter_rule(rep, F):
    """VALUE-iter: value arithmetic looks at every entry"""
    rep.rule("VALUE-iter", "the arithmetic and comparison methods of Value / MultiAsset / Assets / Mint / MintAssets (and their closures) walk their maps with no element-dropping or truncating adaptor (Iterator::filter / filter_map / take / take_while / skip / skip_while / step_by / find / nth / last, Vec::retain / truncate): every (policy, asset, quantity) entry of both operands takes part - `take_while(|q| !q.is_zero())` in checked_add cuts off an asset and all later assets of its policy, the builder's totals lose them on both sides and the built transaction creates or destroys tokens")
    DROP = re.compile(r"(Iterator::(filter|filter_map|take|skip|take_while|skip_while|find|find_map|step_by|map_while|nth|last|position)$|Vec::<T, A>::(retain|retain_mut|truncate|dedup)$|BTreeMap::<K, V, A>::(retain|split_off|pop_first|pop_last)$)")
    OWN = ("utils::Value", "MultiAsset", "Assets", "Mint", "MintAssets", "MintsAssets")
    OK = {("Mint::get", "filter"): "a lookup: selects the entries of the requested policy id (Mint keeps repeated policies as separate entries) - not arithmetic"}
    n = 0
    for fid, fn in F.fns.items():
        if "/tests/" in fn["file"] or F.is_derived(fid):
            continue
        base = fid.split("::{closure")[0]
        bf = F.fns.get(base) or {}
        adt = (bf.get("self_adt") or "")
        if not any(adt == o or adt.endswith("::" + o) for o in OWN):
            continue
        n += 1
        rep.inst("VALUE-iter")
        for c in F.calls(fid):
            if DROP.search(c.to or ""):
                k = (F.key(base), (c.to or "").rsplit("::", 1)[-1])
                if k in OK:
                    rep.allow("VALUE-iter")
                    continue
                rep.violation("VALUE-iter", "%s|%s" % k, "%s passes the entries of a value through `%s`: entries are left out of the result, so sums / differences / comparisons computed by the builder no longer cover every asset" % (F.key(base), c.to), {"file": fn.get("file"), "line": c.line})
    rep.floor("value arithmetic functions inspected", 40, n)


def minada_whole_rule(rep, F):
    """MINADA-whole: min_ada_for_output prices the whole output it was given"""
    rep.rule("MINADA-whole", "utils::min_ada_for_output (the minimum every admission gate compares with: add_output, both collateral-return setters, the change packer) computes on the output it was given - MinOutputAdaCalculator::new receives the parameter itself - or, if it assembles a calculator from parts (new_empty + setters), it calls every setter: set_address, set_amount, set_plutus_data AND set_data_hash (an output carries its datum either inline or as a hash), set_script_ref. A part that is not carried over (a datum hash is 34 bytes) makes the minimum too low by coins_per_byte x size, and an under-funded output / collateral return is admitted")
    import fieldflow as _ff
    fid = find_fn(rep, F, "utils::min_ada_for_output")
    if not fid:
        return
    fn = F.fns[fid]
    org = _ff.Origins(F, fid)
    rep.inst("MINADA-whole")
    calls = F.calls(fid)
    news = [c for c in calls if (c.to or "").endswith("MinOutputAdaCalculator::new")]
    empt = [c for c in calls if (c.to or "").endswith("MinOutputAdaCalculator::new_empty")]
    if news and not empt:
        if not all("arg:1" in org.of_operand(fn["bbs"][c.bb]["t"][3][0]) for c in news):
            rep.violation("MINADA-whole", "min_ada_for_output|other-output", "min_ada_for_output builds its calculator from an output that is not its parameter", {})
        return
    if empt:
        setters = {(c.to or "").rsplit("::", 1)[-1] for c in calls if "MinOutputAdaCalculator::set_" in (c.to or "")}
        need = {"set_address", "set_amount", "set_plutus_data", "set_data_hash", "set_script_ref"}
        miss = sorted(need - setters)
        if miss:
            rep.violation("MINADA-whole", "min_ada_for_output|%s" % ",".join(miss), "min_ada_for_output assembles the priced output from parts and never calls %s: an output (or collateral return) carrying that part is priced without it - e.g. a datum hash: 34 bytes, 146 540 lovelace at 4 310 per byte - and admitted below its real minimum ADA" % ", ".join(miss), {})
        return
    rep.lost("min_ada_for_output no longer goes through MinOutputAdaCalculator (re-anchor MINADA-whole)")
