"""Report / evidence / known-findings plumbing shared by all rule modules."""
import json
import os
import sys
import time
from pathlib import Path

VERIF = Path(__file__).resolve().parent.parent
KNOWN = VERIF / "known_findings.json"


def load_known():
    if not KNOWN.exists():
        return []
    return json.loads(KNOWN.read_text()).get("findings", [])


def load_table(name):
    p = VERIF / "tables" / name
    return json.loads(p.read_text())


class AnchorLost(Exception):
    pass


class Report:
    def __init__(self, pid, tier):
        self.pid = pid
        self.tier = tier
        self.t0 = time.time()
        self.seed = int(os.environ.get("VERIF_SEED", "0") or 0)
        self.known = {k["key"]: k for k in load_known() if k["property"] == pid and k.get("status") == "known"}
        self.fixed = {k["key"]: k for k in load_known() if k["property"] == pid and k.get("status") == "fixed"}
        self.violations = []  # (key, what, detail)
        self.known_hits = []
        self.rules = {}  # rule -> dict(instances, nontrivial, allowlisted, violations)
        self.samples = []
        self.floors = []
        self.notes = []
        self.extra = {}
        self.anchor_lost = []
        self.broken = []

    # ---- counting --------------------------------------------------------------------------
    def rule(self, name, desc=None):
        r = self.rules.setdefault(name, {"instances": 0, "nontrivial": 0, "allowlisted": 0, "auto_discharged": 0, "violations": 0, "known": 0})
        if desc:
            r["rule"] = desc
        return r

    def inst(self, rule, n=1, nontrivial=True):
        r = self.rule(rule)
        r["instances"] += n
        if nontrivial:
            r["nontrivial"] += n

    def allow(self, rule, n=1):
        self.rule(rule)["allowlisted"] += n

    def auto(self, rule, n=1):
        self.rule(rule)["auto_discharged"] += n

    def sample(self, obj, cap=12):
        if len(self.samples) < cap:
            self.samples.append(obj)

    def floor(self, name, minimum, measured):
        self.floors.append({"what": name, "floor": minimum, "measured": measured})
        if measured < minimum:
            self.anchor_lost.append("%s: measured %s < floor %s" % (name, measured, minimum))

    def lost(self, what):
        self.anchor_lost.append(what)

    def control_missing(self, what):
        self.broken.append(what)

    # ---- verdicts --------------------------------------------------------------------------
    def violation(self, rule, key, what, detail=None):
        """key: semantic key without line numbers. Suppressed only by an exact known-findings key."""
        full = "%s|%s" % (rule, key)
        r = self.rule(rule)
        if full in self.known:
            if full not in [k for k, _ in self.known_hits]:
                self.known_hits.append((full, what))
            r["known"] += 1
            return False
        r["violations"] += 1
        self.violations.append((full, what, detail or {}))
        return True

    # ---- output ----------------------------------------------------------------------------
    def finish(self, explanation, assumptions=(), trusted_base=(), level="other"):
        base = Path(os.environ["VERIF_OUT_DIR"]) if os.environ.get("VERIF_OUT_DIR") else VERIF
        out_dir = base / "out" / "violations"
        out_dir.mkdir(parents=True, exist_ok=True)
        ev_dir = base / "evidence"
        ev_dir.mkdir(exist_ok=True)
        for k, what in self.known_hits:
            print("KNOWN-FINDING: property=%s %s %s" % (self.pid, k, what))
        # fixed entries suppress nothing; nothing to print for them
        seen = set()
        n = 0
        for full, what, detail in self.violations:
            if full in seen:
                continue
            seen.add(full)
            n += 1
            path = out_dir / ("%s-%d.json" % (self.pid, n))
            path.write_text(json.dumps({"property": self.pid, "key": full, "what": what, "detail": detail}, indent=1))
            print("VIOLATION property=%s replay=%s" % (self.pid, path))
            print("  %s :: %s" % (full, what))
        # remove stale replay files of this property beyond n
        for p in out_dir.glob("%s-*.json" % self.pid):
            try:
                idx = int(p.stem.split("-")[1])
            except ValueError:
                continue
            if idx > n:
                p.unlink()
        evaluations = sum(r["instances"] for r in self.rules.values())
        nontrivial = sum(r["nontrivial"] for r in self.rules.values())
        cov = {
            "explanation": explanation,
            "evaluations": evaluations,
            "distinct_nontrivial": nontrivial,
            "rule": "one evaluation = one rule instance (a construct of /repo's current source matched by a rule and decided); "
            "non-trivial = the instance carried at least one fact the rule had to decide (not vacuous)",
            "rules": self.rules,
            "floors": self.floors,
            "samples": self.samples or ["(no instance)"],
            "known_findings_present": [k for k, _ in self.known_hits],
            "trusted_base": list(trusted_base),
            "checker_cmd": "./check %s --tier %s" % (self.pid, self.tier),
            "notes": self.notes,
        }
        cov.update(self.extra)
        ev = {
            "property_id": self.pid,
            "tier": self.tier,
            "seed": self.seed,
            "level": level,
            "coverage": cov,
            "assumptions": list(assumptions),
            "wall_s": round(time.time() - self.t0, 2),
            "violations": n,
        }
        (ev_dir / ("%s.json" % self.pid)).write_text(json.dumps(ev, indent=1))
        if self.broken:
            for b in self.broken:
                print("CHECKER-BROKEN property=%s %s" % (self.pid, b))
            return 2
        if n:
            return 1
        if self.anchor_lost:
            for a in self.anchor_lost:
                print("ANCHOR-LOST property=%s %s" % (self.pid, a))
            return 3
        print("OK property=%s tier=%s rule_instances=%d nontrivial=%d known_findings=%d wall=%.1fs" % (self.pid, self.tier, evaluations, nontrivial, len(self.known_hits), time.time() - self.t0))
        return 0
