"""Fact acquisition (runs the csl-facts driver on /repo's current tree) and indices.

No verdict logic lives here.  Every check calls `load(tier)` which
  1. hashes everything the analysed build depends on (rust/src/**, Cargo.toml, Cargo.lock, the driver),
  2. re-runs the driver under `cargo +nightly check --offline --lib` unless a fact file carrying that very
     hash as nonce already exists (content-addressed, so an edited tree is always re-analysed),
  3. parses the JSON lines and builds the indices the rule modules use.
A missing / stale / truncated fact file is a hard error (exit 3), never a pass.
"""
import fcntl
import hashlib
import json
import os
import re
import shutil
import subprocess
import sys
import time
from collections import defaultdict
from pathlib import Path

VERIF = Path(__file__).resolve().parent.parent
REPO = Path(os.environ.get("CSL_REPO", "/repo"))
CRATE_DIR = REPO / "rust"
CACHE = VERIF / ".cache"
DRIVER = VERIF / "engine" / "csl-facts" / "target" / "release" / "csl-facts"
CRATE = "cardano_serialization_lib"


class CheckerBroken(Exception):
    """The checker cannot decide (exit 3 / ANCHOR-LOST / driver failure)."""


def sysroot():
    return subprocess.check_output(["rustc", "+nightly", "--print", "sysroot"], text=True).strip()


def tree_hash(crate_dir=CRATE_DIR):
    h = hashlib.sha256()
    files = []
    for root, dirs, fs in os.walk(crate_dir / "src"):
        dirs.sort()
        for f in sorted(fs):
            files.append(Path(root) / f)
    for extra in ("Cargo.toml", "Cargo.lock", "build.rs"):
        p = crate_dir / extra
        if p.exists():
            files.append(p)
    for p in files:
        h.update(str(p.relative_to(crate_dir)).encode())
        h.update(b"\0")
        h.update(p.read_bytes())
        h.update(b"\0")
    if DRIVER.exists():
        h.update(DRIVER.read_bytes())
    return h.hexdigest()[:24], len(files)


def run_driver(crate_dir, out_dir, nonce, target_dir, crates=CRATE, extra_env=None, lib_only=True):
    out_dir.mkdir(parents=True, exist_ok=True)
    target_dir.mkdir(parents=True, exist_ok=True)
    # cargo's freshness cache would silently skip the wrapper: drop the package fingerprints
    fp = target_dir / "debug" / ".fingerprint"
    if fp.exists():
        for d in fp.iterdir():
            nm = d.name
            if any(nm.startswith(c.replace("_", "-") + "-") for c in crates.split(",")):
                shutil.rmtree(d, ignore_errors=True)
    env = dict(os.environ)
    env.update(
        LD_LIBRARY_PATH=sysroot() + "/lib",
        RUSTFLAGS="-Zmir-opt-level=0 -Awarnings",
        CARGO_NET_OFFLINE="true",
        RUSTC_WORKSPACE_WRAPPER=str(DRIVER),
        CARGO_TARGET_DIR=str(target_dir),
        CSL_FACTS_DIR=str(out_dir),
        CSL_FACTS_CRATES=crates,
        CSL_FACTS_NONCE=nonce,
    )
    env.pop("RUSTC_WRAPPER", None)
    if extra_env:
        env.update(extra_env)
    cmd = ["cargo", "+nightly", "check", "--offline"] + (["--lib"] if lib_only else [])
    t = time.time()
    p = subprocess.run(cmd, cwd=crate_dir, env=env, stdout=subprocess.PIPE, stderr=subprocess.STDOUT, text=True)
    if p.returncode != 0:
        sys.stderr.write(p.stdout[-6000:])
        raise CheckerBroken("analysed build failed (cargo +nightly check exit %d)" % p.returncode)
    return time.time() - t


def ensure_facts(tier="quick"):
    """Returns (path, info). Serialised with flock; content addressed by tree hash."""
    if not DRIVER.exists():
        raise CheckerBroken("driver not built: run MANIFEST.setup_cmd (cargo build --release in engine/csl-facts)")
    CACHE.mkdir(exist_ok=True)
    facts_dir = CACHE / "facts"
    facts_dir.mkdir(exist_ok=True)
    lock = open(CACHE / "driver.lock", "w")
    fcntl.flock(lock, fcntl.LOCK_EX)
    try:
        th, nfiles = tree_hash()
        dest = facts_dir / ("%s.jsonl" % th)
        info = {"tree_hash": th, "source_files_hashed": nfiles, "reused": False, "driver_s": 0.0}
        cold = tier == "thorough" and os.environ.get("CSL_THOROUGH_COLD", "1") == "1"
        if dest.exists() and not cold and _meta_ok(dest, th):
            info["reused"] = True
            return dest, info
        tmp = facts_dir / ("tmp-%d" % os.getpid())
        if tmp.exists():
            shutil.rmtree(tmp)
        target = CACHE / ("target-cold-%d" % os.getpid() if cold else "target-quick")
        try:
            info["driver_s"] = round(run_driver(CRATE_DIR, tmp, th, target), 2)
            info["cold_build"] = cold
            produced = tmp / (CRATE + ".jsonl")
            if not produced.exists() or not _meta_ok(produced, th):
                raise CheckerBroken("driver produced no fresh fact file (nonce mismatch)")
            os.replace(produced, dest)
        finally:
            shutil.rmtree(tmp, ignore_errors=True)
            if cold:
                shutil.rmtree(target, ignore_errors=True)
        # prune old fact files
        olds = sorted(facts_dir.glob("*.jsonl"), key=lambda p: p.stat().st_mtime)
        for p in olds[:-4]:
            p.unlink()
        return dest, info
    finally:
        fcntl.flock(lock, fcntl.LOCK_UN)
        lock.close()


def _meta_ok(path, nonce):
    try:
        with open(path, "rb") as f:
            f.seek(0, 2)
            size = f.tell()
            f.seek(max(0, size - 400))
            tail = f.read().decode("utf8", "replace").strip().splitlines()[-1]
        m = json.loads(tail)
        return m.get("t") == "meta" and m.get("nonce") == nonce
    except Exception:
        return False


# ----------------------------------------------------------------------------------------------


class Call:
    __slots__ = ("fn", "bb", "info", "args", "dest", "target", "unwind", "loc", "to", "tail")

    def __init__(self, fn, bb, term, tail=False):
        self.fn = fn
        self.bb = bb
        self.loc = term[0]
        self.info = term[2]
        self.args = term[3]
        self.tail = tail
        if tail:
            self.dest, self.target, self.unwind = "_0", None, None
        else:
            self.dest, self.target, self.unwind = term[4], term[5], term[6]
        self.to = self.info.get("to")

    @property
    def line(self):
        return loc_line(self.loc)

    @property
    def macros(self):
        return loc_macros(self.loc)


def loc_line(loc):
    return loc if isinstance(loc, int) else loc.get("l", 0)


def loc_macros(loc):
    return [] if isinstance(loc, int) else (loc.get("m") or [])


def loc_file(loc, fn):
    if isinstance(loc, int):
        return fn["file"]
    return loc.get("f") or fn["file"]


def loc_str(loc, fn):
    s = "%s:%d" % (loc_file(loc, fn), loc_line(loc))
    if not isinstance(loc, int) and loc.get("rf"):
        s += " (in macro %s at %s:%d)" % ("!".join(loc_macros(loc)[:1]), loc["rf"], loc.get("rl", 0))
    return s


_serde_re = re.compile(r"(?:[A-Za-z_0-9]+::)*_::_(serde|num_traits)::")


def norm_path(p):
    """derive-internal paths (`_::_serde::Deserialize`) -> `serde::Deserialize`"""
    if p and "_::_" in p:
        return _serde_re.sub(lambda m: m.group(1) + "::", p)
    return p



class Facts:
    def __init__(self, path, info=None):
        self.path = str(path)
        self.info = info or {}
        self.fns = {}
        self.hir = {}
        self.adts = {}
        self.impls = []
        self.consts = {}
        self.traits = {}
        self.promoted = {}
        self.meta = None
        t = time.time()
        with open(path) as f:
            for line in f:
                r = json.loads(line)
                t_ = r["t"]
                if t_ == "fn":
                    r["impl_trait"] = norm_path(r["impl_trait"])
                    self.fns[r["id"]] = r
                elif t_ == "hir":
                    self.hir[r["id"]] = r
                elif t_ == "adt":
                    self.adts[r["id"]] = r
                elif t_ == "impl":
                    r["trait"] = norm_path(r["trait"])
                    self.impls.append(r)
                elif t_ == "const":
                    self.consts[r["id"]] = r
                elif t_ == "trait":
                    self.traits[r["id"]] = r
                elif t_ == "promoted":
                    self.promoted[r["id"]] = r
                elif t_ == "meta":
                    self.meta = r
        if self.meta is None:
            raise CheckerBroken("fact file has no meta record (truncated)")
        if self.meta["bodies"] != len(self.fns):
            raise CheckerBroken("fact file body count mismatch")
        self.load_s = time.time() - t
        self._calls = {}
        self._keys = {}
        self._bykey = None
        # impl method inventory: trait path -> method name -> [fn ids]
        self.trait_impl_methods = defaultdict(lambda: defaultdict(list))
        for im in self.impls:
            if im["trait"]:
                for m in im["methods"]:
                    self.trait_impl_methods[im["trait"]][m["name"]].append(m["id"])
        # local adt -> trait -> [method fn ids]
        self.adt_trait_methods = defaultdict(lambda: defaultdict(list))
        for im in self.impls:
            if im["trait"] and im["self_adt"]:
                for m in im["methods"]:
                    self.adt_trait_methods[im["self_adt"]][im["trait"]].append(m["id"])
        self.closures_of = defaultdict(list)
        for fid, fn in self.fns.items():
            if fn["kind"] == "Closure" and fn["parent_fn"]:
                self.closures_of[fn["parent_fn"]].append(fid)

    # -- stable, module-independent key for a function ------------------------------------
    def key(self, fid):
        k = self._keys.get(fid)
        if k is not None:
            return k
        fn = self.fns.get(fid)
        if fn is None:
            k = fid
        elif fn["kind"] == "Closure":
            # closure index relative to the parent keeps the key stable under line moves
            m = re.search(r"((?:::\{closure#\d+\})+)$", fid)
            suffix = m.group(1) if m else "::{closure}"
            base = fid[: -len(suffix)] if m else fid
            k = self.key(base) + suffix if base in self.fns else fid
        elif fn["impl_trait"]:
            tr = fn.get("impl_trait_full") or fn["impl_trait"]
            tr = norm_path(tr)
            if "<" in tr:
                head, rest = tr.split("<", 1)
                tr = head + "<" + short_ty(rest)
            k = "<%s as %s>::%s" % (short_ty(fn["self_ty"]), tr, fn["name"])
        elif fn["self_ty"]:
            k = "%s::%s" % (short_ty(fn["self_ty"]), fn["name"])
        else:
            k = fid
        self._keys[fid] = k
        return k

    def by_key(self, key):
        if self._bykey is None:
            self._bykey = defaultdict(list)
            for fid in self.fns:
                self._bykey[self.key(fid)].append(fid)
        return self._bykey.get(key, [])

    def calls(self, fid):
        c = self._calls.get(fid)
        if c is None:
            c = []
            fn = self.fns[fid]
            for bi, bb in enumerate(fn["bbs"]):
                t = bb["t"]
                if t[1] == "call":
                    c.append(Call(fid, bi, t))
                elif t[1] == "tailcall":
                    c.append(Call(fid, bi, t, tail=True))
            self._calls[fid] = c
        return c

    def succ(self, fn, bi, with_unwind=False):
        t = fn["bbs"][bi]["t"]
        k = t[1]
        if k == "goto":
            return [t[2]]
        if k == "switch":
            return [x[1] for x in t[3]] + [t[4]]
        if k == "drop":
            return [t[3]] + ([t[4]] if with_unwind and t[4] is not None else [])
        if k == "call":
            r = [t[5]] if t[5] is not None else []
            if with_unwind and t[6] is not None:
                r.append(t[6])
            return r
        if k == "assert":
            r = [t[6]]
            if with_unwind and t[7] is not None:
                r.append(t[7])
            return r
        if k == "other":
            return list(t[3])
        return []

    def is_derived(self, fid):
        fn = self.fns[fid]
        if fn["derive"]:
            return True
        if fn["kind"] == "Closure" and fn["parent_fn"] in self.fns:
            return self.is_derived(fn["parent_fn"])
        return False

    def outer_macro(self, fid):
        fn = self.fns[fid]
        return fn["macros"][-1] if fn["macros"] else None


def short_path(p):
    return p


_mod_re = re.compile(r"\b(?:[a-z_][a-z0-9_]*::)+(?=[A-Z<{(&\[])")


def short_ty(t):
    """Drop module prefixes of type paths: protocol_types::address::Address -> Address (keys survive file moves)."""
    return _mod_re.sub("", t)


_FACTS = None


def load(tier="quick"):
    global _FACTS
    if _FACTS is None:
        path, info = ensure_facts(tier)
        _FACTS = Facts(path, info)
    return _FACTS


def parse_place(p):
    """'_1|*|f:Adt:Var:field' -> (local:int, [proj...]) where proj = ('*',) | ('f',adt,var,field) | ('t',i) | ..."""
    parts = p.split("|")
    local = int(parts[0][1:])
    proj = []
    for x in parts[1:]:
        if x == "*":
            proj.append(("*",))
        elif x.startswith("f:"):
            body = x[2:]
            # adt path may contain ':' only as '::'; split from the right
            adt_var, field = body.rsplit(":", 1)
            adt, var = adt_var.rsplit(":", 1)
            proj.append(("f", adt, var, field))
        elif x[:2] in ("t:", "u:", "d:", "i:", "c:"):
            proj.append((x[0], x[2:]))
        else:
            proj.append((x,))
    return local, proj


def const_int(op):
    """operand ['k', disp, fn, ty] -> int or None"""
    if not op or op[0] != "k":
        return None
    m = re.match(r"^(?:const )?(-?\d+)(?:_[iu](?:8|16|32|64|128|size))?$", op[1])
    if m:
        return int(m.group(1))
    if op[1] in ("true", "const true"):
        return 1
    if op[1] in ("false", "const false"):
        return 0
    return None
