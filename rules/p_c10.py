"""C10 — redeemer pointers identify the item they were attached to (E6 index-source / order-class rules)."""
import re

import common
import facts
import fieldflow as ff
import hirq as H
import wildarms
from ruleutil import find_fn

EXPLANATION = (
    "A redeemer pointer is (tag, index). For each purpose the rule set decides from the code, for all insertion orders: (IDX) the "
    "index handed to clone_with_(redeemer_)index_and_tag is the counter of an enumerate() applied directly to the iteration of the "
    "builder's container field - no filter / skip / rev / take / flat_map / ... adaptor between the container and enumerate, so the "
    "index is the item's position among ALL items, script-locked or not (def-use slice on MIR); for the spend purpose the index map "
    "is folded over inputs.values().enumerate() and the stored value is the enumerate counter; the counter variant (get_redeemers) "
    "increments on every arm; (TAG) the tag constant matches the purpose; (ORDER) the container's order class is the ledger's: "
    "sorted map for spend / mint / reward (pointer independent of call order), insertion sequence for certificates; (KEY) the "
    "sorted maps' key types derive Ord over fields in ledger order; (ARM) the pointer is assigned only inside the Plutus arm and the "
    "match over ScriptMint still names the Plutus variant. Uniqueness of pointers follows from enumerating a map with unique keys "
    "once per purpose. Not decided: equality of CSL's derived credential order with the ledger's for mixed key/script credentials "
    "inside one sorted map (recorded as an observation)."
)


def check(rep, F, tier, replay=None):
    tab = common.load_table("c10.json")
    black = set(tab["adaptor_blacklist"])
    rep.rule("IDX", "pointer index = enumerate() counter over the direct iteration of the audited container field (no reordering / filtering adaptor in between)")
    rep.rule("TAG", "the tag constructor called matches the purpose")
    rep.rule("ORDER", "the container enumerated has the ledger's order class for that purpose")
    for p in tab["purposes"]:
        fid = find_fn(rep, F, p["fn"])
        if not fid:
            continue
        fn = F.fns[fid]
        subs = [fid] + [c for c in F.fns if c.startswith(fid + "::{closure")]
        # TAG
        rep.inst("TAG")
        tags = {c.to for s in subs for c in F.calls(s) if c.to and "RedeemerTag::new_" in c.to}
        if not any(t.endswith(p["tag"]) for t in tags) or len(tags) != 1:
            rep.violation("TAG", p["fn"], "%s builds its redeemer tag with %s, expected exactly %s" % (p["fn"], sorted(t.rsplit("::", 1)[1] for t in tags), p["tag"]), {"function": fid})
        # ORDER
        rep.inst("ORDER")
        a = F.adts.get(p["adt"])
        fty = None
        if a:
            fty = {f["name"]: f["ty"] for f in a["variants"][0]["fields"]}.get(p["field"])
        if fty is None:
            rep.lost("%s.%s not found" % (p["adt"], p["field"]))
        else:
            cls = fty.split("<")[0].rsplit("::", 1)[1]
            if cls != p["class"]:
                what = "insertion order" if cls in ("LinkedHashMap", "Vec") else ("hash order" if cls.startswith("Hash") else cls)
                rep.violation("ORDER", "%s|%s" % (p["purpose"], p["field"]), "%s pointers index %s.%s, a %s (%s); the ledger resolves %s pointers against %s, so the pointer depends on the order of builder calls" % (p["purpose"], H.short(p["adt"]), p["field"], cls, what, p["purpose"], "the key-sorted map" if p["class"] == "BTreeMap" else "the item sequence"), {"type": fty})
        # IDX
        rep.inst("IDX")
        if p["mode"] == "counter":
            hir = F.hir[fid]
            # every arm of the match over ScriptMint increments the index
            ok = True
            n = 0
            for node in H.walk(hir["body"]):
                if node[0] == "match" and "ScriptMint" in (node[5] or ""):
                    n += 1
                    for pat, g, body in node[3]:
                        incs = [x for x in H.walk(body) if x[0] == "assign" and H.path_str(x[2]) == "index" and any(c[2] == "checked_add" for c in H.calls_in(x[3]))]
                        if len(incs) != 1:
                            ok = False
            if n != 1 or not ok:
                rep.violation("IDX", p["fn"], "%s: the running index is not incremented exactly once in every arm (a non-Plutus policy must still advance the position)" % p["fn"], {})
            continue
        found = False
        for s in subs:
            org = ff.Origins(F, s)
            for c in F.calls(s):
                to = c.to or ""
                if to.endswith(("clone_with_redeemer_index_and_tag", "clone_with_index_and_tag")):
                    found = True
                    o = org.of_operand(c.args[1])
                    if p["mode"] == "fold":
                        # index comes from the map built by fold in the parent
                        continue
                    verdict(rep, F, p, o, black, fid)
        if p["mode"] == "fold":
            org = ff.Origins(F, fid)
            folds = [c for c in F.calls(fid) if (c.to or "").endswith("::fold") and "Iterator" in (c.to or "")]
            guard = any((c.to or "").endswith(("Option::<T>::is_some", "Option::<T>::is_none")) and "ScriptHash" in (c.info.get("ga") or "") for s_ in subs for c in F.calls(s_))
            if not guard:
                rep.violation("IDX", p["fn"] + "|script-only", "%s maps inputs to Spend redeemer indices without testing the input's script-hash marker (no is_some / is_none on the Option<ScriptHash> of the registration): an input that was first registered with a Plutus witness and later re-registered as a key / bootstrap input still gets a (Spend, i) redeemer - a redeemer pointing at an item that is not script-locked" % p["fn"], {})
            elif len(folds) == 0:
                rep.lost("%s no longer builds its input index map with a fold (re-anchor IDX for this purpose)" % p["fn"])
            elif len(folds) != 1:
                rep.violation("IDX", p["fn"] + "|fold", "%s: expected one fold building the input index map, found %d" % (p["fn"], len(folds)), {})
            else:
                o = org.of_operand(folds[0].args[0])
                verdict(rep, F, p, o, black, fid)
                # closure stores the enumerate counter
                cl = [x[8:] for x in org.of_operand(folds[0].args[2]) if x.startswith("closure:")]
                good = False
                for c_id in cl:
                    corg = ff.Origins(F, c_id)
                    for c in F.calls(c_id):
                        if (c.to or "").endswith("BTreeMap::<K, V, A>::insert"):
                            vo = corg.of_operand(c.args[2])
                            if "arg:3" in vo:
                                good = True
                if not good:
                    rep.violation("IDX", p["fn"] + "|fold-value", "%s: the value stored in the index map is not the enumerate counter" % p["fn"], {})
            found = True
        if not found:
            rep.violation("IDX", p["fn"] + "|no-pointer", "%s no longer assigns a pointer (clone_with_redeemer_index_and_tag)" % p["fn"], {})
    # KEY order
    rep.rule("KEY", "key type derives Ord and lists its fields in ledger comparison order")
    for k in tab["key_types"]:
        rep.inst("KEY")
        a = F.adts.get(k["adt"])
        if not a:
            rep.lost("%s not found" % k["adt"])
            continue
        fields = [f["name"] for f in a["variants"][0]["fields"]]
        if fields != k["fields"]:
            rep.violation("KEY", k["adt"] + "|fields", "%s declares its fields as %s; its derived Ord then compares in that order, the ledger compares %s" % (H.short(k["adt"]), fields, k["fields"]), {})
        ords = [im for im in F.impls if im["self_adt"] == k["adt"] and im["trait"] == "std::cmp::Ord"]
        if not ords or not ords[0]["derive"]:
            rep.violation("KEY", k["adt"] + "|ord", "%s no longer derives Ord" % H.short(k["adt"]), {})
    wildarms.check(rep, F, "C10")
    # REPLACE: re-registering an outpoint must not leave the old script witness behind (two witnesses would share one input pointer)
    rep.rule("REPLACE", "TxInputsBuilder::push_input, which overwrites an existing registration of the same outpoint, removes that outpoint's old entry from required_witnesses.scripts: otherwise the old script / datum / redeemer are still emitted and two redeemers point at one input")
    fid = find_fn(rep, F, "TxInputsBuilder::push_input")
    if fid:
        rep.inst("REPLACE")
        tos = [c.to or "" for c in F.calls(fid)]
        overwrites = any(t.endswith("BTreeMap::<K, V, A>::insert") for t in tos)
        cleans = any(("LinkedHashMap" in t or "linked_hash_map" in t) and t.rsplit("::", 1)[-1] in ("remove", "retain", "pop_front", "clear") for t in tos)
        if not overwrites:
            rep.lost("TxInputsBuilder::push_input no longer inserts into the input map (re-anchor REPLACE)")
        elif not cleans:
            rep.violation("REPLACE", "TxInputsBuilder::push_input|stale-script-witness", "push_input overwrites the registration of an outpoint that is already in the builder but never removes the outpoint from required_witnesses.scripts: after add_plutus_script_input(A, x) and add_plutus_script_input(B, x) both scripts, both datums and two Spend redeemers with the same index are emitted for one input", {})
    # LAST-wins: a registration replaces the previous one of the same outpoint wholesale
    rep.rule("LAST-wins", "what TxInputsBuilder::push_input stores under an outpoint comes from its argument alone (origins of the stored value: the parameter, never a read of TxInputsBuilder.inputs): the kind of an input - key / bootstrap / native / Plutus script, the marker that decides whether a Spend redeemer points at it - is that of the *last* registration; merging in the script-hash marker of an earlier registration leaves a redeemer pointing at an input that is no longer script-locked")
    fid = find_fn(rep, F, "TxInputsBuilder::push_input")
    if fid:
        import fieldflow as _ff
        fn_ = F.fns[fid]
        org_ = _ff.Origins(F, fid)
        ins_ = [c for c in F.calls(fid) if (c.to or "").endswith("BTreeMap::<K, V, A>::insert") and any(x.endswith("TxInputsBuilder.inputs") for x in org_.of_operand(fn_["bbs"][c.bb]["t"][3][0]))]
        if not ins_:
            rep.lost("TxInputsBuilder::push_input no longer inserts into TxInputsBuilder.inputs (re-anchor LAST-wins)")
        for c in ins_:
            rep.inst("LAST-wins")
            o_ = org_.of_operand(fn_["bbs"][c.bb]["t"][3][2])
            stale = sorted(x for x in o_ if x.endswith("TxInputsBuilder.inputs") or (x.startswith("call:") and re.search(r"BTreeMap::<K, V, A>::(get|get_mut|remove|entry|get_key_value)$", x.split("@")[0])))
            if "arg:2" not in o_:
                rep.lost("TxInputsBuilder::push_input: the stored value no longer comes from the parameter (origins %s)" % sorted(o_)[:6])
            elif stale:
                rep.violation("LAST-wins", "TxInputsBuilder::push_input|merges-previous", "push_input stores a value that also depends on the entry already registered for the outpoint (%s): an input first added as a Plutus / native script input and then again as a key input keeps the script-hash marker, so get_plutus_input_scripts still emits a (Spend, i) redeemer for an input that is key-locked - the set of redeemers depends on the call history, not on the final inputs" % ", ".join(H.short(x.split("@")[0]) for x in stale), {})
    from ruleutil import cert_cred_rule
    cert_cred_rule(rep, F)
    # EMIT-all: the collection a builder emits has one entry per entry of the container its redeemer indices are counted over
    import hirq as H_
    from ruleutil import hir_must as _must
    rep.rule("EMIT-all", "in every builder whose get_plutus_witnesses numbers the entries of a container by position (enumerate), a `build` that walks the same container with a loop adds one entry to the emitted collection on every path of every iteration (no conditional skip): position i of the witnesses is position i of what is emitted")
    n_em = 0
    for fid_, h_ in F.hir.items():
        if "/tests/" in h_["file"] or "src/builders/" not in h_["file"] or fid_.rsplit("::", 1)[-1] not in ("build", "build_unchecked"):
            continue
        owner = fid_.rsplit("::", 1)[0]
        sib = owner + "::get_plutus_witnesses"
        if sib not in F.hir:
            continue
        enum_roots = set()
        for n_ in H_.walk(F.hir[sib]["body"]):
            if n_[0] == "for":
                # the container walked with enumerate(): self.<field>
                for m_ in H_.walk(n_[3]):
                    if m_[0] == "field" and H_.path_str(m_) and H_.path_str(m_).startswith("self."):
                        enum_roots.add(H_.path_str(m_))
        body_ = h_["body"]
        outer_lets = set()
        if body_[0] == "block":
            for st_ in body_[2]:
                if st_[0] == "let":
                    outer_lets |= set(H_.pat_bindings(st_[2]))
        for st_ in (body_[2] if body_[0] == "block" else []):
            e_ = st_[2] if st_[0] != "let" else None
            if not (H_.is_node(e_) and e_[0] == "for"):
                continue
            roots_ = {H_.path_str(m_) for m_ in H_.walk(e_[3]) if m_[0] == "field" and (H_.path_str(m_) or "").startswith("self.")}
            if not (roots_ & enum_roots):
                continue
            n_em += 1
            rep.inst("EMIT-all")

            def ev_(x):
                return x[0] == "mcall" and x[2] in ("insert", "push", "add", "add_move") and H_.path_str(H_.strip(x[4])) in outer_lets
            if not _must(e_[4], ev_):
                rep.violation("EMIT-all", F.key(fid_), "%s walks %s but can finish an iteration without adding an entry to the collection it returns, while %s::get_plutus_witnesses numbers every entry of that container: after a skipped entry every later redeemer index points one position too far (e.g. a policy whose amounts cancel out is dropped from the mint but still counted)" % (F.key(fid_), sorted(roots_ & enum_roots), owner.rsplit("::", 1)[-1]), {})
    rep.floor("builder build loops over an index-numbered container", 3, n_em)
    # EMIT-adapt: the iterator form of the same obligation
    rep.rule("EMIT-adapt", "in every builder whose get_plutus_witnesses numbers the entries of a container by position, `build` / `build_unchecked` (and their closures) apply no element-dropping or re-ordering adaptor (Iterator::filter / filter_map / skip / take / step_by / rev / take_while / skip_while / flat_map, Vec::retain / dedup / sort*) on the way from that container to what they return: a withdrawal of 0 lovelace (the usual way to run a staking validator) filtered out of the body shifts every later (Reward, i) one position")
    DROP_ = re.compile(r"(Iterator::(filter|filter_map|flat_map|flatten|take|skip|take_while|skip_while|step_by|rev|map_while|scan)$|Vec::<T, A>::(retain|retain_mut|dedup|dedup_by|dedup_by_key|truncate|reverse|swap_remove)$|slice::<impl \[T\]>::(sort|sort_by|sort_by_key|sort_unstable|sort_unstable_by|sort_unstable_by_key|reverse)$)")
    n_ad = 0
    for fid_, fn_ in F.fns.items():
        base_ = fid_.split("::{closure")[0]
        if "/tests/" in fn_["file"] or "src/builders/" not in fn_["file"] or base_.rsplit("::", 1)[-1] not in ("build", "build_unchecked"):
            continue
        owner = base_.rsplit("::", 1)[0]
        if owner + "::get_plutus_witnesses" not in F.fns:
            continue
        if fid_ == base_:
            n_ad += 1
        rep.inst("EMIT-adapt")
        for c in F.calls(fid_):
            if DROP_.search(c.to or ""):
                rep.violation("EMIT-adapt", "%s|%s" % (F.key(base_), (c.to or "").rsplit("::", 1)[-1]), "%s passes the entries it emits through `%s`, while %s::get_plutus_witnesses numbers every entry of the container by position: an entry dropped or moved on the way to the body leaves every later redeemer pointing at another item" % (F.key(base_), c.to, owner.rsplit("::", 1)[-1]), {"line": c.line})
    rep.floor("builder build functions inspected for adaptors", 4, n_ad)
    return rep.finish(
        EXPLANATION,
        ["the body field of each purpose is built from the same container (BODY-origin rule of C18)", "enumerate() counts from 0 in iteration order (std)",
         "observation (not a verdict): CredType declares Key before Script while the ledger orders script-hash credentials first; inside one sorted map mixing both kinds (votes; a future sorted withdrawals map) CSL's positions can differ from the ledger's"],
        ["rustc MIR/HIR + ADT definitions (csl-facts)", "tables/c10.json (ledger pointer rules)"],
    )


def verdict(rep, F, p, o, black, fid):
    calls = {x[5:].split("@")[0] for x in o if x.startswith("call:")}
    names = {c.rsplit("::", 1)[1] for c in calls}
    fields = {x.split(".")[-1] for x in o if x.startswith("field:" + p["adt"] + ".")}
    if "enumerate" not in names:
        rep.violation("IDX", p["fn"] + "|no-enumerate", "%s: the pointer index is not an enumerate() counter" % p["fn"], {"origin_calls": sorted(names)})
        return
    if p["field"] not in fields:
        rep.violation("IDX", p["fn"] + "|other-container", "%s: the enumerated iterator does not come from %s.%s (fields seen: %s)" % (p["fn"], H.short(p["adt"]), p["field"], sorted(fields)), {})
        return
    bad = sorted(names & black)
    if bad:
        rep.violation("IDX", p["fn"] + "|adaptor|" + ",".join(bad), "%s: %s is applied between the container and enumerate(): the counter is then the position among the remaining items, not among all items of the body field, so a pointer can designate a different (possibly non-script) item" % (p["fn"], bad), {"origin_calls": sorted(names)})
        return
    rep.sample({"rule": "IDX", "function": p["fn"], "container": p["field"], "iterator_chain": sorted(names)})
