"""C08 — coin selection: the bookkeeping clauses whose truth is in the shape of the code (origins, pairing, gates, index typestate)."""
import re

import common
import facts
import fieldflow as ff
import hirq as H
import mustpass as mp
from e1_panicpath import dominators

EXPLANATION = (
    "Decides, for every outcome of the random draws (the rules quantify over paths, not over schedules), the bookkeeping clauses of "
    "input selection in add_inputs_from / cip2_largest_first_by / cip2_random_improve_by: (OFFERED) every UTxO handed to "
    "TxInputsBuilder::add_regular_utxo is an element of the offered collection (backward origin slice of the argument reaches the "
    "offered parameter through indexing / pop only, never a constructor); (WHO) inside selection the builder's input set is only "
    "mutated through add_regular_utxo - nothing is removed or replaced; (ACCOUNT) every add is followed, in the same iteration, by "
    "input_total += that UTxO's amount and output_total += fee_for_input(that UTxO) - the running totals the coverage tests compare "
    "are faithful to what was added (no exception: the first input added when implicit inputs already cover the outputs is accounted "
    "like every other one); (GATE) walking backwards from the success return of add_inputs_from, a coverage test (the insufficiency check of "
    "largest-first, or the exit edge of the `input_total.coin < output_total.coin` top-up loop) is met before any add and before the "
    "function entry - no success after a last addition without a coverage test; largest-first itself returns Ok only on the covered "
    "edge of its final comparison; (IDX) the index-set typestate of random-improve: a value read from the chosen side "
    "(associated_indices) is never inserted into the available set, every mem::swap(chosen, pool) is followed by removing the value "
    "now in the chosen place and inserting the value now in the pool place, and every index used for an add was taken out of the "
    "available collection in the same iteration or comes from the chosen side; (LF) largest-first sorts a copy of the available "
    "indices by the selector, iterates it in reverse and adds only on the not-yet-covered edge; (FRESH) no coverage comparison uses a value "
    "read from a running total at a point from which that total can still be updated before the comparison (stale-read dataflow over the "
    "CFG); (POST-gate) the success return is dominated by `actual >= required` on fresh get_total_input / get_total_output + min_fee "
    "evaluated after the last addition - the running totals are bookkeeping, the verdict is on the builder's state. NOT decided: distinctness and "
    "coverage as observed values, per-asset coverage of the random multi-asset strategy (it has no final per-asset test), the quality "
    "of the improvement heuristic, overwriting of an equal outpoint already in the builder."
)

FNS = {
    "main": "TransactionBuilder::add_inputs_from",
    "lf": "TransactionBuilder::cip2_largest_first_by",
    "ri": "TransactionBuilder::cip2_random_improve_by",
}
OFFERED_ARG = {"main": "arg:2", "lf": "arg:2", "ri": "arg:2"}


def org_calls(o):
    return {x[5:].split("@")[0] for x in o if x.startswith("call:")}


def sel_keys(o):
    """origins that identify WHICH element was selected (call sites producing the index / element)"""
    keep = ("gen_range", "Iterator>::next", "::pop", "swap_remove", "::nth")
    return {x for x in o if x.startswith("call:") and any(k in x for k in keep)}


def is_chosen(o):
    return any("BTreeMap" in c for c in org_calls(o))


def is_pool(o):
    cs = org_calls(o)
    return not is_chosen(o) and any(c.endswith("get_mut") or c.endswith("swap_remove") or "BTreeSet" in c for c in cs)


def calls_to(F, fid, suffix):
    return [c for c in F.calls(fid) if (c.to or "").endswith(suffix)]


def fresh_rule(rep, F, ids):
    """coverage comparisons read the running totals as they are at the comparison, not a copy taken before a later update"""
    from collections import defaultdict, deque
    rep.rule("FRESH", "every coverage comparison in the selection functions compares values read from the running totals (input_total / output_total) after their last update: no operand is computed from a total at a point from which an update of that total can still run before the comparison (a hoisted `needed = by(output_total)` misses the fee of the inputs added afterwards)")
    n_cmp = 0
    for k, fid in ids.items():
        fn = F.fns[fid]
        roots = set()
        for i_, ty in enumerate(fn["locals"]):
            if 1 <= i_ <= fn["argc"] and ty == "&mut utils::Value":
                roots.add(("_%d" % i_, True))
        names = {n_: l_ for n_, l_ in fn["names"]}
        for nm in ("input_total", "output_total"):
            l_ = names.get(nm)
            if l_ and fn["locals"][int(l_[1:])] == "utils::Value":
                roots.add((l_, False))
        if not roots:
            rep.lost("%s: running totals not found" % FNS[k])
            continue
        bases = {r[0] for r in roots}

        def place_mentions(pl):
            return pl.split("|")[0] in bases and pl.split("|")[0]

        defs = defaultdict(list)
        for bi, bb in enumerate(fn["bbs"]):
            if bb["c"]:
                continue
            for st in bb["st"]:
                if st[1] == "=":
                    defs[st[2]].append(("st", bi, st[3]))
            t = bb["t"]
            if t[1] == "call":
                defs[t[4]].append(("call", bi, t))

        def rv_ops(rv):
            k_ = rv[0]
            if k_ in ("use", "repeat"):
                return [rv[1]], []
            if k_ in ("ref", "rawptr"):
                return [], [rv[2]]
            if k_ == "cast":
                return [rv[2]], []
            if k_ == "bin":
                return [rv[2], rv[3]], []
            if k_ == "un":
                return [rv[2]], []
            if k_ in ("discr", "deref", "len"):
                return [], [rv[1]]
            if k_ == "agg":
                return list(rv[4]), []
            return [], []

        def temp_mentions(op, depth=0):
            """accumulator base the operand refers to without going through a call (ref / tuple-of-ref temporaries)"""
            if op[0] == "k":
                return set()
            pl = op[1]
            m = place_mentions(pl)
            if m:
                return {m}
            if "|" in pl or depth > 3:
                return set()
            out = set()
            ds = defs.get(pl, [])
            if len(ds) == 1 and ds[0][0] == "st":
                ops, pls = rv_ops(ds[0][2])
                for p_ in pls:
                    m = place_mentions(p_)
                    if m:
                        out.add(m)
                for o_ in ops:
                    out |= temp_mentions(o_, depth + 1)
            return out

        def chain(op, depth=0, seen=None):
            """[(block, accumulator base)] read points on the single-definition chain behind a comparison operand"""
            seen = seen if seen is not None else set()
            out = []
            if op[0] == "k" or depth > 8:
                return out
            pl = op[1]
            base = pl.split("|")[0]
            if base in bases or base in seen:
                return out   # read in place at the comparison: fresh
            seen.add(base)
            ds = defs.get(base, [])
            if len(ds) != 1:
                return out
            kind, bi, x = ds[0]
            if kind == "call":
                for a in x[3]:
                    for m in temp_mentions(a):
                        out.append((bi, m))
                    out += chain(a, depth + 1, seen)
            else:
                ops, pls = rv_ops(x)
                for p_ in pls:
                    m = place_mentions(p_)
                    if m and x[0] != "ref":
                        out.append((bi, m))
                    elif not m:
                        out += chain(["c", p_], depth + 1, seen)
                for o_ in ops:
                    if o_[0] != "k" and place_mentions(o_[1]):
                        out.append((bi, place_mentions(o_[1])))
                    else:
                        out += chain(o_, depth + 1, seen)
            return out

        # writes to the accumulators
        writes = defaultdict(set)
        for bi, bb in enumerate(fn["bbs"]):
            if bb["c"]:
                continue
            for st in bb["st"]:
                if st[1] == "=":
                    b_ = st[2].split("|")[0]
                    if b_ in bases and (st[2] == b_ or st[2].startswith(b_ + "|*") or st[2].startswith(b_ + "|f:")):
                        if (b_, True) in roots and not st[2].startswith(b_ + "|*"):
                            continue
                        writes[b_].add(bi)
                    if st[3][0] == "ref" and st[3][1] == "mut" and (b_ not in bases):
                        pass
            t = bb["t"]
            if t[1] == "call":
                b_ = t[4].split("|")[0]
                if b_ in bases and ((b_, False) in roots or t[4].startswith(b_ + "|*")):
                    writes[b_].add(bi)
                # a callee handed `&mut total` may update it
                for a in t[3]:
                    if a[0] != "k" and "|" not in a[1]:
                        ds = defs.get(a[1], [])
                        if len(ds) == 1 and ds[0][0] == "st" and ds[0][2][0] == "ref" and ds[0][2][1] == "mut":
                            m = place_mentions(ds[0][2][2])
                            if m and (ds[0][2][2] == m or ds[0][2][2] == m + "|*") and not (t[2].get("to") or "").endswith("checked_add"):
                                writes[m].add(bi)
        succ = {i_: [s_ for s_ in mp._succs(fn, i_) if s_ is not None and not fn["bbs"][s_]["c"]] for i_ in range(len(fn["bbs"])) if not fn["bbs"][i_]["c"]}

        def reach(src_list, dst, avoid):
            dq, seen_ = deque(src_list), set(src_list)
            while dq:
                x_ = dq.popleft()
                if x_ == dst:
                    return True
                for y_ in succ.get(x_, []):
                    if y_ != avoid and y_ not in seen_:
                        seen_.add(y_)
                        dq.append(y_)
            return False

        comps = []
        for bi, bb in enumerate(fn["bbs"]):
            if bb["c"]:
                continue
            for st in bb["st"]:
                if st[1] == "=" and st[3][0] == "bin" and st[3][1] in ("Lt", "Le", "Gt", "Ge"):
                    comps.append((bi, [st[3][2], st[3][3]]))
            t = bb["t"]
            if t[1] == "call" and re.search(r"PartialOrd::(lt|le|gt|ge)$", t[2].get("to") or ""):
                comps.append((bi, list(t[3])))
        reported = set()
        for bc, ops in comps:
            pts = []
            for o_ in ops:
                pts += chain(o_)
            direct = any(temp_mentions(o_) for o_ in ops)
            if not pts and not direct:
                continue
            n_cmp += 1
            rep.inst("FRESH")
            for br, base in pts:
                if br == bc:
                    continue
                for bw in writes.get(base, ()):
                    if bw == br:
                        continue
                    if reach([s_ for s_ in succ.get(br, []) if s_ != br], bw, br) and reach([bw], bc, br):
                        nm = [n_ for n_, l_ in fn["names"] if l_ == base]
                        key = "%s|%s" % (FNS[k], nm[0] if nm else base)
                        if key not in reported:
                            reported.add(key)
                            rep.violation("FRESH", key, "%s compares a value computed from `%s` before a point where `%s` is still updated (the fee of every added input is added to it): the coverage test uses a stale target, so selection can stop - and report success - while the inputs do not cover outputs + the fee of the inputs just added" % (FNS[k], nm[0] if nm else base, nm[0] if nm else base), {})
    rep.floor("coverage comparisons over the running totals", 4, n_cmp)


def total_order(F, callee, ga=""):
    """the Self type of a PartialOrd comparison is totally ordered: a primitive integer or a crate type with an Ord impl.
    Self comes from `<T as PartialOrd>::op` or, for the provided methods (std::cmp::PartialOrd::ge), from the call's generic args"""
    m = re.match(r"<(.+?) as std::cmp::PartialOrd(<.*>)?>::", callee or "")
    if m:
        T = m.group(1)
    else:
        T = ([x.strip() for x in (ga or "").strip("[]").split(",") if x.strip() and not x.strip().startswith("'")] or [""])[0]
    T = T.strip()
    while T.startswith("&") or T.startswith("'"):
        T = re.sub(r"^(&|'\{?\w+\}? ?|mut )", "", T).strip()
    if not T:
        return False
    if T in ("u8", "u16", "u32", "u64", "u128", "usize", "i8", "i16", "i32", "i64", "i128", "isize", "bool", "char"):
        return True
    # a crate type is total when its PartialOrd is the derived (lexicographic) one next to a derived Ord; a hand-written
    # partial_cmp (Value, MultiAsset, Assets: component-wise, None when the components disagree) is a partial order
    for im in F.impls:
        if (im.get("trait") or "").startswith("std::cmp::PartialOrd") and (im.get("self_adt") or im.get("self_ty") or "") == T:
            return bool(im.get("derive"))
    return False


def post_gate_rule(rep, F, ids, adds):
    """success of add_inputs_from is decided on what the builder really holds"""
    rep.rule("POST-gate", "the success return of add_inputs_from is dominated by the passing edge of `actual >= required` where actual is a fresh get_total_input() and required a fresh get_total_output() + min_fee(), all evaluated after the last input addition: the running totals of the strategies are bookkeeping (an offered list that repeats an outpoint, an outpoint the builder already holds, assets required by a burn are invisible to them), the final test is on the builder's state - unless the offered list is made unique by input before selection")
    fid = ids["main"]
    fn = F.fns[fid]
    org = ff.Origins(F, fid)
    rep.inst("POST-gate")
    add_bbs = {c.bb for c in adds["main"]} | {c.bb for c in calls_to(F, fid, "cip2_random_improve_by")} | {c.bb for c in calls_to(F, fid, "cip2_largest_first_by")}
    succ = {i_: [x_ for x_ in mp._succs(fn, i_) if x_ is not None and not fn["bbs"][x_]["c"]] for i_ in range(len(fn["bbs"])) if not fn["bbs"][i_]["c"]}

    def reaches_add(b0):
        seen, work = {b0}, [b0]
        while work:
            x = work.pop()
            for y in succ.get(x, []):
                if y in add_bbs:
                    return True
                if y not in seen:
                    seen.add(y)
                    work.append(y)
        return False

    gated = True
    n_ok = 0
    partial_note = []
    for bi, kind, loc in mp.success_stores(F, fid):
        if kind != "ok":
            continue
        n_ok += 1
        ok = False
        for s, edge, d in mp.dominating_guards(F, fid, bi, org):
            if d["kind"] != "call" or not re.search(r"PartialOrd(<[^>]*>)?>?::(ge|lt|le|gt)$", d["callee"]):
                continue
            name = d["callee"].rsplit("::", 1)[-1]
            a0 = set(d["args"][0]) if d["args"] else set()
            a1 = set(d["args"][1]) if len(d["args"]) > 1 else set()
            if name in ("le", "gt"):
                a0, a1 = a1, a0
                name = {"le": "ge", "gt": "lt"}[name]
            # actual (a0) >= required (a1), or !(actual < required)
            tin = [x for x in a0 if x.startswith("call:") and "get_total_input" in x]
            tout = [x for x in a1 if x.startswith("call:") and "get_total_output" in x]
            fee = [x for x in a1 if x.startswith("call:") and x.split("@")[0].endswith("min_fee")]
            if not (tin and tout and fee):
                continue
            # `!(actual < required)` certifies coverage only on a total order: Value is partially ordered (more lovelace, fewer
            # tokens: neither < nor >=), there only the true edge of >= (or <= swapped) is a proof
            total = total_order(F, d["callee"], d.get("ga", ""))
            passing = (name == "ge" and (edge != "0") != d["neg"]) or (total and name == "lt" and (edge == "0") != d["neg"])
            if not total and name == "lt" and (edge == "0") != d["neg"] and tin and tout and fee:
                partial_note.append(d["callee"])
            fresh = all(not reaches_add(int(x.split("@")[1])) for x in tin + tout + fee)
            if passing and fresh:
                ok = True
        if not ok:
            gated = False
    if n_ok == 0:
        rep.lost("add_inputs_from has no success return")
        return
    if gated:
        return True
    if partial_note:
        rep.violation("POST-gate", "add_inputs_from|partial-order", "add_inputs_from decides success on the *false* edge of `actual < required` (%s): Value is only partially ordered - with more lovelace than required but fewer units of a requested asset neither `<` nor `>=` holds, so the test stays silent and selection reports success without covering that asset (a burn under random-improve, an offered list repeating a UTxO). Only the true edge of `actual >= required` proves coverage" % partial_note[0], {})
        return
    # no final test on the builder's state: then at least the offered list must be unique by input
    uniq = False
    for n_ in H.walk(F.hir[fid]["body"]) if fid in F.hir else []:
        if n_[0] == "mcall" and n_[2] in ("insert", "contains", "contains_key", "entry") and n_[5] and re.search(r"(Set|Map)<(&'?\w* ?)?protocol_types::tx_input::TransactionInput", n_[6] or ""):
            uniq = True
    if not uniq:
        rep.violation("POST-gate", "add_inputs_from|no-final-test", "add_inputs_from returns Ok on the strategies' running totals alone and the offered list is not made unique by input: offered [U, U] (the same 6 ADA outpoint twice) for a 10 ADA output returns Ok with one 6 ADA input; a burn of 5 X with pure-ADA strategies returns Ok with no X among the inputs", {})


def check(rep, F, tier, replay=None):
    ids = {}
    for k, key in FNS.items():
        f = F.by_key(key)
        if len(f) != 1:
            rep.lost("%s not found" % key)
            return rep.finish(EXPLANATION)
        ids[k] = f[0]
    orgs = {k: ff.Origins(F, fid) for k, fid in ids.items()}

    # ---- OFFERED + WHO --------------------------------------------------------------------------------------------------
    rep.rule("OFFERED", "the UTxO argument of every add_regular_utxo in selection code originates from the offered collection (index / pop), never from a constructor")
    rep.rule("WHO", "selection code touches the builder's inputs only through add_regular_utxo (plus read-only queries)")
    adds = {}
    for k, fid in ids.items():
        fn = F.fns[fid]
        adds[k] = calls_to(F, fid, "TxInputsBuilder::add_regular_utxo")
        for c in adds[k]:
            rep.inst("OFFERED")
            t = fn["bbs"][c.bb]["t"]
            o = orgs[k].of_operand(t[3][1])
            if OFFERED_ARG[k] not in o:
                rep.violation("OFFERED", "%s|not-from-offered" % FNS[k], "%s adds a UTxO that does not come from the offered collection (origins: %s)" % (FNS[k], sorted(o)[:6]), {})
            ctor = [c2 for c2 in org_calls(o) if c2.endswith("::new") and "TransactionUnspentOutput" in c2 or c2.endswith("TransactionUnspentOutput::from_bytes")]
            if ctor:
                rep.violation("OFFERED", "%s|constructed" % FNS[k], "%s adds a UTxO built by %s" % (FNS[k], ctor), {})
        # WHO: every call whose receiver derives from self.inputs
        for c in F.calls(fid):
            t = fn["bbs"][c.bb]["t"]
            if not t[3]:
                continue
            o0 = orgs[k].of_operand(t[3][0])
            if any(x == "field:builders::tx_builder::TransactionBuilder.inputs" for x in o0) and (c.to or "").startswith("builders::tx_inputs_builder::"):
                short = c.to.rsplit("::", 1)[-1]
                rep.inst("WHO")
                fnc = F.fns.get(c.to)
                mut = fnc is not None and fnc["locals"][1].startswith("&mut")
                if mut and short != "add_regular_utxo":
                    rep.violation("WHO", "%s|%s" % (FNS[k], short), "%s mutates the builder's inputs through %s: inputs already in the builder are no longer untouched by selection" % (FNS[k], short), {})
        # direct stores to self.inputs
        ffs = ff.FnFields(F, fid)
        for s in ffs.stores_to("builders::tx_builder::TransactionBuilder", "inputs"):
            rep.inst("WHO")
            rep.violation("WHO", "%s|store" % FNS[k], "%s overwrites TransactionBuilder.inputs" % FNS[k], {})
    rep.floor("add_regular_utxo sites in selection code", 5, sum(len(v) for v in adds.values()))

    # ---- ACCOUNT --------------------------------------------------------------------------------------------------------
    rep.rule("ACCOUNT", "every add_regular_utxo(x) is followed in the same iteration by a checked_add of x's amount (input total) and a checked_add of fee_for_input(x) (output total)")
    for k, fid in ids.items():
        fn = F.fns[fid]
        vadds = calls_to(F, fid, "Value::checked_add")
        for c in adds[k]:
            t = fn["bbs"][c.bb]["t"]
            sk = sel_keys(orgs[k].of_operand(t[3][1]))
            amount_ok = fee_ok = False
            for v in vadds:
                if not mp.dominated_by(fn, v.bb, c.bb):
                    continue
                vt = fn["bbs"][v.bb]["t"]
                o1 = orgs[k].of_operand(vt[3][1])
                if sk and sk <= o1 | sk and sel_keys(o1) & sk:
                    if any(x.startswith("call:") and "fee_for_input" in x for x in o1):
                        fee_ok = True
                    else:
                        amount_ok = True
            rep.inst("ACCOUNT")
            if not amount_ok:
                rep.violation("ACCOUNT", "%s|amount|%s" % (FNS[k], "+".join(sorted(x.split("@")[0].rsplit("::", 1)[-1] for x in sk))), "%s: an added UTxO's amount is not added to the running input total in the same iteration: the coverage test compares a total that is not what the builder holds" % FNS[k], {})
            if not fee_ok:
                rep.violation("ACCOUNT", "%s|fee|%s" % (FNS[k], "+".join(sorted(x.split("@")[0].rsplit("::", 1)[-1] for x in sk))), "%s: the fee of an added UTxO is not added to the running output total in the same iteration" % FNS[k], {})

    # ---- GATE -----------------------------------------------------------------------------------------------------------
    rep.rule("GATE", "backwards from the success return of add_inputs_from a coverage test is met before any add_regular_utxo and before the entry; largest-first returns Ok only on the covered edge of its final comparison")
    fid = ids["main"]
    fn = F.fns[fid]
    org = orgs["main"]
    gate_edges = set()  # (from_bb, to_bb)
    for c in calls_to(F, fid, "cip2_largest_first_by"):
        kc = mp.try_continue(F, fid, c)
        if kc is not None:
            # the edge entering the Continue block from its switch
            for bi, bb in enumerate(fn["bbs"]):
                if bb["t"][1] == "switch" and kc in [x[1] for x in bb["t"][3]] + [bb["t"][4]]:
                    gate_edges.add((bi, kc))
    n_loop_gates = 0
    for bi, bb in enumerate(fn["bbs"]):
        t = bb["t"]
        if t[1] != "switch" or bb["c"]:
            continue
        d = mp.describe_cond(F, fid, bi, org)
        if d["kind"] == "call" and (d["callee"].endswith("PartialOrd>::lt") or d["callee"].endswith("::lt")):
            a0 = set(d["args"][0]) if d["args"] else set()
            a1 = set(d["args"][1]) if len(d["args"]) > 1 else set()
            if any("get_total_input" in x for x in a0) and any("get_total_output" in x for x in a1):
                f_t = [tg for v, tg in t[3] if v == "0"]
                if f_t:
                    gate_edges.add((bi, f_t[0]) if not d["neg"] else (bi, t[4]))
                    n_loop_gates += 1
    rep.floor("coverage gates found in add_inputs_from (largest-first calls + top-up loop exits)", 5, len(gate_edges))
    add_bbs = {c.bb for c in adds["main"]} | {c.bb for c in calls_to(F, fid, "cip2_random_improve_by")}
    preds = {}
    for bi in range(len(fn["bbs"])):
        if fn["bbs"][bi]["c"]:
            continue
        for s in F.succ(fn, bi, with_unwind=False):
            if s is not None:
                preds.setdefault(s, []).append(bi)
    for bi, kind, loc in mp.success_stores(F, fid):
        if kind != "ok":
            continue
        rep.inst("GATE")
        seen = set()
        work = [bi]
        bad = None
        while work and bad is None:
            b = work.pop()
            if b in seen:
                continue
            seen.add(b)
            if b in add_bbs:
                bad = "an input addition at %s" % facts.loc_str(fn["bbs"][b]["t"][0], fn)
                break
            if b == 0:
                bad = "the function entry"
                break
            for p in preds.get(b, []):
                if (p, b) in gate_edges:
                    continue
                work.append(p)
        if bad:
            # the strategies' own tests may have moved into a helper; what makes the success sound is the final test on the
            # builder's state (POST-gate) - when that dominates the return, this path is covered
            quiet = common.Report(rep.pid, rep.tier)
            if post_gate_rule(quiet, F, ids, adds) is True and not quiet.violations:
                rep.allow("GATE")
                continue
            rep.violation("GATE", "add_inputs_from|%s" % ("entry" if "entry" in bad else "after-add"), "add_inputs_from can return Ok on a path where no coverage test lies between %s and the return" % bad, {})
    # largest-first's own final gate
    lf = ids["lf"]
    lfn = F.fns[lf]
    lorg = orgs["lf"]
    for bi, kind, loc in mp.success_stores(F, lf):
        if kind != "ok":
            continue
        rep.inst("GATE")
        ok = False
        for s, edge, d in mp.dominating_guards(F, lf, bi, lorg):
            if d["kind"] == "call" and d["callee"].endswith("::lt") and edge == "0" and not d["neg"]:
                ok = True
            if d["kind"] == "call" and d["callee"].endswith("::ge") and edge != "0" and not d["neg"]:
                ok = True
        if not ok:
            hid = [d["callee"] for s, edge, d in mp.dominating_guards(F, lf, bi, lorg) if d["kind"] == "call" and (d["callee"] in F.fns or "{closure" in d["callee"])]
            if hid:
                rep.lost("cip2_largest_first_by: the final coverage test is computed by %s (a local closure / helper): the rule cannot see the comparison's direction" % H.short(hid[0]))
                continue
            rep.violation("GATE", "cip2_largest_first_by|final", "cip2_largest_first_by returns Ok without passing the not-insufficient edge of its final `selected < needed` comparison", {})

    # ---- IDX ------------------------------------------------------------------------------------------------------------
    rep.rule("IDX", "random-improve index typestate: chosen-side values are never inserted into the available set; mem::swap(chosen, pool) is followed by remove(chosen place) and insert(pool place); every index used for an add left the available collection in the same iteration or comes from the chosen side")
    ri = ids["ri"]
    rfn = F.fns[ri]
    rorg = orgs["ri"]
    avail = "arg:3"
    inserts = [c for c in F.calls(ri) if (c.to or "").endswith("BTreeSet::<T, A>::insert")]
    removes = [c for c in F.calls(ri) if (c.to or "").endswith("BTreeSet::<T, A>::remove")]
    swaps = [c for c in F.calls(ri) if (c.to or "").endswith("mem::swap")]
    for c in inserts:
        t = rfn["bbs"][c.bb]["t"]
        if avail not in rorg.of_operand(t[3][0]):
            continue
        rep.inst("IDX")
        o = rorg.of_operand(t[3][1])
        if is_chosen(o):
            rep.violation("IDX", "cip2_random_improve_by|insert-chosen", "cip2_random_improve_by inserts into the available set a value read from the chosen side (associated_indices): a committed UTxO becomes selectable again and can be added twice", {"loc": facts.loc_str(t[0], rfn)})
    for c in swaps:
        t = rfn["bbs"][c.bb]["t"]
        oa, ob = rorg.of_operand(t[3][0]), rorg.of_operand(t[3][1])
        rep.inst("IDX")
        if not ((is_chosen(oa) and is_pool(ob)) or (is_chosen(ob) and is_pool(oa))):
            rep.lost("mem::swap in cip2_random_improve_by is not between a chosen-side and a pool-side index (re-anchor the IDX rule)")
            continue
        rem_ok = ins_ok = False
        for r in removes:
            rt = rfn["bbs"][r.bb]["t"]
            if mp.dominated_by(rfn, r.bb, c.bb) and avail in rorg.of_operand(rt[3][0]) and is_chosen(rorg.of_operand(rt[3][1])):
                rem_ok = True
        for i in inserts:
            it = rfn["bbs"][i.bb]["t"]
            if mp.dominated_by(rfn, i.bb, c.bb) and avail in rorg.of_operand(it[3][0]) and is_pool(rorg.of_operand(it[3][1])):
                ins_ok = True
        if not rem_ok:
            rep.violation("IDX", "cip2_random_improve_by|swap-no-remove-chosen", "after mem::swap(chosen, pool) the value now in the chosen place is not removed from the available set", {})
        if not ins_ok:
            rep.violation("IDX", "cip2_random_improve_by|swap-no-insert-released", "after mem::swap(chosen, pool) the released value (now in the pool place) is not put back into the available set", {})
    rep.floor("index swaps in the improvement phase", 1, len(swaps))
    # every add's index left the available collection
    for k, fid in ids.items():
        fn_ = F.fns[fid]
        o_ = orgs[k]
        takes = [c for c in F.calls(fid) if (c.to or "").rsplit("::", 1)[-1] in ("remove", "swap_remove", "pop") and ("BTreeSet" in c.to or "Vec" in c.to)]
        for c in adds[k]:
            t = fn_["bbs"][c.bb]["t"]
            o = o_.of_operand(t[3][1])
            rep.inst("IDX")
            if is_chosen(o):
                continue
            sk = sel_keys(o)
            ok = False
            for r in takes:
                rt = fn_["bbs"][r.bb]["t"]
                ro = set()
                for a in rt[3]:
                    ro |= o_.of_operand(a)
                if (sel_keys(ro) & sk or r.to.endswith("::pop") and any("::pop" in x for x in sk)) and (mp.dominated_by(fn_, c.bb, r.bb) or mp.dominated_by(fn_, r.bb, c.bb)):
                    ok = True
            if not ok:
                rep.violation("IDX", "%s|add-without-take" % FNS[k], "%s adds an offered UTxO whose index is not taken out of the available collection in the same iteration: it can be selected again" % FNS[k], {"loc": facts.loc_str(t[0], fn_)})

    # ---- STORE: a registration that reports success has stored the input ----------------------------------------------------
    rep.rule("STORE", "every registration function of TxInputsBuilder that stores inputs (calls push_input) does so on every path to its return: add_regular_utxo cannot report success for a UTxO the builder does not hold (selection would count its value without having it)")
    n_store = 0
    for fid_, fn_ in F.fns.items():
        if "/tests/" in fn_["file"] or "::{closure" in fid_:
            continue
        cs_ = [c for c in F.calls(fid_) if (c.to or "").endswith("TxInputsBuilder::push_input")]
        if not cs_:
            continue
        n_store += 1
        rep.inst("STORE")
        if fn_["locals"][0].startswith("std::result::Result"):
            exits = [b for b, k, l in mp.success_stores(F, fid_)]
        else:
            exits = [bi for bi, bb in enumerate(fn_["bbs"]) if bb["t"][1] == "ret" and not bb["c"]]
        bad = [r for r in exits if not any(mp.dominated_by(fn_, r, c.bb) for c in cs_)]
        if bad:
            rep.violation("STORE", "%s" % F.key(fid_), "%s can return normally without having called push_input: the caller (add_regular_utxo, hence coin selection) takes the UTxO as added while the builder does not hold it" % F.key(fid_), {})
    rep.floor("input registration functions that store through push_input", 3, n_store)

    # ---- MARGINAL: an offered UTxO is priced with the registration that commits it ------------------------------------------------
    rep.rule("MARGINAL", "the marginal fee added to the target for a selected UTxO (fee_for_input) prices the same registration that add_regular_utxo commits: both hand add_regular_input_extended the input's reference-script size (min_fee charges the tiered reference-script fee for it)")
    price = F.by_key("TxInputsBuilder::add_regular_input")
    commit = F.by_key("TxInputsBuilder::add_regular_utxo")
    ffi = F.by_key("TransactionBuilder::fee_for_input")
    if len(price) != 1 or len(commit) != 1 or len(ffi) != 1:
        rep.lost("pricing / commit registration functions not found")
    else:
        def ext_arg(fid_):
            fn_ = F.fns[fid_]
            org_ = ff.Origins(F, fid_)
            for c_ in F.calls(fid_):
                if (c_.to or "").endswith("add_regular_input_extended"):
                    t_ = fn_["bbs"][c_.bb]["t"]
                    return org_.of_operand(t_[3][4]) if len(t_[3]) > 4 else None
            return None
        rep.inst("MARGINAL")
        # fee_for_input must price through TxInputsBuilder::add_regular_input (directly or via TransactionBuilder::add_regular_input)
        reach = set()
        work = [ffi[0]]
        for _ in range(3):
            nxt = []
            for f_ in work:
                for c_ in F.calls(f_):
                    if c_.to in F.fns and c_.to not in reach:
                        reach.add(c_.to)
                        nxt.append(c_.to)
            work = nxt
        if price[0] not in reach and commit[0] not in reach:
            rep.lost("fee_for_input no longer prices through add_regular_input / add_regular_utxo (re-anchor MARGINAL)")
        else:
            pa = ext_arg(price[0]) if commit[0] not in reach else ext_arg(commit[0])
            ca = ext_arg(commit[0])
            if pa is None or ca is None:
                rep.lost("add_regular_input_extended call not found in pricing / commit path")
            else:
                commit_has = any("closure:" in x or "script_ref" in x or x.startswith("call:") for x in ca)
                price_has = any("closure:" in x or "script_ref" in x or x.startswith("call:") or x.startswith("arg:") for x in pa)
                if commit_has and not price_has:
                    rep.violation("MARGINAL", "fee_for_input|ref-script-size", "selection prices an offered UTxO with fee_for_input -> add_regular_input (reference-script size: None) but commits it with add_regular_utxo (reference-script size of its script_ref): min_fee afterwards includes the tiered reference-script fee the target never accounted for, so add_inputs_from can report success with inputs below outputs + min fee", {})

    # ---- COMMIT-once: every chosen index is committed exactly once ------------------------------------------------------------
    rep.rule("COMMIT-once", "random-improve commits the chosen indices by traversing associated_indices itself (values / iter), each entry once - not by a keyed lookup per output, which visits the shared entry of two identical outputs twice and counts its inputs twice")
    ri_ = ids["ri"]
    rfn_ = F.fns[ri_]
    n_commit = 0
    for c in adds["ri"]:
        t = rfn_["bbs"][c.bb]["t"]
        o = orgs["ri"].of_operand(t[3][1])
        if not is_chosen(o):
            continue
        n_commit += 1
        rep.inst("COMMIT-once")
        cs = org_calls(o)
        keyed = sorted(x for x in cs if "BTreeMap" in x and x.rsplit("::", 1)[-1] in ("get", "get_mut", "entry", "get_key_value", "remove"))
        trav = [x for x in cs if ("BTreeMap" in x or "btree_map" in x or "btree::map" in x) and x.rsplit("::", 1)[-1] in ("values", "iter", "into_iter", "into_values", "values_mut", "iter_mut", "next")]
        if keyed:
            rep.violation("COMMIT-once", "cip2_random_improve_by|keyed-lookup", "cip2_random_improve_by commits the chosen inputs through a keyed lookup (%s) inside a loop over the outputs: two identical outputs share one entry, its inputs are added and counted twice, and selection reports success with inputs that do not cover outputs + fee" % ", ".join(x.rsplit("::", 2)[-1] for x in keyed), {"loc": facts.loc_str(t[0], rfn_)})
        elif not trav:
            rep.lost("cip2_random_improve_by: the commit loop neither looks entries up by key nor traverses the map (re-anchor COMMIT-once)")
    rep.floor("commit sites of chosen indices in random-improve", 1, n_commit)

    # ---- SHARE: one available-index object per strategy arm ---------------------------------------------------------------
    rep.rule("SHARE", "selection passes that can run one after the other in add_inputs_from (per-asset passes, the remaining-ADA pass, the fee top-up loop) work on the same available-index collection, so a UTxO taken by one pass cannot be taken again by a later one")
    fid = ids["main"]
    fn = F.fns[fid]
    org = orgs["main"]
    helper_calls = [c for c in F.calls(fid) if "cip2_" in (c.to or "")]
    allocs = {}
    for c in helper_calls:
        t = fn["bbs"][c.bb]["t"]
        allocs[c.bb] = {x for x in org.of_operand(t[3][2]) if "collect@" in x}
    # the fee top-up loops' own takes from the set
    for c in F.calls(fid):
        if (c.to or "").endswith("BTreeSet::<T, A>::remove"):
            t = fn["bbs"][c.bb]["t"]
            allocs[c.bb] = {x for x in org.of_operand(t[3][0]) if "collect@" in x}
    common_all = set.intersection(*allocs.values()) if allocs else set()
    reach = {}

    def reachable(a):
        if a in reach:
            return reach[a]
        seen = set()
        work = [s_ for s_ in F.succ(fn, a, with_unwind=False) if s_ is not None]
        while work:
            b = work.pop()
            if b in seen or fn["bbs"][b]["c"]:
                continue
            seen.add(b)
            work += [s_ for s_ in F.succ(fn, b, with_unwind=False) if s_ is not None]
        reach[a] = seen
        return seen

    pairs = 0
    for a in sorted(allocs):
        for b in sorted(allocs):
            if a == b or b not in reachable(a):
                continue
            pairs += 1
            rep.inst("SHARE")
            if not ((allocs[a] - common_all) & (allocs[b] - common_all)):
                rep.violation("SHARE", "add_inputs_from|%s->%s" % (fn["bbs"][a]["t"][2]["to"].rsplit("::", 1)[-1], fn["bbs"][b]["t"][2]["to"].rsplit("::", 1)[-1]), "add_inputs_from runs a selection pass (%s) and later another one (%s) on a different available-index collection: a UTxO already taken by the first pass can be selected again, its value counted twice" % (facts.loc_str(fn["bbs"][a]["t"][0], fn), facts.loc_str(fn["bbs"][b]["t"][0], fn)), {})
    rep.floor("ordered pairs of selection passes sharing an index collection", 5, pairs)

    # ---- CREDIT: what the builder already holds is credited once ---------------------------------------------------------
    rep.rule("CREDIT-once", "random-improve reads the selector of the running input total (what the builder already holds) only outside its loops: the existing holding is credited once and the surplus carried forward, not re-credited to every output")
    import accumulators as A
    ri = ids["ri"]
    rfn = F.fns[ri]
    rorg = orgs["ri"]
    loops = A.loop_blocks(F, rfn)
    n_cred = 0
    for c in F.calls(ri):
        to = c.to or ""
        if not (to.endswith("Fn::call") or to.endswith("FnMut::call_mut") or to.endswith("FnOnce::call_once")):
            continue
        t = rfn["bbs"][c.bb]["t"]
        o = set()
        for a in t[3][1:]:
            o |= rorg.of_operand(a)
        if "arg:4" not in o:
            continue
        n_cred += 1
        rep.inst("CREDIT-once")
        if c.bb in loops:
            rep.violation("CREDIT-once", "cip2_random_improve_by|in-loop", "cip2_random_improve_by evaluates the selector on the running input total inside a loop (%s): the amount already held is credited to every output instead of once" % facts.loc_str(t[0], rfn), {})
    rep.floor("reads of the running input total through the selector in random-improve", 1, n_cred)

    # ---- LF -------------------------------------------------------------------------------------------------------------
    rep.rule("LF", "largest-first: a copy of the available indices is sorted by the selector and iterated in reverse; an input is added only on the not-yet-covered edge")
    names = {(c.to or "") for c in F.calls(lf)}
    rep.inst("LF", 3)
    if not any(n.endswith("sort_by_key") or n.endswith("sort_by_cached_key") for n in names):
        rep.violation("LF", "cip2_largest_first_by|sort", "cip2_largest_first_by no longer sorts the candidate indices by the selector", {})
    if not any("iter::Rev<" in n or n.endswith("Iterator::rev") for n in names):
        rep.violation("LF", "cip2_largest_first_by|rev", "cip2_largest_first_by no longer walks the sorted candidates from the largest", {})
    for c in adds["lf"]:
        ok = False
        for s, edge, d in mp.dominating_guards(F, lf, c.bb, lorg):
            if d["kind"] == "call" and d["callee"].endswith("::ge") and ((edge == "0") != d["neg"]):
                ok = True
            if d["kind"] == "call" and d["callee"].endswith("::lt") and ((edge != "0") != d["neg"]):
                ok = True
        if not ok:
            hid = [d["callee"] for s, edge, d in mp.dominating_guards(F, lf, c.bb, lorg) if d["kind"] == "call" and (d["callee"] in F.fns or "{closure" in d["callee"])]
            if hid:
                rep.lost("cip2_largest_first_by: the stop test is computed by %s (a local closure / helper): the rule cannot see the comparison's direction" % H.short(hid[0]))
                continue
            rep.violation("LF", "cip2_largest_first_by|stop", "cip2_largest_first_by adds an input on a path that does not pass the not-yet-covered edge of the coverage comparison (it no longer stops as soon as the target is covered)", {})
    fresh_rule(rep, F, ids)
    # FEE-aligned: the marginal fee is a difference of fees as the builder will charge them
    rep.rule("FEE-aligned", "fee_for_input returns the difference of two fees that both went through the builder's fee request (TxBuilderFee::get_new_fee), like TransactionBuilder::min_fee(): under set_fee / set_min_fee the fee the builder charges does not grow with every input, so a raw size-based difference inflates the target and largest-first reports insufficiency (or keeps adding) although the offered UTxOs suffice")
    fi_ = F.by_key("TransactionBuilder::fee_for_input")
    if len(fi_) != 1:
        rep.lost("TransactionBuilder::fee_for_input not found")
    else:
        rep.inst("FEE-aligned")
        fn_ = F.fns[fi_[0]]
        org_ = ff.Origins(F, fi_[0])
        subs_ = [c for c in F.calls(fi_[0]) if (c.to or "").endswith("BigNum::checked_sub")]
        if not subs_:
            rep.lost("fee_for_input: final subtraction not found")
        else:
            t_ = fn_["bbs"][subs_[-1].bb]["t"]
            ok_ = all(any(x.startswith("call:") and x.split("@")[0].endswith("TxBuilderFee::get_new_fee") for x in org_.of_operand(a_)) for a_ in t_[3][:2])
            if not ok_:
                rep.violation("FEE-aligned", "fee_for_input|raw-difference", "fee_for_input subtracts fees that did not go through fee_request.get_new_fee: with set_min_fee above the size-based fee every selected input still adds ~1.6k-6k lovelace to the target, so LargestFirst returns `UTxO Balance Insufficient` for offered UTxOs that cover outputs + the requested fee", {})
    post_gate_rule(rep, F, ids, adds)
    from ruleutil import ref_size_pass_rule
    ref_size_pass_rule(rep, F)  # every strategy adds a chosen UTxO through add_regular_utxo -> add_regular_input_extended: the fee the final coverage test uses contains the reference-script fee of that input only if its size reaches the registration
    return rep.finish(EXPLANATION, ["Value::checked_add / BigNum comparisons are exact (C14)", "fee_for_input is the marginal fee of the input (C06 / C15)"], ["csl-facts driver (MIR: resolved callees, dominators, origins slice)"])
