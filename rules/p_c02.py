"""C02 — parsers are total (E1 panicpath + W-noerr)."""
import e1_panicpath as e1

EXPLANATION = (
    "Static may-panic reachability. The whole crate's MIR (real build flags, dev profile so every trapping arithmetic "
    "operator is an Assert) is turned into a call graph (resolved callees, class-hierarchy fan-out for unresolved trait "
    "calls, callback edges for closures / fn items / local impls handed to external generics). From every parser entry "
    "point (Deserialize-family impls, from_bytes/from_hex/from_json/from_bech32/..., free decode_* helpers) and every "
    "encoder entry point (Serialize impls, to_bytes/to_hex/to_json/...), each reachable non-derived body is scanned for "
    "panic-capable constructs: compiler asserts (bounds, overflow, division), the panic family, unwrap/expect, std "
    "functions whose rustdoc has a `# Panics` section (read from the installed rust-src at the def site the compiler "
    "reports), Index impls, overflow-inheriting integer methods, and allocation sized by a value that is not an in-memory "
    "length. A construct passes only if a syntactic range rule discharges it or tables/c02_allow.json lists it with a "
    "reason; table guards (dominating length comparison / dominating call) are re-checked on each run, so removing a "
    "length check re-opens the site. Decides: no reachable panic primitive outside the audited list. Does not decide: "
    "termination, stack depth, panics inside std/dependencies beyond their documentation, wasm32 cfg variants."
)

ASSUMPTIONS = [
    "nesting depth of recursive structures is bounded (recursive call-graph components are listed in coverage.call_graph)",
    "memory exhaustion / capacity-overflow panics are out of scope when the size is an in-memory length or constant",
    "derive-generated bodies (serde_derive, schemars_derive, num-derive, std derives) are trusted like the dependencies that generate them",
    "std functions without a `# Panics` section and dependency functions not in tables/dep_model.json do not panic",
    "readers are in-memory cursors (every public entry point wraps the input in std::io::Cursor)",
    "loop counters incremented by small constants on >=64-bit integers do not reach the type maximum",
    "host (x86_64) cfg variant analysed; wasm32 variants of from_bytes!/from_hex! are not",
]

TRUSTED = ["rustc 1.97.0-nightly MIR/typeck (csl-facts driver)", "rust-src rustdoc `# Panics` sections", "tables/c02_allow.json (hand audit)", "tables/dep_model.json"]


def check(rep, F, tier, replay=None):
    e1.run(rep, F, tier)
    return rep.finish(EXPLANATION, ASSUMPTIONS, TRUSTED)
