"""C02 — parsers are total (E1 panicpath + W-noerr)."""
import re

import common
import e1_panicpath as e1

EXPLANATION = (
    "Static may-panic reachability. The whole crate's MIR (real build flags, dev profile so every trapping arithmetic "
    "operator is an Assert) is turned into a call graph (resolved callees, class-hierarchy fan-out for unresolved trait "
    "calls, callback edges for closures / fn items / local impls handed to external generics). From every parser entry "
    "point (Deserialize-family impls, from_bytes/from_hex/from_json/from_bech32/..., free decode_* helpers) and every "
    "encoder entry point (Serialize impls, to_bytes/to_hex/to_json/...), each reachable non-derived body is scanned for "
    "panic-capable constructs: compiler asserts (bounds, overflow, division), the panic family, unwrap/expect, std "
    "functions whose rustdoc has a `# Panics` section (read from the installed rust-src at the def site the compiler "
    "reports), Index impls, overflow-inheriting integer methods, and allocation sized by a value that is not an in-memory "
    "length. A construct passes only if a syntactic range rule discharges it or tables/c02_allow.json lists it with a "
    "reason; table guards (dominating length comparison / dominating call) are re-checked on each run, so removing a "
    "length check re-opens the site. Decides: no reachable panic primitive outside the audited list. Does not decide: "
    "termination, stack depth, panics inside std/dependencies beyond their documentation, wasm32 cfg variants. The property's second clause "
    "(whatever a parser returned serialises to well-formed CBOR) is decided by E2's W-len / W-one rules over every writer: in every abstract "
    "presence state each definite container receives exactly the number of items it declares."
)

ASSUMPTIONS = [
    "nesting depth of recursive structures is bounded (recursive call-graph components are listed in coverage.call_graph)",
    "memory exhaustion / capacity-overflow panics are out of scope when the size is an in-memory length or constant",
    "derive-generated bodies (serde_derive, schemars_derive, num-derive, std derives) are trusted like the dependencies that generate them",
    "std functions without a `# Panics` section and dependency functions not in tables/dep_model.json do not panic",
    "readers are in-memory cursors (every public entry point wraps the input in std::io::Cursor)",
    "loop counters incremented by small constants on >=64-bit integers do not reach the type maximum",
    "host (x86_64) cfg variant analysed; wasm32 variants of from_bytes!/from_hex! are not",
]

TRUSTED = ["tables/e2_audited.json", "rustc 1.97.0-nightly MIR/typeck (csl-facts driver)", "rust-src rustdoc `# Panics` sections", "tables/c02_allow.json (hand audit)", "tables/dep_model.json"]


def check(rep, F, tier, replay=None):
    e1.run(rep, F, tier)
    # second clause of the property: whatever a parser returned serialises to well-formed CBOR - declared lengths equal written items
    import p_c01 as _c01
    from e2_all import Inventory as _Inv
    _inv = _Inv(F, thorough=(tier == "thorough"))
    _inv.analyse_all()
    _c01.rule_wlen(rep, F, _inv, common.load_table("e2_audited.json"))
    # BREAK-def: a Break ends only an indefinite-length collection
    import fieldflow as ff
    import mustpass as mp
    rep.rule("BREAK-def", "every collection reader's Break test (is_break_tag) is given the declared length of the collection it is reading - the Len returned by the array() / map() call of the same function - and fails for a definite length: `82 01 ff` is not a one-element list. Byte-preserving values (PlutusData, the kept witness-set fields, FixedTransaction bodies) would otherwise write such a malformed span back verbatim")
    hb = [f for f in F.fns if f.endswith("serialization::utils::is_break_tag")]
    if len(hb) != 1:
        rep.lost("serialization::utils::is_break_tag not found")
    else:
        hfn = F.fns[hb[0]]
        rep.inst("BREAK-def")
        takes_len = any(l in ("&cbor_event::Len", "&cbor_event::len::Len") or l.endswith("Len") and l.startswith("&") for l in hfn["locals"][1:hfn["argc"] + 1])
        rejects = False
        if takes_len:
            horg = ff.Origins(F, hb[0])
            for bi, kind, loc in mp.error_stores(F, hb[0]):
                for s_ in mp.control_deps(F, hb[0], bi):
                    d = mp.describe_cond(F, hb[0], s_, horg)
                    if d["kind"] == "discr" and any(x == "arg:2" for x in d.get("of", [])):
                        rejects = True
        if not takes_len or not rejects:
            rep.violation("BREAK-def", "is_break_tag|definite-unaware", "is_break_tag does not know the declared length of the collection (%s): all its callers accept a Break inside a definite-length array / map - PlutusData::from_bytes(82 01 ff) is Ok and to_bytes() writes `82 01 ff` back, which is not well-formed CBOR" % ("no Len parameter" if not takes_len else "no error exit that depends on the Len"), {})
        else:
            n_b = 0
            for fid, fn in F.fns.items():
                if "/tests/" in fn["file"]:
                    continue
                org = None
                for c in F.calls(fid):
                    if (c.to or "") != hb[0]:
                        continue
                    n_b += 1
                    rep.inst("BREAK-def")
                    org = org or ff.Origins(F, fid)
                    o = org.of_operand(fn["bbs"][c.bb]["t"][3][1])
                    own = [x for x in o if x.startswith("call:") and re.search(r"Deserializer::<R>::(array|map)(_sz)?@", x)]
                    if not own:
                        rep.violation("BREAK-def", "%s|foreign-len" % F.key(fid.split("::{closure")[0]), "%s hands is_break_tag a length that is not the result of its own array() / map() call (origins %s): the Break test judges the wrong container" % (F.key(fid.split("::{closure")[0]), sorted(o)[:4]), {})
            rep.floor("Break tests in collection readers", 40, n_b)
    from ruleutil import close_len_rule
    close_len_rule(rep, F)
    from ruleutil import dup_key_rule
    dup_key_rule(rep, F)
    return rep.finish(EXPLANATION, ASSUMPTIONS, TRUSTED)
