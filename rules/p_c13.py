"""C13 — send-all batches: agreement of the batcher's arithmetic CBOR size model with the writers' wire tables, and target-address origin."""
import re

import common
import facts
import fieldflow as ff
import hirq as H
import piecewise as pw
from ruleutil import H_short
from e2_all import Inventory, short_ty
from ruleutil import find_fn

EXPLANATION = (
    "The batcher never serialises while it groups UTxOs: it predicts sizes with CborCalculator. The property's validity clauses (max size, "
    "min fee for the real size) rest on that model agreeing with the real writers; the agreement is decided as tables, for all counts and "
    "widths at once: (SIZE-head) get_struct_size is extracted as an exact piecewise table over the whole u64 domain and must equal the CBOR "
    "head-size table (<= 23 -> 1, < 2^8 -> 2, < 2^16 -> 3, < 2^32 -> 5, else 9); get_tag_size / get_coin_size delegate to it and the set "
    "wrapper adds the head of tag 258; (SIZE-wrapped) the body-field table of get_bare_tx_body_size marks exactly the fields whose type is a "
    "set type that E2 sees written with tag 258; (SIZE-arity) the literal arities the model uses (transaction 4, legacy output 2, value 2) are "
    "the array lengths the writers of Transaction, TransactionOutput (no datum / script state) and Value declare; (SIZE-vkey) the fake vkey "
    "witness size constant equals head(2) + bytes(32) + bytes(64) computed from the Vkeywitness writer's shape and the Ed25519 size constants; "
    "(TARGET) every TransactionOutput the batcher builds takes its address from the target address handed to create_send_all (origin slice: "
    "the categorizer's / proposal's address field, filled from the parameter), never from a UTxO or a constructor; (CLASSIFY-all, UNIQUE-input) every supplied UTxO is registered in a work list the batcher drains, "
    "and entries are unique by input - necessary conditions of 'spent exactly once'; (CANCEL) no size accumulator is decreased and "
    "increased by the same function of the same value; (BOOT-size-each) every Byron address prices its own bootstrap witness; (FEE-once, "
    "PESS-full, BATCH-gate) three structural conditions of the fee fixed point and the final funds test, each of which was the cause of "
    "a run-time confirmed imbalance. NOT decided: exact-once coverage as an observed multiset, the balance equation and the min-ADA / fee "
    "fixed points as numbers, the size model's sums over assets - runtime quantities."
)

HEAD_TABLE = [(0, 23, ("const", 1)), (24, 255, ("const", 2)), (256, 65535, ("const", 3)), (65536, (1 << 32) - 1, ("const", 5)), (1 << 32, (1 << 64) - 1, ("const", 9))]


def snake(s):
    return re.sub(r"(?<!^)(?=[A-Z])", "_", s).lower()


def lit_args_of(F, fid, callee_suffix):
    out = []
    for n in H.walk(F.hir[fid]["body"]):
        if n[0] == "call" and (n[2] or "").endswith(callee_suffix) and n[4]:
            out.append(H.lit_int(n[4][0]))
    return out


def _escapes(n):
    """node contains a continue/break that leaves the current iteration (not inside a nested loop/closure)"""
    if not H.is_node(n):
        return False
    if n[0] in ("continue", "break"):
        return True
    if n[0] in ("for", "loop", "closure"):
        return False
    return any(_escapes(c) for c in H.children(n))


def classify_all_rule(rep, F):
    """every iteration of the categorizer's UTxO loop registers the UTxO as spendable: structural must-analysis over the HIR"""
    rep.rule("CLASSIFY-all", "on every path through one iteration of AssetCategorizer::new's loop over the supplied UTxOs (inner loops may run zero times) the UTxO is registered in one of the two work lists the batcher drains (pure-ADA list or UTxO->assets map): no supplied UTxO is left unspent (HIR must-analysis)")
    fid = find_fn(rep, F, "AssetCategorizer::new")
    if not fid:
        return
    body = F.hir[fid]["body"]
    # the two work lists = the locals that initialise the fields drained by has_ada()/has_assets()
    lists = {}
    for n in H.walk(body):
        if n[0] == "struct":
            for f in n[3]:
                if f[0] in ("free_ada_utxos", "free_utxo_to_assets"):
                    lists[f[0]] = H.path_str(H.strip(f[1]))
    if set(lists) != {"free_ada_utxos", "free_utxo_to_assets"} or None in lists.values():
        rep.lost("AssetCategorizer::new no longer initialises free_ada_utxos / free_utxo_to_assets from locals")
        return
    ada, amap = lists["free_ada_utxos"], lists["free_utxo_to_assets"]
    loops = [n for n in H.walk(body) if n[0] == "for" and (H.path_str(H.strip(n[3])) or "").endswith("utxos.0")]
    if len(loops) != 1:
        rep.lost("AssetCategorizer::new: the loop over the supplied UTxOs was not found (%d candidates)" % len(loops))
        return

    def recv(n):
        return H.path_str(H.strip(n[4])) if n[0] == "mcall" else None

    def known(cond):
        """(polarity, True) when cond tests membership of this UTxO in the assets map"""
        c = H.strip(cond)
        neg = False
        while H.is_node(c) and c[0] == "unary" and c[2] == "Not":
            neg = not neg
            c = H.strip(c[3])
        if H.is_node(c) and c[0] == "mcall" and c[2] == "contains_key" and recv(c) == amap:
            return "neg" if neg else "pos"
        if H.is_node(c) and c[0] == "letx":
            v = H.pat_variant(c[2])
            s = H.strip(c[3])
            if v and v.endswith("Some") and H.is_node(s) and s[0] == "mcall" and s[2] in ("get", "get_mut") and recv(s) == amap:
                return "pos"
        return None

    def must(n):
        if not H.is_node(n):
            return False
        k = n[0]
        if k in ("for", "loop", "closure"):
            return False
        if k == "mcall" and ((n[2] == "push" and recv(n) == ada) or (n[2] in ("insert", "entry") and recv(n) == amap)):
            return True
        if k == "block":
            for st in n[2]:
                parts = [st[3], st[4]] if st[0] == "let" else [st[2]]
                for p_ in parts:
                    if p_ is None:
                        continue
                    if must(p_):
                        return True
                    if _escapes(p_):
                        return False
            return must(n[3]) if n[3] is not None else False
        if k == "if":
            if must(n[2]):
                return True
            kn = known(n[2])
            t = must(n[3])
            e = must(n[4]) if n[4] is not None else False
            if kn == "pos":
                return e
            if kn == "neg":
                return t
            return t and e
        if k == "match":
            return must(n[2]) or all(must(a[2]) for a in n[3])
        if k == "binary" and n[2] in ("And", "Or"):
            return must(n[3])
        return any(must(c) for c in H.children(n))

    rep.inst("CLASSIFY-all")
    if not must(loops[0][4]):
        rep.violation("CLASSIFY-all", "AssetCategorizer::new|unregistered-path", "one iteration of the loop over the supplied UTxOs can finish without the UTxO being pushed to `%s` or inserted into `%s` (e.g. a value whose multiasset is present but holds no asset): such a UTxO is counted in the total but never spent by any returned transaction" % (ada, amap), {})


def unique_input_rule(rep, F):
    rep.rule("UNIQUE-input", "between create_send_all's UTxO parameter and the categorizer, entries are made unique by their TransactionInput (a set/map keyed by TransactionInput whose membership result filters or rejects the entry): a UTxO listed twice is spent once")
    n_found = 0
    scanned = 0
    for key in ("builders::tx_batch_builder::create_send_all", "TxBatchBuilder::new", "AssetCategorizer::new"):
        fid = find_fn(rep, F, key)
        if not fid:
            continue
        scanned += 1
        for n in H.walk(F.hir[fid]["body"]):
            if n[0] != "mcall":
                continue
            rty = n[6] or ""
            keyed = re.search(r"(HashSet|BTreeSet|HashMap|BTreeMap)<(&'?\w* ?)?protocol_types::tx_input::TransactionInput", rty)
            if keyed and n[2] in ("insert", "contains", "contains_key", "entry", "get") and n[5]:
                reads_input = any(x[0] == "field" and x[3] == "input" and "TransactionUnspentOutput" in (x[4] or "") for x in H.walk(n[5][0]))
                if reads_input:
                    n_found += 1
            if n[2] in ("dedup_by_key", "dedup_by", "sort_by_key") and n[5] and n[2].startswith("dedup"):
                if any(x[0] == "field" and x[3] == "input" for x in H.walk(n[5][0])):
                    n_found += 1
    if scanned != 3:
        return
    rep.inst("UNIQUE-input")
    if n_found == 0:
        rep.violation("UNIQUE-input", "create_send_all|duplicate-entry", "nothing between create_send_all and AssetCategorizer::new makes the supplied UTxO entries unique by input: an input listed twice is indexed twice, its value is counted twice and the returned transactions pay out more than the distinct UTxOs hold", {})


def fee_model_rules(rep, F):
    """three structural conditions of the batcher's fee fixed point and its final funds test"""
    import mustpass as mp
    from ruleutil import fields_read
    # FEE-once ---------------------------------------------------------------------------------------------------------------
    rep.rule("FEE-once", "the value handed to CborCalculator::estimate_fee as `dependable_amount` (from which the estimator subtracts the candidate fee) is gross of the fee: where it is built from TxProposal::get_unused_ada - which is already net of the stored fee - the stored fee is added back; otherwise every estimate after the first subtracts the fee twice and mis-judges the width of the last output's coin")
    fid = find_fn(rep, F, "AssetCategorizer::estimate_fee")
    gua = find_fn(rep, F, "TxProposal::get_unused_ada")
    rec = find_fn(rep, F, "CborCalculator::recalc_size_with_dependable_value")
    if fid and gua and rec:
        rep.inst("FEE-once")
        net_of_fee = any(f == "fee" for a, f in fields_read(F, gua, depth=1))
        subtracts = any((c.to or "").endswith("BigNum::checked_sub") for c in F.calls(rec))
        if not net_of_fee or not subtracts:
            rep.lost("FEE-once premises changed (get_unused_ada reads fee: %s; estimator subtracts the fee: %s)" % (net_of_fee, subtracts))
        else:
            org = ff.Origins(F, fid)
            fn = F.fns[fid]
            cs = [c for c in F.calls(fid) if (c.to or "").endswith("CborCalculator::estimate_fee")]
            if len(cs) != 1:
                rep.lost("AssetCategorizer::estimate_fee: call of CborCalculator::estimate_fee not found")
            else:
                o = org.of_operand(fn["bbs"][cs[0].bb]["t"][3][2])
                uses_unused = any(x.startswith("call:") and "get_unused_ada" in x for x in o)
                adds_fee = any(x.startswith("call:") and x.split("@")[0].endswith("TxProposal::get_fee") for x in o) or any(x.endswith("TxProposal.fee") for x in o)
                if uses_unused and not adds_fee:
                    rep.violation("FEE-once", "AssetCategorizer::estimate_fee|dependable", "the dependable amount is get_unused_ada() + last output, i.e. net of the fee stored by the previous estimate, and the estimator subtracts the candidate fee again: with one pure-ADA UTxO of 2^32 + 170 000 lovelace the last output's coin is sized for a value below 2^32, the fee is 176 short and the transaction does not balance (every value in 2^32 + 165 281 .. 2^32 + 330 913)", {})
    # PESS-full --------------------------------------------------------------------------------------------------------------
    rep.rule("PESS-full", "the fallback of CborCalculator::estimate_fee (taken when the size fixed point oscillates at a coin-width boundary) is an upper bound of every size the iteration can produce: it adds the widest coin for the fee and, when a dependable value is present, the widest coin for that value too")
    fid = find_fn(rep, F, "CborCalculator::estimate_fee")
    if fid:
        rep.inst("PESS-full")
        fn = F.fns[fid]
        org = ff.Origins(F, fid)
        # the last min_fee_for_size call (after the loop) prices the fallback size
        mf = [c for c in F.calls(fid) if (c.to or "").endswith("min_fee_for_size")]
        loops = [c.bb for c in F.calls(fid) if (c.to or "").endswith("recalc_size_with_dependable_value")]
        if not mf or not loops:
            rep.lost("CborCalculator::estimate_fee: fallback pricing not found")
        else:
            last = max(mf, key=lambda c: c.bb)
            o = org.of_operand(fn["bbs"][last.bb]["t"][3][0])
            n_max = len({x for x in o if x.startswith("call:") and "get_coin_size" in x})
            via_recalc = any(x.startswith("call:") and "recalc_size_with_dependable_value" in x for x in o)
            if n_max < 2 and not via_recalc:
                rep.violation("PESS-full", "CborCalculator::estimate_fee|fallback", "the fallback size adds one maximal coin (the fee) but the iteration also adds the coin of the dependable value: when the fixed point oscillates (last output within one fee of 2^32) the fallback fee is priced for a transaction 9 bytes shorter than the real one - fee 220 lovelace below the minimum for every value in 2^32 + 165 281 .. 2^32 + 165 456", {})
    # BATCH-gate -------------------------------------------------------------------------------------------------------------
    rep.rule("BATCH-gate", "TxBatchBuilder::build keeps a transaction proposal only on the zero edge of get_need_ada() evaluated after the final set_min_ada_for_tx: the final fee and minimum ada are covered by what the inputs hold")
    fid = find_fn(rep, F, "TxBatchBuilder::build")
    if fid:
        rep.inst("BATCH-gate")
        fn = F.fns[fid]
        org = ff.Origins(F, fid)
        pushes = [c for c in F.calls(fid) if (c.to or "").endswith("Vec::<T, A>::push") or (c.to or "").endswith("Vec::<T>::push")]
        pushes = [c for c in pushes if any("TxProposal" in (fn["locals"][int(a[1].split("|")[0][1:])] if a[0] != "k" else "") for a in fn["bbs"][c.bb]["t"][3])]
        finals = [c.bb for c in F.calls(fid) if (c.to or "").endswith("set_min_ada_for_tx")]
        if not pushes or not finals:
            rep.lost("TxBatchBuilder::build: proposal push / final fee pass not found")
        for c in pushes:
            ok = False
            for s_, edge, d in mp.dominating_guards(F, fid, c.bb, org):
                if d["kind"] == "call" and d["callee"].endswith("is_zero") and any("get_need_ada" in x for a in d["args"] for x in a):
                    if (edge != "0") != d["neg"]:
                        nb = [int(x.split("@")[1]) for a in d["args"] for x in a if x.startswith("call:") and "get_need_ada" in x]
                        if nb and all(any(mp.dominated_by(fn, b_, f_) for f_ in finals) for b_ in nb):
                            ok = True
            if not ok:
                rep.violation("BATCH-gate", "TxBatchBuilder::build|push", "a proposal is kept without testing get_need_ada() after the final fee pass: UTxO A = 1.2 ADA + 10 tok, UTxO B = 101 000 lovelace -> create_send_all returns Ok with outputs + fee 1 067 lovelace above the inputs (every B in 100 483 .. 102 066)", {})


def size_head_rule(rep, F, cddl):
    # ---- SIZE-head ----------------------------------------------------------------------------------------------------------
    rep.rule("SIZE-head", "CborCalculator::get_struct_size equals the CBOR head-size table on the whole u64 domain (exact interval comparison); get_tag_size, get_coin_size and get_wrapped_struct_size are built on it (tag 258)")
    fid = find_fn(rep, F, "CborCalculator::get_struct_size")
    if fid:
        rep.inst("SIZE-head")
        try:
            t = pw.table(F, fid)
            if t != HEAD_TABLE:
                rep.violation("SIZE-head", "get_struct_size|%s" % ";".join("%d..%s=%s" % (lo, hi if hi < (1 << 63) else "max", r[1]) for lo, hi, r in t)[:120], "the batcher's head-size model is {%s}; a CBOR head takes {0..23: 1, 24..255: 2, 256..65535: 3, 65536..2^32-1: 5, above: 9} bytes: sizes are mis-predicted at a width boundary" % "; ".join("%d..%s -> %s" % (lo, hi if hi < (1 << 63) else "max", r[1]) for lo, hi, r in t), {})
        except pw.NotPiecewise as e:
            rep.lost("get_struct_size is no longer a piecewise table (%s)" % e)
    for key, must in (("CborCalculator::get_tag_size", "get_struct_size"), ("CborCalculator::get_coin_size", "get_struct_size"), ("CborCalculator::get_wrapped_struct_size", "get_struct_size")):
        f2 = find_fn(rep, F, key)
        if f2:
            rep.inst("SIZE-head")
            if not any((c.to or "").endswith(must) or (c.to or "").endswith("get_tag_size") for c in F.calls(f2)):
                rep.violation("SIZE-head", "%s|delegate" % key, "%s no longer computes its size through %s" % (key, must), {})
    f2 = find_fn(rep, F, "CborCalculator::get_wrapped_struct_size")
    if f2:
        rep.inst("SIZE-head")
        tags = lit_args_of(F, f2, "get_tag_size")
        if tags != [cddl["tags"]["set"]]:
            rep.violation("SIZE-head", "wrapped|tag %s" % tags, "the set wrapper is sized with tag %s, sets are written with tag %d" % (tags, cddl["tags"]["set"]), {})


def check(rep, F, tier, replay=None):
    cddl = common.load_table("conway_cddl.json")
    inv = Inventory(F)
    size_head_rule(rep, F, cddl)
    # ---- SIZE-wrapped -------------------------------------------------------------------------------------------------------
    rep.rule("SIZE-wrapped", "get_bare_tx_body_size treats a body field as tag-258 wrapped exactly when the field's type is one of the set types the writers tag")
    fid = find_fn(rep, F, "CborCalculator::get_bare_tx_body_size")
    TB = [a for a in F.adts if a.endswith("transaction_body::TransactionBody")]
    if fid and len(TB) == 1:
        ftypes = {f["name"]: f["ty"] for f in F.adts[TB[0]]["variants"][0]["fields"]}
        table = {}
        for n in H.walk(F.hir[fid]["body"]):
            if n[0] == "match":
                for pat, g, arm in n[3]:
                    v = H.pat_variant(pat)
                    a = H.strip(arm)
                    if v and "TxBodyNames::" in v and H.is_node(a) and a[0] == "lit" and a[2][0] == "bool":
                        table[v.rsplit("::", 1)[-1]] = (a[2][1] in (True, "true"))
        rep.floor("body fields in the batcher's wrapped table", 17, len(table))
        sets = set(cddl["sets"])
        for var, wrapped in sorted(table.items()):
            rep.inst("SIZE-wrapped")
            fname = snake(var)
            ty = ftypes.get(fname)
            if ty is None:
                rep.lost("TxBodyNames::%s has no TransactionBody field %s (table stale)" % (var, fname))
                continue
            is_set = any(re.search(r"\b%s\b" % s_, ty) for s_ in sets)
            if is_set != wrapped:
                rep.violation("SIZE-wrapped", "%s|%s" % (var, wrapped), "the batcher sizes body field %s as %s but its type %s is %s written with tag 258: every transaction using that field is mis-sized by the 3 bytes of the tag" % (fname, "tag-wrapped" if wrapped else "unwrapped", ty, "" if is_set else "not"), {})
    # ---- SIZE-arity ---------------------------------------------------------------------------------------------------------
    rep.rule("SIZE-arity", "the literal arities of the size model are the array lengths the corresponding writers declare (E2)")
    shorts = {}
    for T, wf in inv.ser.items():
        shorts.setdefault(short_ty(T), []).append(wf)
    for key, ty, pick in (("CborCalculator::get_bare_tx_size", "Transaction", None), ("CborCalculator::get_output_size", "TransactionOutput", "legacy"), ("CborCalculator::get_value_struct_size", "Value", None)):
        f2 = find_fn(rep, F, key)
        if not f2 or len(shorts.get(ty, [])) != 1:
            if f2:
                rep.lost("writer of %s not found" % ty)
            continue
        rep.inst("SIZE-arity")
        lits = [x for x in lit_args_of(F, f2, "get_struct_size") if x is not None]
        r = inv.result(shorts[ty][0])
        lens = sorted({int(c["declared"]) for c in r["containers"] if c["kind"] == "array" and c.get("depth") == 1 and c.get("sid", 0) == 0 and c["declared"].isdigit()})
        if pick == "legacy":
            lens = lens[:1]  # the model describes the output without datum / script: the shortest legacy form
        if not lits or not lens:
            rep.lost("%s: literal arity or writer arity not found (%s / %s)" % (key, lits, lens))
        elif lits[0] not in lens:
            rep.violation("SIZE-arity", "%s|%s" % (key, lits[0]), "%s sizes %s as an array of %d items, its writer declares %s" % (key, ty, lits[0], lens), {})
    # ---- SIZE-vkey ----------------------------------------------------------------------------------------------------------
    rep.rule("SIZE-vkey", "get_fake_vkey_size = head(array 2) + bytes(32) + bytes(64) from the Vkeywitness writer's shape and the Ed25519 size constants")
    f2 = find_fn(rep, F, "CborCalculator::get_fake_vkey_size")
    if f2 and len(shorts.get("Vkeywitness", [])) == 1:
        rep.inst("SIZE-vkey")
        b = H.strip(F.hir[f2]["body"])
        got = None
        for n in H.walk(F.hir[f2]["body"]):
            v = H.lit_int(n)
            if v is not None:
                got = v
        r = inv.result(shorts["Vkeywitness"][0])
        arr = [c for c in r["containers"] if c["kind"] == "array" and c.get("depth") == 1]
        pk = [int(v["val"]) for k, v in F.consts.items() if k.endswith("Ed25519 as chain_crypto::key::AsymmetricPublicKey>::PUBLIC_KEY_SIZE")]
        sg = [int(v["val"]) for k, v in F.consts.items() if k.endswith("Ed25519 as chain_crypto::sign::VerificationAlgorithm>::SIGNATURE_SIZE")]

        def head(n_):
            return [r_[1] for lo, hi, r_ in HEAD_TABLE if lo <= n_ <= hi][0]
        if len(arr) != 1 or len(pk) != 1 or len(sg) != 1 or arr[0]["declared"] != "2":
            rep.lost("Vkeywitness shape / Ed25519 size constants not found")
        else:
            want = head(2) + head(pk[0]) + pk[0] + head(sg[0]) + sg[0]
            if got != want:
                rep.violation("SIZE-vkey", "%s" % got, "the batcher assumes %s bytes per vkey witness; [vkey(%d), signature(%d)] serialises to %d" % (got, pk[0], sg[0], want), {})
    # ---- TARGET -------------------------------------------------------------------------------------------------------------
    rep.rule("TARGET", "every TransactionOutput built by the batcher takes its address from the target address (parameter of create_send_all, stored in the categorizer / output proposals), never from a UTxO or a constructor")
    n_out = 0
    for fid_, fn in F.fns.items():
        if not (fn["file"].startswith("src/builders/batch_tools/") or fn["file"] == "src/builders/tx_batch_builder.rs") or F.is_derived(fid_):
            continue
        org = None
        for c in F.calls(fid_):
            if not (c.to or "").endswith("TransactionOutput::new"):
                continue
            org = org or ff.Origins(F, fid_)
            n_out += 1
            rep.inst("TARGET")
            o = org.of_operand(fn["bbs"][c.bb]["t"][3][0])
            ok = any(x.endswith(".address") and x.startswith("field:") and ("TxOutputProposal" in x or "AssetCategorizer" in x) for x in o) or any(x.startswith("arg:") for x in o) and fid_.rsplit("::", 1)[-1] == "calc_utxo_output_overhead"
            bad = [x for x in o if x.startswith("field:") and ("TransactionUnspentOutput" in x or "TransactionOutput." in x)] + [x for x in o if x.startswith("call:") and ("Address::from" in x or "Address::new" in x)]
            if not ok or bad:
                rep.violation("TARGET", "%s|%s" % (F.key(fid_), ",".join(sorted(bad))[:60]), "%s builds an output whose address does not come from the batch's target address (origins: %s)" % (F.key(fid_), sorted(o)[:5]), {})
    rep.floor("TransactionOutput constructions in the batcher", 2, n_out)
    # the address fields themselves are filled from the create_send_all parameter
    for key in ("builders::tx_batch_builder::create_send_all", "TxBatchBuilder::new"):
        f2 = find_fn(rep, F, key)
        if f2:
            rep.inst("TARGET")
            fn = F.fns[f2]
            org = ff.Origins(F, f2)
            passes = False
            for c in F.calls(f2):
                if (c.to or "").endswith("TxBatchBuilder::new") or (c.to or "").endswith("AssetCategorizer::new"):
                    for a in fn["bbs"][c.bb]["t"][3]:
                        o = org.of_operand(a)
                        if o and all(x.startswith("arg:") for x in o) and ("arg:1" in o or "arg:2" in o):
                            passes = True
            if not passes:
                rep.violation("TARGET", "%s|pass-through" % key, "%s no longer hands its address parameter through unchanged" % key, {})
    from ruleutil import cancel_rule
    cancel_rule(rep, F, ["src/builders/batch_tools/", "src/builders/tx_batch_builder.rs"])
    fee_model_rules(rep, F)
    classify_all_rule(rep, F)
    unique_input_rule(rep, F)
    from ruleutil import arith_unused_rule
    arith_unused_rule(rep, F, ["src/builders/batch_tools/", "src/builders/tx_batch_builder.rs"])
    from ruleutil import batch_total_rule
    batch_total_rule(rep, F)
    from ruleutil import boot_size_real_rule
    boot_size_real_rule(rep, F)
    from ruleutil import boot_size_each_rule
    boot_size_each_rule(rep, F)
    from ruleutil import size_fresh_rule
    size_fresh_rule(rep, F)
    from ruleutil import sib_qty_rule
    sib_qty_rule(rep, F)
    from ruleutil import recalc_all_rule
    recalc_all_rule(rep, F)
    # SAME-list: indices computed on one list are resolved against the same list
    rep.rule("SAME-list", "in create_send_all the UTxO list the categorizer indexes (argument of TxBatchBuilder::new) and the list the proposals' UtxoIndex values are resolved against when the transactions are assembled (argument of TxBatchBuilder::build) are the same value - both originate from the collection that was made unique by input (same origin set): with the caller's list on one side and the de-duplicated one on the other, every index after the first repeated entry points at another UTxO, so inputs and outputs no longer balance and some UTxO is never spent")
    import fieldflow as _ff2
    cs_ids = [f for f in F.fns if f.endswith("tx_batch_builder::create_send_all")]
    if len(cs_ids) != 1:
        rep.lost("create_send_all not found")
    else:
        fn__ = F.fns[cs_ids[0]]
        org__ = _ff2.Origins(F, cs_ids[0])
        new__ = [c for c in F.calls(cs_ids[0]) if (c.to or "").endswith("TxBatchBuilder::new")]
        bld__ = [c for c in F.calls(cs_ids[0]) if (c.to or "").endswith("TxBatchBuilder::build")]
        if len(new__) != 1 or len(bld__) != 1:
            rep.lost("create_send_all: TxBatchBuilder::new / build calls not found")
        else:
            rep.inst("SAME-list")
            strip = lambda o: {x.split("@")[0] for x in o}
            a__ = strip(org__.of_operand(fn__["bbs"][new__[0].bb]["t"][3][0]))
            b__ = strip(org__.of_operand(fn__["bbs"][bld__[0].bb]["t"][3][1]))
            if a__ != b__:
                rep.violation("SAME-list", "create_send_all|%s" % ",".join(sorted(H_short(x) for x in (a__ ^ b__))[:4]), "create_send_all hands TxBatchBuilder::new and TxBatchBuilder::build lists of different origin (only in one of them: %s): the UtxoIndex values of the proposals are positions in the first list and are looked up in the second - after a repeated entry ([A, A, B]) every later input is taken from the wrong position" % sorted(H_short(x) for x in (a__ ^ b__))[:6], {})
    return rep.finish(EXPLANATION, ["the categorizer stores the address parameter unchanged (AssetCategorizer::new / TxOutputProposal::new clone it)"], ["csl-facts driver (HIR/MIR)", "tables/conway_cddl.json (set types, tag 258)", "E2 writer tables"])
