"""C13 — send-all batches: agreement of the batcher's arithmetic CBOR size model with the writers' wire tables, and target-address origin."""
import re

import common
import facts
import fieldflow as ff
import hirq as H
import piecewise as pw
from e2_all import Inventory, short_ty
from ruleutil import find_fn

EXPLANATION = (
    "The batcher never serialises while it groups UTxOs: it predicts sizes with CborCalculator. The property's validity clauses (max size, "
    "min fee for the real size) rest on that model agreeing with the real writers; the agreement is decided as tables, for all counts and "
    "widths at once: (SIZE-head) get_struct_size is extracted as an exact piecewise table over the whole u64 domain and must equal the CBOR "
    "head-size table (<= 23 -> 1, < 2^8 -> 2, < 2^16 -> 3, < 2^32 -> 5, else 9); get_tag_size / get_coin_size delegate to it and the set "
    "wrapper adds the head of tag 258; (SIZE-wrapped) the body-field table of get_bare_tx_body_size marks exactly the fields whose type is a "
    "set type that E2 sees written with tag 258; (SIZE-arity) the literal arities the model uses (transaction 4, legacy output 2, value 2) are "
    "the array lengths the writers of Transaction, TransactionOutput (no datum / script state) and Value declare; (SIZE-vkey) the fake vkey "
    "witness size constant equals head(2) + bytes(32) + bytes(64) computed from the Vkeywitness writer's shape and the Ed25519 size constants; "
    "(TARGET) every TransactionOutput the batcher builds takes its address from the target address handed to create_send_all (origin slice: "
    "the categorizer's / proposal's address field, filled from the parameter), never from a UTxO or a constructor. NOT decided: that every "
    "UTxO is spent exactly once, balance of each transaction, the min-ADA and fee fixed points, and the size model above the level of heads "
    "and arities (sums over assets) - runtime quantities."
)

HEAD_TABLE = [(0, 23, ("const", 1)), (24, 255, ("const", 2)), (256, 65535, ("const", 3)), (65536, (1 << 32) - 1, ("const", 5)), (1 << 32, (1 << 64) - 1, ("const", 9))]


def snake(s):
    return re.sub(r"(?<!^)(?=[A-Z])", "_", s).lower()


def lit_args_of(F, fid, callee_suffix):
    out = []
    for n in H.walk(F.hir[fid]["body"]):
        if n[0] == "call" and (n[2] or "").endswith(callee_suffix) and n[4]:
            out.append(H.lit_int(n[4][0]))
    return out


def check(rep, F, tier, replay=None):
    cddl = common.load_table("conway_cddl.json")
    inv = Inventory(F)
    # ---- SIZE-head ----------------------------------------------------------------------------------------------------------
    rep.rule("SIZE-head", "CborCalculator::get_struct_size equals the CBOR head-size table on the whole u64 domain (exact interval comparison); get_tag_size, get_coin_size and get_wrapped_struct_size are built on it (tag 258)")
    fid = find_fn(rep, F, "CborCalculator::get_struct_size")
    if fid:
        rep.inst("SIZE-head")
        try:
            t = pw.table(F, fid)
            if t != HEAD_TABLE:
                rep.violation("SIZE-head", "get_struct_size|%s" % ";".join("%d..%s=%s" % (lo, hi if hi < (1 << 63) else "max", r[1]) for lo, hi, r in t)[:120], "the batcher's head-size model is {%s}; a CBOR head takes {0..23: 1, 24..255: 2, 256..65535: 3, 65536..2^32-1: 5, above: 9} bytes: sizes are mis-predicted at a width boundary" % "; ".join("%d..%s -> %s" % (lo, hi if hi < (1 << 63) else "max", r[1]) for lo, hi, r in t), {})
        except pw.NotPiecewise as e:
            rep.lost("get_struct_size is no longer a piecewise table (%s)" % e)
    for key, must in (("CborCalculator::get_tag_size", "get_struct_size"), ("CborCalculator::get_coin_size", "get_struct_size"), ("CborCalculator::get_wrapped_struct_size", "get_struct_size")):
        f2 = find_fn(rep, F, key)
        if f2:
            rep.inst("SIZE-head")
            if not any((c.to or "").endswith(must) or (c.to or "").endswith("get_tag_size") for c in F.calls(f2)):
                rep.violation("SIZE-head", "%s|delegate" % key, "%s no longer computes its size through %s" % (key, must), {})
    f2 = find_fn(rep, F, "CborCalculator::get_wrapped_struct_size")
    if f2:
        rep.inst("SIZE-head")
        tags = lit_args_of(F, f2, "get_tag_size")
        if tags != [cddl["tags"]["set"]]:
            rep.violation("SIZE-head", "wrapped|tag %s" % tags, "the set wrapper is sized with tag %s, sets are written with tag %d" % (tags, cddl["tags"]["set"]), {})
    # ---- SIZE-wrapped -------------------------------------------------------------------------------------------------------
    rep.rule("SIZE-wrapped", "get_bare_tx_body_size treats a body field as tag-258 wrapped exactly when the field's type is one of the set types the writers tag")
    fid = find_fn(rep, F, "CborCalculator::get_bare_tx_body_size")
    TB = [a for a in F.adts if a.endswith("transaction_body::TransactionBody")]
    if fid and len(TB) == 1:
        ftypes = {f["name"]: f["ty"] for f in F.adts[TB[0]]["variants"][0]["fields"]}
        table = {}
        for n in H.walk(F.hir[fid]["body"]):
            if n[0] == "match":
                for pat, g, arm in n[3]:
                    v = H.pat_variant(pat)
                    a = H.strip(arm)
                    if v and "TxBodyNames::" in v and H.is_node(a) and a[0] == "lit" and a[2][0] == "bool":
                        table[v.rsplit("::", 1)[-1]] = (a[2][1] in (True, "true"))
        rep.floor("body fields in the batcher's wrapped table", 17, len(table))
        sets = set(cddl["sets"])
        for var, wrapped in sorted(table.items()):
            rep.inst("SIZE-wrapped")
            fname = snake(var)
            ty = ftypes.get(fname)
            if ty is None:
                rep.lost("TxBodyNames::%s has no TransactionBody field %s (table stale)" % (var, fname))
                continue
            is_set = any(re.search(r"\b%s\b" % s_, ty) for s_ in sets)
            if is_set != wrapped:
                rep.violation("SIZE-wrapped", "%s|%s" % (var, wrapped), "the batcher sizes body field %s as %s but its type %s is %s written with tag 258: every transaction using that field is mis-sized by the 3 bytes of the tag" % (fname, "tag-wrapped" if wrapped else "unwrapped", ty, "" if is_set else "not"), {})
    # ---- SIZE-arity ---------------------------------------------------------------------------------------------------------
    rep.rule("SIZE-arity", "the literal arities of the size model are the array lengths the corresponding writers declare (E2)")
    shorts = {}
    for T, wf in inv.ser.items():
        shorts.setdefault(short_ty(T), []).append(wf)
    for key, ty, pick in (("CborCalculator::get_bare_tx_size", "Transaction", None), ("CborCalculator::get_output_size", "TransactionOutput", "legacy"), ("CborCalculator::get_value_struct_size", "Value", None)):
        f2 = find_fn(rep, F, key)
        if not f2 or len(shorts.get(ty, [])) != 1:
            if f2:
                rep.lost("writer of %s not found" % ty)
            continue
        rep.inst("SIZE-arity")
        lits = [x for x in lit_args_of(F, f2, "get_struct_size") if x is not None]
        r = inv.result(shorts[ty][0])
        lens = sorted({int(c["declared"]) for c in r["containers"] if c["kind"] == "array" and c.get("depth") == 1 and c.get("sid", 0) == 0 and c["declared"].isdigit()})
        if pick == "legacy":
            lens = lens[:1]  # the model describes the output without datum / script: the shortest legacy form
        if not lits or not lens:
            rep.lost("%s: literal arity or writer arity not found (%s / %s)" % (key, lits, lens))
        elif lits[0] not in lens:
            rep.violation("SIZE-arity", "%s|%s" % (key, lits[0]), "%s sizes %s as an array of %d items, its writer declares %s" % (key, ty, lits[0], lens), {})
    # ---- SIZE-vkey ----------------------------------------------------------------------------------------------------------
    rep.rule("SIZE-vkey", "get_fake_vkey_size = head(array 2) + bytes(32) + bytes(64) from the Vkeywitness writer's shape and the Ed25519 size constants")
    f2 = find_fn(rep, F, "CborCalculator::get_fake_vkey_size")
    if f2 and len(shorts.get("Vkeywitness", [])) == 1:
        rep.inst("SIZE-vkey")
        b = H.strip(F.hir[f2]["body"])
        got = None
        for n in H.walk(F.hir[f2]["body"]):
            v = H.lit_int(n)
            if v is not None:
                got = v
        r = inv.result(shorts["Vkeywitness"][0])
        arr = [c for c in r["containers"] if c["kind"] == "array" and c.get("depth") == 1]
        pk = [int(v["val"]) for k, v in F.consts.items() if k.endswith("Ed25519 as chain_crypto::key::AsymmetricPublicKey>::PUBLIC_KEY_SIZE")]
        sg = [int(v["val"]) for k, v in F.consts.items() if k.endswith("Ed25519 as chain_crypto::sign::VerificationAlgorithm>::SIGNATURE_SIZE")]

        def head(n_):
            return [r_[1] for lo, hi, r_ in HEAD_TABLE if lo <= n_ <= hi][0]
        if len(arr) != 1 or len(pk) != 1 or len(sg) != 1 or arr[0]["declared"] != "2":
            rep.lost("Vkeywitness shape / Ed25519 size constants not found")
        else:
            want = head(2) + head(pk[0]) + pk[0] + head(sg[0]) + sg[0]
            if got != want:
                rep.violation("SIZE-vkey", "%s" % got, "the batcher assumes %s bytes per vkey witness; [vkey(%d), signature(%d)] serialises to %d" % (got, pk[0], sg[0], want), {})
    # ---- TARGET -------------------------------------------------------------------------------------------------------------
    rep.rule("TARGET", "every TransactionOutput built by the batcher takes its address from the target address (parameter of create_send_all, stored in the categorizer / output proposals), never from a UTxO or a constructor")
    n_out = 0
    for fid_, fn in F.fns.items():
        if not (fn["file"].startswith("src/builders/batch_tools/") or fn["file"] == "src/builders/tx_batch_builder.rs") or F.is_derived(fid_):
            continue
        org = None
        for c in F.calls(fid_):
            if not (c.to or "").endswith("TransactionOutput::new"):
                continue
            org = org or ff.Origins(F, fid_)
            n_out += 1
            rep.inst("TARGET")
            o = org.of_operand(fn["bbs"][c.bb]["t"][3][0])
            ok = any(x.endswith(".address") and x.startswith("field:") and ("TxOutputProposal" in x or "AssetCategorizer" in x) for x in o) or any(x.startswith("arg:") for x in o) and fid_.rsplit("::", 1)[-1] == "calc_utxo_output_overhead"
            bad = [x for x in o if x.startswith("field:") and ("TransactionUnspentOutput" in x or "TransactionOutput." in x)] + [x for x in o if x.startswith("call:") and ("Address::from" in x or "Address::new" in x)]
            if not ok or bad:
                rep.violation("TARGET", "%s|%s" % (F.key(fid_), ",".join(sorted(bad))[:60]), "%s builds an output whose address does not come from the batch's target address (origins: %s)" % (F.key(fid_), sorted(o)[:5]), {})
    rep.floor("TransactionOutput constructions in the batcher", 2, n_out)
    # the address fields themselves are filled from the create_send_all parameter
    for key in ("builders::tx_batch_builder::create_send_all", "TxBatchBuilder::new"):
        f2 = find_fn(rep, F, key)
        if f2:
            rep.inst("TARGET")
            fn = F.fns[f2]
            org = ff.Origins(F, f2)
            passes = False
            for c in F.calls(f2):
                if (c.to or "").endswith("TxBatchBuilder::new") or (c.to or "").endswith("AssetCategorizer::new"):
                    for a in fn["bbs"][c.bb]["t"][3]:
                        o = org.of_operand(a)
                        if o and all(x.startswith("arg:") for x in o) and ("arg:1" in o or "arg:2" in o):
                            passes = True
            if not passes:
                rep.violation("TARGET", "%s|pass-through" % key, "%s no longer hands its address parameter through unchanged" % key, {})
    from ruleutil import arith_unused_rule
    arith_unused_rule(rep, F, ["src/builders/batch_tools/", "src/builders/tx_batch_builder.rs"])
    from ruleutil import batch_total_rule
    batch_total_rule(rep, F)
    return rep.finish(EXPLANATION, ["the categorizer stores the address parameter unchanged (AssetCategorizer::new / TxOutputProposal::new clone it)"], ["csl-facts driver (HIR/MIR)", "tables/conway_cddl.json (set types, tag 258)", "E2 writer tables"])
