"""Classification of external callees as panic-capable.

Sources, in order:
  1. the panic family itself (by resolved path);
  2. the `# Panics` section of the rustdoc block directly above the callee's definition, read from the installed
     rust-src / vendored registry sources at the file:line the compiler reports (no name table, cannot drift);
  3. a short hand list for what rustdoc does not say (Index impls, #[rustc_inherit_overflow_checks] integer methods);
  4. tables/dep_model.json for third-party crates.
Panics documented only for capacity / allocation limits are classed `resource` (assumption: memory exhaustion is
out of scope)."""
import json
import re
from pathlib import Path

VERIF = Path(__file__).resolve().parent.parent

PANIC_FAMILY = re.compile(
    r"^(core::panicking::|std::rt::begin_panic|std::rt::panic|core::option::(unwrap_failed|expect_failed)|"
    r"core::result::unwrap_failed|core::slice::index::slice_|core::str::slice_error_fail|std::process::(abort|exit)|"
    r"core::intrinsics::abort|std::intrinsics::abort|core::panic::|std::panic::panic_any|core::cell::panic_)"
)
UNWRAP_FAMILY = re.compile(
    r"^std::(option::Option::<T>::(unwrap|expect)|result::Result::<T, E>::(unwrap|expect|unwrap_err|expect_err))$"
)
INDEX_IMPL = re.compile(r"(std::ops::Index(Mut)?<.*>>::index(_mut)?$)|(impl std::ops::Index(Mut)?<.*> for .*>::index(_mut)?$)")
INHERIT_OVERFLOW = re.compile(r"^core::num::<impl [iu](8|16|32|64|128|size)>::(abs|pow|neg|next_power_of_two|isqrt|ilog|ilog2|ilog10|div_euclid|rem_euclid|abs_diff)$")
ARITH_TRAIT_ON_INT = re.compile(r"^<[iu&](8|16|32|64|128|size|[iu]\d+).* as std::ops::(Add|Sub|Mul|Div|Rem|Neg|Shl|Shr).*>::")
RESOURCE = re.compile(r"capacity (exceeds|overflow)|isize::MAX|usize::MAX|overflows? an? \[?`?usize|allocat|out of memory", re.I)

_doc_cache = {}


def _doc_above(file, line):
    key = (file, line)
    if key in _doc_cache:
        return _doc_cache[key]
    try:
        L = _lines(file)
    except OSError:
        _doc_cache[key] = None
        return None
    i = line - 2
    doc = []
    while i >= 0:
        s = L[i].strip()
        if s.startswith("///"):
            doc.append(s[3:])
        elif s.startswith("#[") or s.startswith("//") or s.startswith("#!"):
            pass
        elif not doc and (s.endswith("]") or s.endswith(",") or s.endswith(")") or re.match(r"^(reason|feature|issue|since|note|not\(|any\(|all\()", s)):
            pass  # inside a multi-line attribute
        else:
            break
        i -= 1
    doc.reverse()
    _doc_cache[key] = doc
    return doc


_file_cache = {}


def _lines(file):
    if file not in _file_cache:
        _file_cache[file] = open(file, errors="replace").read().split("\n")
    return _file_cache[file]


def documented_panic(file, line):
    """Returns the text of the `# Panics` section or '' / None (no source)."""
    if not file or not line:
        return None
    doc = _doc_above(file, line)
    if doc is None:
        return None
    txt = "\n".join(doc)
    m = re.search(r"#+\s*Panics\s*\n(.*?)(\n\s*#|\Z)", txt, re.S)
    if not m:
        return ""
    return " ".join(m.group(1).split())


_dep_model = None


def dep_model():
    global _dep_model
    if _dep_model is None:
        p = VERIF / "tables" / "dep_model.json"
        _dep_model = json.loads(p.read_text()) if p.exists() else {"panics": {}, "total": {}}
    return _dep_model


def classify(to, info):
    """-> (cls, reason) with cls in {'panic','resource',None}"""
    if PANIC_FAMILY.match(to):
        return "panic", "panic primitive"
    if UNWRAP_FAMILY.match(to):
        return "panic", "unwrap/expect"
    dm = dep_model()
    if to in dm.get("total", {}):
        return None, dm["total"][to]
    if to in dm.get("panics", {}):
        return "panic", "dependency model: " + dm["panics"][to]
    if to in dm.get("alloc_declared", {}):
        return "alloc", "dependency model: " + dm["alloc_declared"][to]
    if INDEX_IMPL.search(to):
        return "panic", "Index/IndexMut impl panics when out of range / key missing"
    if INHERIT_OVERFLOW.match(to):
        return "panic", "integer method with inherited overflow checks"
    d = documented_panic(info.get("df"), info.get("dl"))
    if d:
        if RESOURCE.search(d) and not re.search(r"out of bounds|different lengths|is zero|`None`|`Err`", d):
            return "resource", d[:160]
        return "panic", "documented: " + d[:200]
    return None, ""
