"""E2 readers: key -> local -> field tables of record-map readers (`match raw.unsigned_integer()? { K => ... }`), from HIR."""
import hirq as H


def _peel(n):
    n = H.strip(n)
    while H.is_node(n) and n[0] == "try":
        n = H.strip(n[2])
    return n


def reader_table(F, fid):
    """-> dict(keys={k: {...}}, mandatory=set, finish=bool, upfront=int|None, struct={field: local}, ty) or None if no key match found"""
    h = F.hir.get(fid)
    if h is None:
        return None
    body = h["body"]
    matches = []
    for n in H.walk(body):
        if n[0] == "match":
            sc = _peel(n[2])
            if H.is_node(sc) and sc[0] == "mcall" and sc[2] == "unsigned_integer":
                matches.append(n)
    if not matches:
        return None
    out = {"keys": {}, "mandatory": set(), "finish": False, "upfront": None, "struct": {}, "struct_ty": None, "unknown_key_err": False}
    for m in matches:
        for pat, g, arm in m[3]:
            alts = H.pat_alternatives(pat)
            lits = [int(a[1][1]) for a in alts if a and a[0] == "plit" and a[1][0] == "int"]
            if not lits:
                if "UnknownKey" in str(arm):
                    out["unknown_key_err"] = True
                continue
            for k in lits:
                e = {"local": None, "type": None, "read_elems": 0, "dup_check": False, "line": m[1]}
                for x in H.walk(arm):
                    if x[0] == "assign":
                        lhs = H.path_str(x[2])
                        rhs = _peel(x[3])
                        if lhs and "." not in lhs and H.is_node(rhs) and rhs[0] == "call" and (rhs[2] or "").endswith("Some"):
                            e["local"] = e["local"] or lhs
                    if x[0] == "mcall" and x[2] == "read_elems":
                        v = H.lit_int(x[5][0]) if x[5] else None
                        e["read_elems"] += v or 0
                    if x[0] == "call" and (x[2] or "").rsplit("::", 1)[-1] in ("deserialize", "deserialize_with_version", "deserialize_nullable") and e["type"] is None:
                        c = x[2]
                        e["type"] = F.key(c).split(" as ")[0].lstrip("<") if c in F.fns else c
                    if x[0] == "call" and (x[2] or "").startswith("ctor:") and x[2].rsplit("::", 1)[-1] not in ("Ok", "Some", "Err") and "Failure" not in x[2] and "Error" not in x[2] and "Key::" not in x[2]:
                        e.setdefault("ctors", []).append(x[2][5:])
                    if x[0] == "path" and isinstance(x[2], list) and x[2][0] == "def" and x[2][1] == "Ctor" and "Failure" not in str(x[2][2]) and "CBORSpecial" not in str(x[2][2]) and "cbor_event" not in str(x[2][2]):
                        e.setdefault("unit_ctors", []).append(x[2][2])
                    if x[0] == "if" and "DuplicateKey" in str(x[3]):
                        e["dup_check"] = True
                    if x[0] == "call" and (x[2] or "").endswith("DuplicateKey"):
                        for y in H.walk(x):
                            v = H.lit_int(y)
                            if v is not None and v != k:
                                e["dup_key_literal"] = v
                out["keys"][k] = e
    for n in H.walk(body):
        if n[0] == "mcall" and n[2] == "finish" and "read_len" in (H.path_str(n[4]) or ""):
            out["finish"] = True
        if n[0] == "mcall" and n[2] == "array" and H.path_str(H.strip(n[4])) in ("raw", "deserializer"):
            out["has_array"] = True
        if n[0] == "call" and (n[2] or "").endswith("MandatoryFieldMissing"):
            for y in H.walk(n):
                v = H.lit_int(y)
                if v is not None:
                    out["mandatory"].add(v)
        if n[0] == "struct" and n[2][0] in ("selfty", "def") and len(n[3]) >= 2:
            fields = {f[0]: H.path_str(f[1]) for f in n[3]}
            if sum(1 for v in fields.values() if v) >= len(fields) // 2 and len(fields) > len(out["struct"]):
                out["struct"] = fields
                out["struct_ty"] = n[5]
    # read_elems up front (outside the key match)
    total = 0
    inner = set()
    for m in matches:
        for x in H.walk(m):
            if x[0] == "mcall" and x[2] == "read_elems":
                inner.add(id(x))
    for n in H.walk(body):
        if n[0] == "mcall" and n[2] == "read_elems" and id(n) not in inner:
            v = H.lit_int(n[5][0]) if n[5] else None
            total += v or 0
    out["upfront"] = total
    # mandatory via `match local { Some(x) => x, None => return Err(MandatoryFieldMissing(k)) }` already covered
    return out


RAW_PRIMS = {"unsigned_integer", "negative_integer", "bytes", "text", "bool", "special", "float", "array", "map", "tag", "cbor_type"}


def _mentions_raw(n):
    for x in H.walk(n):
        if x[0] == "path" and H.path_str(x) in ("raw", "deserializer", "reader"):
            return True
    return False


def _lets(body):
    """let statements in source order (pre-order over blocks, closures included)"""
    out = []

    def rec(n):
        if not H.is_node(n):
            return
        if n[0] == "block":
            for st in n[2]:
                if st[0] == "let":
                    out.append(st)
                    if st[3] is not None:
                        rec(st[3])
                    if st[4] is not None:
                        rec(st[4])
                else:
                    rec(st[2])
            if n[3] is not None:
                rec(n[3])
            return
        for c in H.children(n):
            rec(c)

    rec(body)
    return out


def array_reader(F, fid):
    """facts about a fixed-shape (array / embedded group) reader:
    lens        literal lengths handed to check_len
    read_elems  literals handed to CBORReadLen::read_elems (in source order)
    order       [(local, first raw-consuming callee short name)] for every `let local = <expr reading from raw>`
    struct      {field: local} of the value the reader builds (largest struct literal), struct_ty
    index_refs  enum-variant paths `XIndexNames::V` referenced
    """
    h = F.hir.get(fid)
    if h is None:
        return None
    body = h["body"]
    out = {"lens": [], "read_elems": [], "order": [], "struct": {}, "struct_ty": None, "index_refs": set(), "finish": False, "ctor": None}
    for n in H.walk(body):
        if n[0] == "call" and (n[2] or "").endswith("::check_len"):
            out["lens"].append(H.lit_int(n[4][1]))
        if n[0] == "mcall" and n[2] == "read_elems":
            out["read_elems"].append(H.lit_int(n[5][0]) if n[5] else None)
        if n[0] == "mcall" and n[2] == "finish":
            out["finish"] = True
        if n[0] == "path" and isinstance(n[2], list) and n[2][0] == "def" and "IndexNames::" in str(n[2][2]):
            out["index_refs"].add(n[2][2].split("IndexNames::")[-1])
        if n[0] == "struct" and len(n[3]) >= 1:
            fields = {f[0]: H.path_str(f[1]) for f in n[3]}
            if all(v and "." not in v for v in fields.values()) and len(fields) > len(out["struct"]):
                out["struct"] = fields
                out["struct_ty"] = n[5] if len(n) > 5 else None
    for st in _lets(body):
        names = H.pat_bindings(st[2])
        if not names or st[3] is None or not _mentions_raw(st[3]):
            continue
        first = None
        for x in H.walk(st[3]):
            if x[0] == "call" and x[4] and not (x[2] or "").startswith("ctor:") and any(H.path_str(H.strip(a)) in ("raw", "deserializer", "reader") for a in x[4]):
                first = x[2]
                break
            if x[0] == "mcall" and x[2] in RAW_PRIMS and _mentions_raw(x[4]):
                first = "raw." + x[2]
                break
        if first is None:
            continue
        out["order"].append((names, first))
    return out


def delegates(F, fid):
    """crate-local callees of a reader that receive the raw deserializer (the functions a thin reader forwards to)"""
    h = F.hir.get(fid)
    out = []
    if h is None:
        return out
    for x in H.walk(h["body"]):
        if x[0] == "call" and x[2] in F.hir and x[2] != fid and any(H.path_str(H.strip(a)) in ("raw", "deserializer", "reader") for a in x[4]):
            if x[2] not in out:
                out.append(x[2])
    return out
