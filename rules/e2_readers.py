"""E2 readers: key -> local -> field tables of record-map readers (`match raw.unsigned_integer()? { K => ... }`), from HIR."""
import hirq as H


def _peel(n):
    n = H.strip(n)
    while H.is_node(n) and n[0] == "try":
        n = H.strip(n[2])
    return n


def reader_table(F, fid):
    """-> dict(keys={k: {...}}, mandatory=set, finish=bool, upfront=int|None, struct={field: local}, ty) or None if no key match found"""
    h = F.hir.get(fid)
    if h is None:
        return None
    body = h["body"]
    matches = []
    for n in H.walk(body):
        if n[0] == "match":
            sc = _peel(n[2])
            if H.is_node(sc) and sc[0] == "mcall" and sc[2] == "unsigned_integer":
                matches.append(n)
    if not matches:
        return None
    out = {"keys": {}, "mandatory": set(), "finish": False, "upfront": None, "struct": {}, "struct_ty": None, "unknown_key_err": False}
    for m in matches:
        for pat, g, arm in m[3]:
            alts = H.pat_alternatives(pat)
            lits = [int(a[1][1]) for a in alts if a and a[0] == "plit" and a[1][0] == "int"]
            if not lits:
                if "UnknownKey" in str(arm):
                    out["unknown_key_err"] = True
                continue
            for k in lits:
                e = {"local": None, "type": None, "read_elems": 0, "dup_check": False, "line": m[1]}
                for x in H.walk(arm):
                    if x[0] == "assign":
                        lhs = H.path_str(x[2])
                        rhs = _peel(x[3])
                        if lhs and "." not in lhs and H.is_node(rhs) and rhs[0] == "call" and (rhs[2] or "").endswith("Some"):
                            e["local"] = e["local"] or lhs
                    if x[0] == "mcall" and x[2] == "read_elems":
                        v = H.lit_int(x[5][0]) if x[5] else None
                        e["read_elems"] += v or 0
                    if x[0] == "call" and (x[2] or "").rsplit("::", 1)[-1] in ("deserialize", "deserialize_with_version", "deserialize_nullable") and e["type"] is None:
                        c = x[2]
                        e["type"] = F.key(c).split(" as ")[0].lstrip("<") if c in F.fns else c
                    if x[0] == "if" and "DuplicateKey" in str(x[3]):
                        e["dup_check"] = True
                    if x[0] == "call" and (x[2] or "").endswith("DuplicateKey"):
                        for y in H.walk(x):
                            v = H.lit_int(y)
                            if v is not None and v != k:
                                e["dup_key_literal"] = v
                out["keys"][k] = e
    for n in H.walk(body):
        if n[0] == "mcall" and n[2] == "finish" and "read_len" in (H.path_str(n[4]) or ""):
            out["finish"] = True
        if n[0] == "call" and (n[2] or "").endswith("MandatoryFieldMissing"):
            for y in H.walk(n):
                v = H.lit_int(y)
                if v is not None:
                    out["mandatory"].add(v)
        if n[0] == "struct" and n[2][0] in ("selfty", "def") and len(n[3]) >= 2:
            fields = {f[0]: H.path_str(f[1]) for f in n[3]}
            if sum(1 for v in fields.values() if v) >= len(fields) // 2 and len(fields) > len(out["struct"]):
                out["struct"] = fields
                out["struct_ty"] = n[5]
    # read_elems up front (outside the key match)
    total = 0
    inner = set()
    for m in matches:
        for x in H.walk(m):
            if x[0] == "mcall" and x[2] == "read_elems":
                inner.add(id(x))
    for n in H.walk(body):
        if n[0] == "mcall" and n[2] == "read_elems" and id(n) not in inner:
            v = H.lit_int(n[5][0]) if n[5] else None
            total += v or 0
    out["upfront"] = total
    # mandatory via `match local { Some(x) => x, None => return Err(MandatoryFieldMissing(k)) }` already covered
    return out
