"""Flow-sensitive must-flow ("is derived from") analysis on MIR, intraprocedural.

Question decided: on EVERY path from a source (a call site, or a function argument) to a normal return that returns
a success value, is the returned value derived from the source's value?  A dropped term, an overwritten accumulator
(`total = b` instead of `total = total + b`) or a result computed and then ignored all make the answer "no" on some path.

State = set of places that MUST hold a value derived from the source (intersection at joins, fixpoint over loops).
Transfer: an assignment taints its destination iff some operand place is tainted (or is a prefix / extension of a tainted
place); otherwise it un-taints it (kill).  A call taints its destination iff some argument is tainted, and taints the
place behind a `&mut` first argument when another argument is tainted (mutating method).  References are followed through
a points-to map of single-assignment `&`/`&mut` temporaries.  No values, no solver: only def-use over the CFG.
"""
from collections import defaultdict

from facts import const_int


def _op_place(op):
    return op[1] if op and op[0] in ("c", "m") else None


def _is_prefix(a, b):
    """place a is a (segment-wise) prefix of place b, or equal"""
    return b == a or b.startswith(a + "|")


class FnFlow:
    def __init__(self, F, fid):
        self.F = F
        self.fid = fid
        self.fn = F.fns[fid]
        self.bbs = self.fn["bbs"]
        self.n = len(self.bbs)
        # points-to for reference temporaries with a single `= &place` definition
        self.ref_of = {}
        cnt = defaultdict(int)
        for bb in self.bbs:
            for st in bb["st"]:
                if st[1] == "=":
                    cnt[st[2]] += 1
            t = bb["t"]
            if t[1] == "call":
                cnt[t[4]] += 1
        for bb in self.bbs:
            for st in bb["st"]:
                if st[1] == "=" and st[3][0] in ("ref", "rawptr") and cnt[st[2]] == 1 and "|" not in st[2]:
                    self.ref_of[st[2]] = st[3][2]
        # copies of reference temporaries: _8 = copy _7 / move _7 / deref-copy
        changed = True
        while changed:
            changed = False
            for bb in self.bbs:
                for st in bb["st"]:
                    if st[1] == "=" and cnt[st[2]] == 1 and "|" not in st[2] and st[2] not in self.ref_of:
                        rv = st[3]
                        src = None
                        if rv[0] == "use":
                            src = _op_place(rv[1])
                        elif rv[0] == "deref":
                            src = rv[1]
                        if src in self.ref_of:
                            self.ref_of[st[2]] = self.ref_of[src]
                            changed = True

    # -- place normalisation: (*_r).f  ->  target(_r).f ------------------------------------------
    def norm(self, pl):
        for _ in range(6):
            parts = pl.split("|")
            if len(parts) >= 2 and parts[1] == "*" and parts[0] in self.ref_of:
                pl = "|".join([self.ref_of[parts[0]]] + parts[2:])
            else:
                break
        return pl

    def tainted(self, state, pl):
        if pl is None:
            return False
        raw = pl
        pl = self.norm(pl)
        for t in state:
            if _is_prefix(t, pl) or _is_prefix(pl, t) or _is_prefix(t, raw):
                return True
        # a reference temp whose target is tainted
        base = pl.split("|")[0]
        if base in self.ref_of and pl == base:
            tgt = self.norm(self.ref_of[base])
            for t in state:
                if _is_prefix(t, tgt) or _is_prefix(tgt, t):
                    return True
        return False

    def op_tainted(self, state, op):
        return self.tainted(state, _op_place(op))

    def _kill(self, state, pl):
        pl = self.norm(pl)
        return {t for t in state if not _is_prefix(pl, t)}

    def rv_ops(self, rv):
        k = rv[0]
        if k in ("use", "repeat"):
            return [rv[1]]
        if k in ("ref", "rawptr"):
            return [["c", rv[2]]]
        if k == "cast":
            return [rv[2]]
        if k == "bin":
            return [rv[2], rv[3]]
        if k == "un":
            return [rv[2]]
        if k in ("discr", "deref"):
            return [["c", rv[1]]]
        if k == "agg":
            return list(rv[4])
        return []

    def transfer_block(self, state, bi, src_site=None):
        """returns (state_out_normal_successors, list of (_0 assignment events))"""
        state = set(state)
        bb = self.bbs[bi]
        for si, st in enumerate(bb["st"]):
            if st[1] != "=":
                continue
            dest, rv = st[2], st[3]
            is_t = any(self.op_tainted(state, o) for o in self.rv_ops(rv))
            if getattr(self, "_stmt_src", None) == (bi, si):
                is_t = True
            nd = self.norm(dest)
            state = self._kill(state, nd)
            if is_t:
                state.add(nd)
        t = bb["t"]
        if t[1] == "call":
            args = t[3]
            dest = t[4]
            if src_site is not None and src_site == ("call", bi):
                state = self._kill(state, dest)
                state.add(self.norm(dest))
                # a mutating source (`x.add(..)`, `x.extend(..)`): what it wrote into its receiver is the value of interest
                if args:
                    p0 = _op_place(args[0])
                    if p0 and p0 in self.ref_of and self._is_mut_ref(p0):
                        state.add(self.norm(self.ref_of[p0]))
                return state
            any_t = any(self.op_tainted(state, a) for a in args)
            nd = self.norm(dest)
            state = self._kill(state, nd)
            if any_t:
                state.add(nd)
                # mutating method: first argument is a &mut place
                if args:
                    p0 = _op_place(args[0])
                    if p0 and p0 in self.ref_of and self._is_mut_ref(p0):
                        state.add(self.norm(self.ref_of[p0]))
        return state

    def _is_mut_ref(self, local):
        try:
            idx = int(local[1:])
        except ValueError:
            return False
        ty = self.fn["locals"][idx]
        return ty.startswith("&mut ") or (ty.startswith("&") and " mut " in ty.split(" ", 2)[1:2])

    def succs(self, bi):
        return self.F.succ(self.fn, bi, with_unwind=False)

    def run(self, source, sink=None):
        """source = ('call', bb) | ('arg', k) | ('stmt', bb, si).  sink = None (success stores to _0) or ('callargs', bb).
        Returns list of result dicts {'bb':..,'ok':bool,'kind':..,'loc':..}"""
        IN = {}
        self._stmt_src = None
        if source[0] == "call":
            start = source[1]
            init = set()
        elif source[0] == "stmt":
            start = source[1]
            init = set()
            self._stmt_src = (source[1], source[2])
        else:
            start = 0
            init = {"_%d" % source[1]}
        work = [start]
        IN[start] = init
        OUT = {}
        iters = 0
        while work:
            iters += 1
            if iters > 20000:
                break
            b = work.pop()
            if self.bbs[b]["c"]:
                continue
            out = self.transfer_block(IN[b], b, source if source[0] == "call" else None)
            if b in OUT and OUT[b] == out:
                continue
            OUT[b] = out
            for s in self.succs(b):
                if s is None or self.bbs[s]["c"]:
                    continue
                if s not in IN:
                    IN[s] = set(out)
                    work.append(s)
                else:
                    new = IN[s] & out
                    if new != IN[s]:
                        IN[s] = new
                        work.append(s)
                    elif s not in OUT:
                        work.append(s)
        results = []
        if sink is not None and sink[0] == "callargs":
            b = sink[1]
            if b not in IN:
                return []
            state = set(IN[b])
            # replay statements of the block
            tmp = FnFlow.__new__(FnFlow)
            tmp.__dict__.update(self.__dict__)
            bbk = self.bbs[b]
            saved_t = bbk["t"]
            st_state = set(state)
            for si, st in enumerate(bbk["st"]):
                if st[1] != "=":
                    continue
                dest, rv = st[2], st[3]
                is_t = any(self.op_tainted(st_state, o) for o in self.rv_ops(rv))
                nd = self.norm(dest)
                st_state = self._kill(st_state, nd)
                if is_t:
                    st_state.add(nd)
            ok = any(self.op_tainted(st_state, a) for a in saved_t[3])
            return [{"bb": b, "ok": ok, "kind": "callargs", "loc": saved_t[0]}]
        # evaluate every store to _0 in blocks reached
        for b in sorted(IN):
            if self.bbs[b]["c"]:
                continue
            state = set(IN[b])
            bb = self.bbs[b]
            for st in bb["st"]:
                if st[1] != "=":
                    continue
                dest, rv = st[2], st[3]
                if dest == "_0" or dest.startswith("_0|"):
                    cls = self.classify_store(rv)
                    if cls != "err":
                        ok = any(self.op_tainted(state, o) for o in self.rv_ops(rv))
                        results.append({"bb": b, "ok": ok, "kind": cls, "loc": st[0]})
                is_t = any(self.op_tainted(state, o) for o in self.rv_ops(rv))
                nd = self.norm(dest)
                state = self._kill(state, nd)
                if is_t:
                    state.add(nd)
            t = bb["t"]
            if t[1] in ("call", "tailcall") and (t[1] == "tailcall" or t[4] == "_0"):
                to = t[2].get("to") or ""
                if "FromResidual" in to or to.endswith("from_residual"):
                    continue
                if source[0] == "call" and b == source[1]:
                    results.append({"bb": b, "ok": True, "kind": "source-is-return", "loc": t[0]})
                    continue
                ok = any(self.op_tainted(state, a) for a in t[3])
                results.append({"bb": b, "ok": ok, "kind": "call:" + to, "loc": t[0]})
        return results

    @staticmethod
    def classify_store(rv):
        if rv[0] == "agg" and rv[1] == "adt":
            if rv[2].endswith("result::Result") and rv[3] == "Err":
                return "err"
            if rv[2].endswith("result::Result") and rv[3] == "Ok":
                return "ok"
            return "agg"
        return rv[0]


def find_calls(F, fid, callee_pred):
    """call sites (bb) in fid whose resolved callee key/path satisfies callee_pred"""
    out = []
    for c in F.calls(fid):
        to = c.to or ""
        if callee_pred(to, c):
            out.append(c)
    return out
