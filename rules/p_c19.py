"""C19 — collateral return and total collateral are consistent and sufficient (gates, cleanup, formula shape; clamping subtraction flagged)."""
import common
import facts
import fieldflow as ff
import hirq as H
import mustpass as mp
from mustpass import call_origin, field_origin, has_origin
from ruleutil import find_fn, raw_amount_ops

TB = "builders::tx_builder::TransactionBuilder"

EXPLANATION = (
    "Shape rules on the three collateral setters, for all collateral sets, returns, totals and percentages: (GATE) in "
    "set_collateral_return_and_total the two fields are stored only after the asset-free test of inputs - return and the "
    "min-ADA comparison of the return output passed, and the total is the coin of that difference; in "
    "set_total_collateral_and_return the return is stored only after `inputs coin >= total` and the min-ADA comparison passed, the "
    "decision whether a return output is needed reads both the coin and the multiasset of the remainder, and the return value is "
    "inputs - total; (CLEAN) in the percentage helper every error exit after the placeholder was set is dominated by both "
    "remove_collateral_return and remove_total_collateral, and the placeholder is removed before the result of balancing is "
    "examined; (FORMULA) required collateral = fee.checked_mul(pct).div_floor(100).checked_add(1) computed from get_fee_if_set; "
    "(SUB) the differences are taken with Value::checked_sub, whose asset part clamps instead of failing - a saturating "
    "subtraction in an equation context, reported as a known finding with a concrete scenario. Not decided: the equation on whole "
    "values as a numeric fact."
)


def stores_of(F, fid, field):
    """blocks where TransactionBuilder.<field> is stored, directly or through the dedicated setter"""
    ffs = ff.FnFields(F, fid)
    fn = F.fns[fid]
    blocks = []
    for s in ffs.stores_to(TB, field):
        rv = s[4]
        for _ in range(3):
            if isinstance(rv, list) and rv[0] == "use" and rv[1][0] in ("c", "m"):
                ds = [st[3] for bb in fn["bbs"] for st in bb["st"] if st[1] == "=" and st[2] == rv[1][1]]
                if len(ds) == 1:
                    rv = ds[0]
                    continue
            break
        blocks.append((s[2], "clear" if isinstance(rv, list) and rv[0] == "agg" and rv[3] == "None" else "store"))
    setter = {"collateral_return": "TransactionBuilder::set_collateral_return", "total_collateral": "TransactionBuilder::set_total_collateral"}[field]
    for c in F.calls(fid):
        if (c.to or "").endswith(setter.split("TransactionBuilder")[1]) and "builders::tx_builder::TransactionBuilder" in (c.to or ""):
            blocks.append((c.bb, "setter"))
    return blocks


def guard_summary(guards):
    return [(g[1], (g[2].get("op") or g[2].get("callee") or g[2]["kind"])) for g in guards]


def same_output_rule(rep, F):
    # SAME-output: the output whose minimum ADA is tested is the output that is stored
    rep.rule("SAME-output", "in both collateral setters the argument of min_ada_for_output and the value stored as collateral_return are the same output object (same constructor call, or both the caller's argument): testing a rebuilt copy (address + amount only) ignores a datum or reference script that the stored output carries")
    n_so = 0
    for nm_ in ("TransactionBuilder::set_collateral_return_and_total", "TransactionBuilder::set_total_collateral_and_return"):
        fid_ = find_fn(rep, F, nm_)
        if not fid_:
            continue
        fn_ = F.fns[fid_]
        org_ = ff.Origins(F, fid_)
        mc_ = [c for c in F.calls(fid_) if (c.to or "").endswith("min_ada_for_output")]
        st_bbs = [(bi, how) for bi, how in stores_of(F, fid_, "collateral_return") if how != "clear"]
        o1 = None
        if not mc_:
            # one level of wrapper: a helper of the crate that returns min_ada_for_output(..) of an output it is given or builds
            deep_ = mp.call_origin_deep(F, "min_ada_for_output")
            for hc in F.calls(fid_):
                h = hc.to or ""
                if h not in F.fns or "{closure" in h or not deep_("call:%s@0" % h):
                    continue
                horg = ff.Origins(F, h)
                hm = [c for c in F.calls(h) if (c.to or "").endswith("min_ada_for_output")]
                if not hm:
                    continue
                oh = horg.of_operand(F.fns[h]["bbs"][hm[0].bb]["t"][3][0])
                if any(x.startswith("call:") and x.split("@")[0].endswith("TransactionOutput::new") for x in oh):
                    o1 = {"call:(rebuilt inside %s) TransactionOutput::new@0" % F.key(h)}
                else:
                    o1 = set()
                    for x in oh:
                        if x.startswith("arg:"):
                            i_ = int(x[4:]) - 1
                            ops_ = fn_["bbs"][hc.bb]["t"][3]
                            if 0 <= i_ < len(ops_):
                                o1 |= org_.of_operand(ops_[i_])
                break
        if (not mc_ and o1 is None) or not st_bbs:
            rep.lost("%s: min_ada_for_output call / collateral_return store not found" % nm_)
            continue
        n_so += 1
        rep.inst("SAME-output")
        if o1 is None:
            o1 = org_.of_operand(fn_["bbs"][mc_[0].bb]["t"][3][0])
        o2 = set()
        ffs_ = ff.FnFields(F, fid_)
        for s_ in ffs_.stores_to(TB, "collateral_return"):
            if isinstance(s_[4], list):
                import p_c04 as _p4
                o2 |= _p4._origins_any(org_, s_[4])
        for c in F.calls(fid_):
            if (c.to or "").endswith("TransactionBuilder::set_collateral_return"):
                o2 |= org_.of_operand(fn_["bbs"][c.bb]["t"][3][1])
        ctor1 = {x for x in o1 if x.startswith("call:") and x.split("@")[0].endswith("TransactionOutput::new")}
        ctor2 = {x for x in o2 if x.startswith("call:") and x.split("@")[0].endswith("TransactionOutput::new")}
        rebuilt_plain = any("(rebuilt inside" in x for x in ctor1)
        if rebuilt_plain and ctor2:
            continue  # priced copy and stored output are both plain TransactionOutput::new(address, amount) values
        if ctor1 != ctor2:
            rep.violation("SAME-output", nm_.rsplit("::", 1)[-1], "%s tests the minimum ADA of an output built by %s but stores an output built by %s: a return output carrying a datum hash with 1 043 020 lovelace passes the test of its bare copy (minimum 969 750) and is stored although its own minimum is 1 116 290" % (nm_.rsplit("::", 1)[-1], sorted(x.split("@")[0][5:].rsplit("::", 2)[-2] + "::new" for x in ctor1) or "the caller", sorted(x.split("@")[0][5:].rsplit("::", 2)[-2] + "::new" for x in ctor2) or "the caller"), {})
    rep.floor("collateral setters testing min ADA", 2, n_so)


def check(rep, F, tier, replay=None):
    rep.rule("GATE", "collateral fields are stored only behind the audited comparisons")
    # ---- set_collateral_return_and_total --------------------------------------------------------
    fid = find_fn(rep, F, "TransactionBuilder::set_collateral_return_and_total")
    if fid:
        fn = F.fns[fid]
        for field in ("collateral_return", "total_collateral"):
            sts = stores_of(F, fid, field)
            rep.inst("GATE")
            if not sts:
                rep.violation("GATE", "return_and_total|%s|missing" % field, "set_collateral_return_and_total no longer sets %s" % field, {})
            for bi, how in sts:
                gs = mp.dominating_guards(F, fid, bi)
                asset_free = any(d["kind"] == "call" and d["callee"].endswith("Option::<T>::is_some") and edge == "0" and has_origin(d["args"][0], call_origin("Value::checked_sub")) or
                                 (d["kind"] == "call" and d["callee"].endswith("Option::<T>::is_none") and edge != "0" and has_origin(d["args"][0], call_origin("Value::checked_sub"))) for s, edge, d in gs)
                min_ada = any(d["kind"] == "call" and "PartialOrd" in d["callee"] and (
                    (d["callee"].endswith("::gt") and edge == "0" and has_origin(d["args"][0], mp.call_origin_deep(F, "min_ada_for_output")) and has_origin(d["args"][1], field_origin("utils::Value", "coin"))) or
                    (d["callee"].endswith("::lt") and edge == "0" and has_origin(d["args"][1], mp.call_origin_deep(F, "min_ada_for_output")) and has_origin(d["args"][0], field_origin("utils::Value", "coin")))) for s, edge, d in gs)
                non_empty = any(d["kind"] == "bin" and d["op"] == "Eq" and edge == "0" and has_origin(d["lhs"], call_origin("TxInputsBuilder::len")) for s, edge, d in gs)
                for ok, what in ((asset_free, "asset-free test of (collateral inputs - return)"), (min_ada, "min-ADA comparison of the return output"), (non_empty, "collateral inputs present")):
                    rep.inst("GATE")
                    if not ok:
                        rep.violation("GATE", "return_and_total|%s|%s" % (field, what.split(" ")[0]), "set_collateral_return_and_total stores %s without having passed the %s" % (field, what), {"guards": guard_summary(gs)})
        # total = coin of (inputs - return)
        rep.inst("GATE")
        ffs = ff.FnFields(F, fid)
        org = ff.Origins(F, fid)
        ts = ffs.stores_to(TB, "total_collateral")
        if ts:
            import p_c04
            o = p_c04._origins_any(org, ts[0][4])
            if not (has_origin(o, call_origin("Value::checked_sub")) and has_origin(o, call_origin("TxInputsBuilder::total_value")) and has_origin(o, call_origin("TransactionOutput::amount"))):
                rep.violation("GATE", "return_and_total|total-value", "the total collateral stored is not (collateral inputs - return).coin", {"origins": sorted(o)[:12]})
    # ---- set_total_collateral_and_return --------------------------------------------------------
    fid = find_fn(rep, F, "TransactionBuilder::set_total_collateral_and_return")
    if fid:
        fn = F.fns[fid]
        org = ff.Origins(F, fid)
        sts = stores_of(F, fid, "collateral_return")
        rep.inst("GATE")
        if not sts:
            rep.violation("GATE", "total_and_return|collateral_return|missing", "set_total_collateral_and_return no longer sets the collateral return", {})
        for bi, how in sts:
            if how == "clear":
                # clearing is allowed only where the decision found nothing to return: it must be control dependent on a test of the remainder
                rep.inst("GATE")
                rd = set()
                for s_ in mp.control_deps(F, fid, bi):
                    d_ = mp.describe_cond(F, fid, s_, org)
                    for k_ in ("lhs", "rhs", "of"):
                        rd |= set(d_.get(k_, []))
                    for a_ in d_.get("args", []):
                        rd |= set(a_)
                if not has_origin(rd, call_origin("Value::checked_sub")):
                    rep.violation("GATE", "total_and_return|collateral_return|clear", "set_total_collateral_and_return clears the collateral return on a path that does not depend on the remainder (collateral inputs - total)", {})
                continue
            gs = mp.dominating_guards(F, fid, bi)
            enough = any(d["kind"] == "call" and d["callee"].endswith("PartialOrd::lt") and edge == "0" and has_origin(d["args"][0], call_origin("TxInputsBuilder::total_value")) and "arg:2" in d["args"][1] for s, edge, d in gs)
            min_ada = any(d["kind"] == "call" and "PartialOrd" in d["callee"] and d["callee"].endswith("::gt") and edge == "0" and has_origin(d["args"][0], mp.call_origin_deep(F, "min_ada_for_output")) and has_origin(d["args"][1], call_origin("Value::checked_sub")) for s, edge, d in gs)
            reads = set()
            cds = [(s, None, mp.describe_cond(F, fid, s, org)) for s in mp.control_deps(F, fid, bi)]
            for s, edge, d in cds:
                for k in ("lhs", "rhs", "of"):
                    for o in d.get(k, []):
                        reads.add(o)
                for a in d.get("args", []):
                    for o in a:
                        reads.add(o)
            reads_ma = has_origin(reads, field_origin("utils::Value", "multiasset"))
            reads_coin = has_origin(reads, field_origin("utils::Value", "coin"))
            for ok, what in ((enough, "`collateral inputs coin >= total` comparison"), (min_ada, "min-ADA comparison of the return output")):
                rep.inst("GATE")
                if not ok:
                    rep.violation("GATE", "total_and_return|collateral_return|%s" % what.split(" ")[0], "set_total_collateral_and_return stores the collateral return without having passed the %s" % what, {"guards": guard_summary(gs)})
            rep.inst("GATE")
            if not (reads_ma and reads_coin):
                rep.violation("GATE", "total_and_return|need-return-decision", "the decision whether a collateral return output is needed does not read %s of the remainder: a remainder of %s would be dropped and the equation inputs = return + total broken" % ("the multiasset" if not reads_ma else "the coin", "0 ADA plus native assets" if not reads_ma else "pure ADA"), {})
        # value of the return = inputs - total
        rep.inst("GATE")
        subs = [c for c in F.calls(fid) if (c.to or "").endswith("Value::checked_sub")]
        if not subs or not (has_origin(org.of_operand(subs[0].args[0]), call_origin("TxInputsBuilder::total_value")) and "arg:2" in org.of_operand(subs[0].args[1])):
            rep.violation("GATE", "total_and_return|return-value", "the collateral return value is not computed as collateral inputs - requested total", {})
        # total stored is the argument
        rep.inst("GATE")
        tot = [c for c in F.calls(fid) if (c.to or "").endswith("TransactionBuilder::set_total_collateral")]
        if not tot or "arg:2" not in org.of_operand(tot[0].args[1]):
            rep.violation("GATE", "total_and_return|total-value", "the total collateral stored is not the requested total", {})
    # ---- percentage helper ----------------------------------------------------------------------
    rep.rule("CLEAN", "every error exit of the percentage helper after the placeholder was set is dominated by remove_collateral_return and remove_total_collateral; the placeholder is removed before the balancing result is examined")
    fid = find_fn(rep, F, "TransactionBuilder::add_inputs_from_and_change_with_collateral_return")
    if fid:
        fn = F.fns[fid]
        place = [c for c in F.calls(fid) if (c.to or "").endswith("TransactionBuilder::set_total_collateral") or (c.to or "").endswith("TransactionBuilder::set_collateral_return")]
        rem_r = [c for c in F.calls(fid) if (c.to or "").endswith("TransactionBuilder::remove_collateral_return")]
        rem_t = [c for c in F.calls(fid) if (c.to or "").endswith("TransactionBuilder::remove_total_collateral")]
        final = [c for c in F.calls(fid) if (c.to or "").endswith("TransactionBuilder::set_total_collateral_and_return")]
        rep.inst("CLEAN")
        if not place or not rem_r or not rem_t or not final:
            rep.violation("CLEAN", "anchors", "percentage helper lost one of: placeholder set, remove_collateral_return, remove_total_collateral, final set_total_collateral_and_return", {})
        else:
            first_place = min(c.bb for c in place)
            for bi, kind, loc in mp.error_stores(F, fid):
                if not any(mp.dominated_by(fn, bi, c.bb) for c in place):
                    continue  # before the placeholder existed
                rep.inst("CLEAN")
                ok_r = any(mp.dominated_by(fn, bi, c.bb) for c in rem_r)
                ok_t = any(mp.dominated_by(fn, bi, c.bb) for c in rem_t)
                if not (ok_r and ok_t):
                    rep.violation("CLEAN", "err-exit", "the percentage helper can return Err at %s with the collateral %s still set" % (facts.loc_str(loc, fn), "return" if not ok_r else "total"), {})
                # an error exit after the final setter must be dominated by a removal that comes after the setter
                for fc in final:
                    if mp.dominated_by(fn, bi, fc.bb) and kind == "err":
                        after_r = any(mp.dominated_by(fn, bi, c.bb) and mp.dominated_by(fn, c.bb, fc.bb) for c in rem_r)
                        after_t = any(mp.dominated_by(fn, bi, c.bb) and mp.dominated_by(fn, c.bb, fc.bb) for c in rem_t)
                        if not (after_r and after_t):
                            rep.violation("CLEAN", "err-after-final", "a failed final collateral computation returns Err at %s without clearing both fields again" % facts.loc_str(loc, fn), {})
            # balancing call happens between placeholder and removal, and its result is examined only after removal
            bal = [c for c in F.calls(fid) if (c.to or "").endswith("TransactionBuilder::add_inputs_from_and_change")]
            rep.inst("CLEAN")
            if not bal or not all(any(mp.dominated_by(fn, r.bb, b.bb) for r in rem_r) for b in bal):
                rep.violation("CLEAN", "order", "the placeholder collateral is not removed after balancing", {})
    # ---- FORMULA --------------------------------------------------------------------------------
    rep.rule("FORMULA", "required collateral = fee.checked_mul(percentage)?.div_floor(100).checked_add(1)?, fee from get_fee_if_set()")
    if fid:
        rep.inst("FORMULA")
        hir = F.hir[fid]
        ok = False
        detail = None
        for n in H.walk(hir["body"]):
            if n[0] == "mcall" and n[2] == "checked_add":
                inner = H.strip(n[4])
                if H.is_node(inner) and inner[0] == "mcall" and inner[2] == "div_floor":
                    mul = H.strip(inner[4])
                    if H.is_node(mul) and mul[0] == "try":
                        mul = H.strip(mul[2])
                    if H.is_node(mul) and mul[0] == "mcall" and mul[2] == "checked_mul":
                        div = None
                        for x in H.walk(inner[5][0]):
                            v = H.lit_int(x)
                            if v is not None:
                                div = v
                        one = any((c[2] or "").endswith("BigNum::one") for c in H.walk(n[5][0]) if c[0] == "call") or any(H.lit_int(x) == 1 for x in H.walk(n[5][0]))
                        recv = H.path_str(mul[4])
                        pct = H.path_str(mul[5][0])
                        detail = {"divisor": div, "plus_one": one, "receiver": recv, "multiplier": pct}
                        if div == 100 and one and recv == "fee" and pct == "collateral_percentage":
                            ok = True
        if not ok:
            rep.violation("FORMULA", "shape", "the percentage formula is no longer fee * percentage div_floor 100 + 1 (found %s)" % detail, {})
        else:
            rep.sample({"rule": "FORMULA", "found": detail})
        org = ff.Origins(F, fid)
        rep.inst("FORMULA")
        fin = [c for c in F.calls(fid) if (c.to or "").endswith("TransactionBuilder::set_total_collateral_and_return")]
        if fin:
            o = org.of_operand(fin[0].args[1])
            if not (has_origin(o, call_origin("get_fee_if_set")) and has_origin(o, call_origin("BigNum::div_floor"))):
                rep.violation("FORMULA", "flow", "the total handed to set_total_collateral_and_return is not the percentage of get_fee_if_set()", {})
    # ---- SUB: clamping subtraction in equation context ---------------------------------------
    rep.rule("SUB", "the subtraction that defines the equation inputs = return + total must fail on a deficit in any asset; Value::checked_sub clamps the asset part (contradiction rule: a checked_* that saturates)")
    vfid = find_fn(rep, F, "Value::checked_sub")
    if vfid:
        clamps = [c for c in F.calls(vfid) if (c.to or "").endswith("MultiAsset::sub")]
        for key in ("TransactionBuilder::set_collateral_return_and_total", "TransactionBuilder::set_total_collateral_and_return"):
            f2 = find_fn(rep, F, key)
            if not f2:
                continue
            rep.inst("SUB")
            uses = [c for c in F.calls(f2) if (c.to or "").endswith("Value::checked_sub")]
            if uses and clamps:
                if key.endswith("set_collateral_return_and_total"):
                    rep.violation("SUB", "%s|clamping-sub" % key, "%s computes collateral inputs - return with Value::checked_sub, whose asset part clamps at zero (MultiAsset::sub swallows the checked_sub error): a return output carrying assets the collateral inputs do not hold passes the asset-free test" % key, {"function": key})
    for key in ("TransactionBuilder::set_collateral_return_and_total", "TransactionBuilder::set_total_collateral_and_return", "TransactionBuilder::add_inputs_from_and_change_with_collateral_return"):
        f2 = find_fn(rep, F, key)
        if f2:
            rep.inst("SUB")
            for sub, op, ty, loc in raw_amount_ops(F, f2, types={"u64", "i64", "u128", "i128"}):
                rep.violation("SUB", "%s|raw|%s" % (key, op), "%s uses a raw %s on %s" % (key, op, ty), {})
    from ruleutil import placeholder_full_rule
    placeholder_full_rule(rep, F)
    from ruleutil import who_assets_rule
    who_assets_rule(rep, F)
    # REGISTER-last: re-registering an outpoint replaces what the builder holds for it (amount included)
    rep.rule("REGISTER-last", "TxInputsBuilder::push_input stores through an overwriting BTreeMap::insert: when a collateral outpoint is added again with a corrected value the builder holds the last value, which is what total_value() and the collateral return / total computations read")
    fid = find_fn(rep, F, "TxInputsBuilder::push_input")
    if fid:
        rep.inst("REGISTER-last")
        tos = [(c.to or "") for c in F.calls(fid)]
        keeps_first = sorted({t.rsplit("::", 1)[-1] for t in tos if t.rsplit("::", 1)[-1] in ("or_insert", "or_insert_with", "or_default", "try_insert", "contains_key") or t.endswith("BTreeMap::<K, V, A>::entry")})
        if keeps_first:
            rep.violation("REGISTER-last", "TxInputsBuilder::push_input|%s" % ",".join(keeps_first), "push_input keeps an existing registration (%s) instead of replacing it: an outpoint added again with its actual value keeps the stale first amount, and collateral return + total no longer equal the collateral inputs" % ", ".join(keeps_first), {})
        elif not any(t.endswith("BTreeMap::<K, V, A>::insert") for t in tos):
            rep.lost("TxInputsBuilder::push_input no longer stores through BTreeMap::insert (re-anchor REGISTER-last)")
    same_output_rule(rep, F)
    # CO-return: return and total are written together
    rep.rule("CO-return", "every function that computes a collateral return (stores Some(output) into collateral_return) and sets the total collateral writes collateral_return on every path to its success return - Some(output) or None: a return left by an earlier call never stays next to a new total")
    from collections import deque as _dq
    TB_ = "builders::tx_builder::TransactionBuilder"
    n_co = 0
    for fid_, fn_ in F.fns.items():
        if "/tests/" in fn_["file"] or F.is_derived(fid_):
            continue
        ffs_ = ff.FnFields(F, fid_)
        st_ = ffs_.stores_to(TB_, "collateral_return")
        sets_total = bool(ffs_.stores_to(TB_, "total_collateral")) or any((c.to or "").endswith("TransactionBuilder::set_total_collateral") for c in F.calls(fid_))
        setter_bbs = {c.bb for c in F.calls(fid_) if (c.to or "").endswith("TransactionBuilder::set_collateral_return")}
        if (not st_ and not setter_bbs) or not sets_total or F.key(fid_).endswith("::set_collateral_return"):
            continue
        some_store = bool(setter_bbs) or any(how == "store" for bi, how in stores_of(F, fid_, "collateral_return"))
        if not some_store:
            continue
        n_co += 1
        rep.inst("CO-return")
        store_bbs = {s_[2] for s_ in st_} | setter_bbs
        succ_ = {i_: [x_ for x_ in mp._succs(fn_, i_) if x_ is not None and not fn_["bbs"][x_]["c"]] for i_ in range(len(fn_["bbs"])) if not fn_["bbs"][i_]["c"]}
        oks = {bi for bi, kind, loc in mp.success_stores(F, fid_)}
        dq, seen_ = _dq([0]), {0}
        bad = False
        while dq:
            x_ = dq.popleft()
            if x_ in store_bbs:
                continue
            if x_ in oks:
                bad = True
                break
            for y_ in succ_.get(x_, []):
                if y_ not in seen_:
                    seen_.add(y_)
                    dq.append(y_)
        if bad:
            rep.violation("CO-return", F.key(fid_), "%s can reach its success return without writing collateral_return (the branch where nothing is left to return): after set_total_collateral_and_return(3 of 5 ADA) a second call with the full 5 ADA keeps the old 2 ADA return next to total 5 - inputs != return + total" % F.key(fid_), {})
    rep.floor("functions computing collateral return and total together", 2, n_co)
    from ruleutil import value_sub_total_rule
    value_sub_total_rule(rep, F)
    # COLL-verbatim: the body lists exactly the collateral inputs the return / total were computed over
    rep.rule("COLL-verbatim", "the `collateral` field of the TransactionBody literal in build_and_size is computed from TransactionBuilder.collateral and from nothing else of the builder, through no filtering / truncating adapter (filter, filter_map, skip, take, retain, dedup ...): collateral_return and total_collateral were gated against the value of *all* collateral inputs of the builder, so dropping one of them from the body (e.g. one that is also a regular input) breaks inputs = return + total")
    import bodyorigins as _bo
    ids_ = F.by_key("TransactionBuilder::build_and_size")
    if len(ids_) != 1:
        rep.lost("TransactionBuilder::build_and_size not found")
    else:
        ffs_ = ff.FnFields(F, ids_[0])
        org_ = ff.Origins(F, ids_[0])
        aggs_ = ffs_.aggregates_of(_bo.TBODY)
        if len(aggs_) != 1:
            rep.lost("expected one TransactionBody literal in build_and_size, found %d" % len(aggs_))
        else:
            names_ = [f["name"] for f in F.adts[_bo.TBODY]["variants"][0]["fields"]]
            for fname_, op_ in zip(names_, aggs_[0][5]):
                if fname_ != "collateral":
                    continue
                rep.inst("COLL-verbatim")
                fields_, calls_ = _bo.field_origins(F, ids_[0], org_, op_)
                FILT = ("::filter", "::filter_map", "::skip", "::skip_while", "::take", "::take_while", "::retain", "::retain_mut", "::dedup", "::dedup_by", "::dedup_by_key", "::step_by", "::truncate", "::pop", "::remove", "::swap_remove", "::drain", "::split_off", "::difference", "::intersection")
                bad_ = sorted(c for c in calls_ if c.endswith(FILT))
                if "collateral" not in fields_:
                    rep.violation("COLL-verbatim", "collateral|source", "the body's collateral inputs are no longer read from TransactionBuilder.collateral (origins: %s)" % sorted(fields_), {})
                extra_ = sorted(f for f in fields_ if f != "collateral")
                if bad_ or extra_:
                    rep.violation("COLL-verbatim", "collateral|%s" % ",".join([H.short(b) for b in bad_] + extra_), "the body's collateral inputs pass through %s%s: the body can list fewer collateral inputs than collateral_return + total_collateral were computed over (the same UTxO as regular and collateral input: the body keeps the return and the total but not the input)" % (", ".join(bad_) or "no adapter", (" and depend on TransactionBuilder.%s" % ", ".join(extra_)) if extra_ else ""), {})
    from ruleutil import minada_whole_rule
    minada_whole_rule(rep, F)
    return rep.finish(
        EXPLANATION,
        ["min_ada_for_output is C07's concern", "BigNum::div_floor(100) is exact floor division (divisor constant non-zero)"],
        ["rustc MIR dominators / def-use, HIR (csl-facts)"],
    )
