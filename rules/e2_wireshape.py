"""E2 wireshape: abstract interpretation of cbor_event writers over a finite presence domain (HIR level).

The writer body is executed abstractly.  Values are not modelled - only (a) presence atoms of the value being written
(`some:p`, `nonempty:p`, opaque booleans `bool:expr`, enum variants `variant:p`) supplied by an oracle, and (b) collection sizes
as symbols N(p) in linear forms.  A container stack tracks declared length vs items written.  The oracle enumerates each group
of atoms (all atoms of one field) exhaustively against the all-absent and the all-present baseline, crossed with the full
product of selector atoms (atoms about bare parameters / opaque booleans); additivity of every declared length (each summand
depends on one group) is checked, otherwise the full product is enumerated.
"""
import itertools
from collections import defaultdict

import hirq as H


class Underivable(Exception):
    pass


class LoopContinue(Exception):
    pass


class LoopBreak(Exception):
    pass


class ReturnNow(Exception):
    def __init__(self, err=False):
        self.err = err


# ---- linear forms -------------------------------------------------------------------------------


def lin(c=0, sym=None, k=1):
    d = {"": c}
    if sym is not None:
        d[sym] = k
    return d


def ladd(a, b, sign=1):
    d = dict(a)
    for k, v in b.items():
        d[k] = d.get(k, 0) + sign * v
    return {k: v for k, v in d.items() if v != 0 or k == ""}


def lscale(a, k):
    return {s: v * k for s, v in a.items()}


def lconst(a):
    return a.get("", 0) if all(k == "" for k in a) else None


def lstr(a):
    parts = []
    if a.get("", 0) or len(a) == 1:
        parts.append(str(a.get("", 0)))
    for k, v in sorted(a.items()):
        if k:
            parts.append(("%d*" % v if v != 1 else "") + "N(%s)" % k)
    return " + ".join(parts) if parts else "0"


def leq(a, b):
    return ladd(a, b, -1) == {"": 0}


class Frame:
    def __init__(self, kind, declared, line):
        self.kind = kind  # top | array | map
        self.declared = declared  # linear form (entries), 'indef', or None for top
        self.count = lin(0)
        self.line = line
        self.keys = []  # literals seen at key positions (maps) / first position (arrays)
        self.vals = []  # description of the value written after each key (maps)
        self.items = []  # arrays: description (field path / #literal / container@line) of each single item, in order; None = unknown
        self.tag = None
        self.depth = 0
        self.sid = 0


class Oracle:
    def __init__(self, assignment, base):
        self.assignment = assignment
        self.base = base
        self.asked = {}  # atom -> domain

    def ask(self, atom, domain=(False, True)):
        self.asked[atom] = tuple(domain)
        if atom in self.assignment:
            return self.assignment[atom]
        return domain[-1] if self.base else domain[0]


SUMMARY_OVERRIDE = {
    "utils::write_bounded_bytes": (1, "audited: writes one byte string - definite when <= 64 bytes, otherwise the raw header 0x5f, 64-byte chunks and Break (the chunked form the CDDL's bounded_bytes asks for)"),
}

SER_ONE = {"write_unsigned_integer", "write_negative_integer", "write_bytes", "write_text", "write_raw_bytes"}


def canon(p):
    if p is None:
        return None
    for suf in (".iter()", ".into_iter()", ".as_ref()", ".clone()", ".deref()", ".as_slice()", ".to_vec()", ".borrow()", ".as_mut()"):
        while p.endswith(suf):
            p = p[: -len(suf)]
    return p


def group_of(atom):
    kind, _, rest = atom.partition(":")
    if kind in ("some", "nonempty", "variant", "raw"):
        # group by the last field name: self.tx_witnesses_set.vkeys and self.raw_parts.vkeys vary together
        r = rest.replace("some(", "").replace(")", "")
        parts = r.split(".")
        if len(parts) >= 2:
            return "field:" + parts[-1]
        return "sel:" + rest
    return "sel:" + atom


class Interp:
    def __init__(self, F, fid, oracle, depth=0, summaries=None):
        self.F = F
        self.fid = fid
        self.o = oracle
        self.depth = depth
        self.summaries = summaries or {}
        self.stacks = {0: [Frame("top", None, 0)]}
        self.next_sid = [1]
        self.problems = []
        self.containers = []  # finished containers: dict(kind, declared, keys, tag, line)
        self.env = {}
        self.pending_tag = None
        self.tags = []  # every tag value written (int or '?')
        self.len_deps = []  # for additivity: list of sets of groups per summand
        self.notes = []
        self.zero_roots = set()  # objects known empty in this abstract state: their size symbols are 0

    # ---- container mechanics ---------------------------------------------------------------
    def item(self, n=None, key=None, line=0, sid=0, desc=None):
        n = n if n is not None else lin(1)
        stack = self.stacks[sid]
        top = stack[-1]
        c = lconst(top.count)
        if top.kind == "map" and c is not None and lconst(n) == 1:
            if c % 2 == 0:
                top.keys.append(key)
            else:
                top.vals.append(desc)
        elif top.kind == "array" and c == 0 and lconst(n) == 1:
            top.keys.append(key)
        if top.kind in ("array", "top"):
            if lconst(n) == 1:
                top.items.append(desc if desc is not None else ("#%s" % key if key is not None else None))
            else:
                top.items.append("*" + lstr(n))
        top.count = ladd(top.count, n)
        self.pending_tag = None
        self.settle(line, sid)

    def zsub(self, a):
        if not self.zero_roots:
            return a
        return {k: v for k, v in a.items() if k == "" or k.replace("some(", "").split(".")[0].split("(")[0] not in self.zero_roots}

    def settle(self, line, sid=0):
        stack = self.stacks[sid]
        while len(stack) > 1:
            top = stack[-1]
            if top.declared == "indef":
                return
            want = lscale(top.declared, 2) if top.kind == "map" else top.declared
            if leq(self.zsub(top.count), self.zsub(want)):
                self.close(line, sid)
                continue
            cw, cc = lconst(want), lconst(top.count)
            if cw is not None and cc is not None and cc > cw:
                self.problems.append(("W-len", "container opened at line %d declares %s %s but %s items were written" % (top.line, lstr(top.declared), "entries" if top.kind == "map" else "items", lstr(top.count)), top.line))
                self.close(line, sid)
                continue
            return

    def close(self, line, sid=0):
        top = self.stacks[sid].pop()
        self.containers.append({"kind": top.kind, "declared": top.declared if top.declared == "indef" else lstr(top.declared), "keys": top.keys, "vals": top.vals, "items": top.items, "tag": top.tag, "line": top.line, "depth": top.depth, "sid": top.sid})
        self.item(lin(1), None, line, sid, desc="container@%d" % top.line)

    def open(self, kind, declared, line, sid=0):
        f = Frame(kind, declared, line)
        f.depth = len(self.stacks[sid])
        f.sid = sid
        f.tag = self.pending_tag
        self.pending_tag = None
        self.stacks[sid].append(f)
        if declared != "indef" and leq(declared, lin(0)):
            self.settle(line, sid)

    def brk(self, line, sid=0):
        top = self.stacks[sid][-1]
        if top.kind == "top" or top.declared != "indef":
            self.problems.append(("W-len", "Break written at line %d with no indefinite container open" % line, line))
            return
        if top.kind == "map":
            c = lconst(top.count)
            if c is not None and c % 2:
                self.problems.append(("W-len", "indefinite map opened at line %d closed after an odd number of items" % top.line, top.line))
        self.close(line, sid)

    # ---- values ----------------------------------------------------------------------------
    def truth(self, v):
        if v[0] == "bool":
            return v[1]
        if v[0] == "atom":
            return self.o.ask(v[1])
        if v[0] == "not":
            return not self.truth(v[1])
        if v[0] == "opt":
            return v[1] is not None
        if v[0] in ("path", "somepath"):
            return self.o.ask("bool:" + canon(v[1]))
        if v[0] == "opaque":
            return self.o.ask("bool:" + v[1])
        raise Underivable("condition of unknown shape: %s" % (v,))

    def as_int(self, v):
        if v[0] == "int":
            return v[1]
        if v[0] in ("bool", "atom", "not"):
            return lin(1 if self.truth(v) else 0)
        raise Underivable("integer of unknown shape: %s" % (v[:2],))

    def bool_atom(self, text):
        return ("atom", "bool:" + text)

    def is_ser(self, v):
        return v[0] == "ser"

    # ---- expression evaluation -------------------------------------------------------------
    def ev(self, n):
        if n is None:
            return ("unit",)
        if not H.is_node(n):
            return ("opaque", "?")
        k = n[0]
        m = getattr(self, "ev_" + k, None)
        if m is None:
            return ("opaque", k)
        return m(n)

    def ev_lit(self, n):
        t = n[2]
        if t[0] == "int":
            return ("int", lin(int(t[1])))
        if t[0] == "bool":
            return ("bool", t[1])
        if t[0] == "str":
            return ("str", t[1])
        return ("opaque", "lit")

    def ev_path(self, n):
        r = n[2]
        if r[0] == "local":
            nm = r[1]
            if nm in self.env:
                return self.env[nm]
            return ("path", nm)
        if r[0] == "def":
            p = r[2]
            if p.endswith("Len::Indefinite"):
                return ("len", "indef")
            if p.endswith("option::Option::None") or p.endswith("::None"):
                return ("opt", None)
            if p.endswith("Special::Break"):
                return ("special", "Break")
            c = self.F.consts.get(p)
            if c is not None:
                return ("int", lin(int(c["val"])))
            return ("def", p)
        return ("opaque", "path")

    def ev_field(self, n):
        b = self.ev(n[2])
        if b[0] == "path":
            return ("path", b[1] + "." + n[3])
        if b[0] == "somepath":
            return ("path", "some(%s).%s" % (canon(b[1]), n[3]))
        return ("opaque", "field")

    def ev_ref(self, n):
        return self.ev(n[3])

    def ev_unary(self, n):
        v = self.ev(n[3])
        if n[2] == "Deref":
            return v
        if n[2] == "Not":
            if v[0] == "bool":
                return ("bool", not v[1])
            return ("not", v)
        return ("opaque", "unary")

    def ev_cast(self, n):
        v = self.ev(n[2])
        if v[0] in ("bool", "atom", "not"):
            return ("int", self.as_int(v))
        if v[0] == "def" and n[3] in self.F.adts and self.F.adts[n[3]]["kind"] == "enum":
            # Enum::Variant as u64
            vn = v[1].rsplit("::", 1)[1]
            for var in self.F.adts[n[3]]["variants"]:
                if var["name"] == vn and var["discr"] is not None:
                    return ("int", lin(var["discr"]))
        return v

    def ev_try(self, n):
        return self.ev(n[2])

    def ev_tup(self, n):
        return ("tup", [self.ev(x) for x in n[2]])

    def ev_binary(self, n):
        op = n[2]
        if op in ("And", "Or"):
            a = self.ev(n[3])
            ta = self.truth(a)
            if op == "And" and not ta:
                return ("bool", False)
            if op == "Or" and ta:
                return ("bool", True)
            return ("bool", self.truth(self.ev(n[4])))
        a, b = self.ev(n[3]), self.ev(n[4])
        if op in ("Add", "Sub", "Mul"):
            try:
                x, y = self.as_int(a), self.as_int(b)
            except Underivable:
                return ("opaque", "arith")
            if op == "Add":
                return ("int", ladd(x, y))
            if op == "Sub":
                return ("int", ladd(x, y, -1))
            cx, cy = lconst(x), lconst(y)
            if cx is not None:
                return ("int", lscale(y, cx))
            if cy is not None:
                return ("int", lscale(x, cy))
            return ("opaque", "nonlinear")
        if op in ("Eq", "Ne", "Lt", "Le", "Gt", "Ge"):
            if a[0] == "int" and b[0] == "int":
                ca, cb = lconst(a[1]), lconst(b[1])
                if ca is not None and cb is not None:
                    return ("bool", {"Eq": ca == cb, "Ne": ca != cb, "Lt": ca < cb, "Le": ca <= cb, "Gt": ca > cb, "Ge": ca >= cb}[op])
            return self.bool_atom("%s %s %s" % (self.show(n[3]), op, self.show(n[4])))
        return ("opaque", "binary")

    def show(self, n):
        p = H.path_str(n, None)
        if p is not None:
            return canon(p)
        n = H.strip(n)
        if H.is_node(n) and n[0] == "lit":
            return str(n[2][1])
        if H.is_node(n) and n[0] == "mcall":
            return "%s.%s(%s)" % (self.show(n[4]), n[2], ",".join(self.show(a) for a in n[5]))
        if H.is_node(n) and n[0] == "call":
            return "%s(%s)" % ((n[2] or "?").rsplit("::", 1)[-1], ",".join(self.show(a) for a in n[4]))
        if H.is_node(n) and n[0] == "path":
            return str(n[2][-1]).rsplit("::", 1)[-1]
        return n[0] if H.is_node(n) else "?"

    def ev_block(self, n):
        saved = None
        for st in n[2]:
            if st[0] == "let":
                v = self.ev(st[3]) if st[3] is not None else ("opaque", "uninit")
                self.bind(st[2], v)
            else:
                self.ev(st[2])
        return self.ev(n[3]) if n[3] is not None else ("unit",)

    def bind(self, pat, v):
        while pat and pat[0] == "pref":
            pat = pat[1]
        if not pat:
            return
        if pat[0] == "bind":
            self.env[pat[1]] = v
            if pat[3]:
                self.bind(pat[3], v)
        elif pat[0] == "ptuple":
            for i, q in enumerate(pat[1]):
                if v[0] == "tup" and i < len(v[1]):
                    self.bind(q, v[1][i])
                elif v[0] == "path":
                    self.bind(q, ("path", "%s.%d" % (v[1], i)))
                else:
                    self.bind(q, ("opaque", "tuple-elem"))
        elif pat[0] in ("pts", "pstruct"):
            subs = pat[2] if pat[0] == "pts" else [f[1] for f in pat[2]]
            for q in subs:
                if v[0] == "path":
                    self.bind(q, ("path", "elem(%s)" % v[1]))
                else:
                    self.bind(q, ("opaque", "destructured"))

    def ev_assign(self, n):
        lhs = H.strip(n[2])
        v = self.ev(n[3])
        if H.is_node(lhs) and lhs[0] == "path" and lhs[2][0] == "local":
            self.env[lhs[2][1]] = v
        return ("unit",)

    def ev_assignop(self, n):
        lhs = H.strip(n[3])
        if H.is_node(lhs) and lhs[0] == "path" and lhs[2][0] == "local":
            nm = lhs[2][1]
            cur = self.env.get(nm, ("opaque", "?"))
            rhs = self.ev(n[4])
            try:
                a, b = self.as_int(cur), self.as_int(rhs)
                self.env[nm] = ("int", ladd(a, b) if n[2].startswith("Add") else ladd(a, b, -1))
            except Underivable:
                self.env[nm] = ("opaque", "assignop")
        return ("unit",)

    def ev_ret(self, n):
        if n[2] is not None:
            v = self.ev(n[2])
            raise ReturnNow(err=(v[0] == "err"))
        raise ReturnNow()

    def ev_struct(self, n):
        return ("opaque", "struct")

    def ev_closure(self, n):
        return ("closure", n)

    def ev_index(self, n):
        self.ev(n[2])
        return ("opaque", "index")

    # ---- conditions ------------------------------------------------------------------------
    def opt_presence(self, v):
        """value of Option type -> truth of is_some, plus the path for binding"""
        if v[0] == "opt":
            return v[1] is not None, v[1]
        if v[0] == "path":
            p = canon(v[1])
            return self.o.ask("some:" + p), ("somepath", p)
        if v[0] == "optof":  # Option produced by map/flatten over option paths: ('optof', [paths])
            ok = all(self.o.ask("some:" + p) for p in v[1])
            return ok, ("somepath", v[1][-1])
        if v[0] == "optwrap":
            return True, v[1]
        if v[0] == "somepath":
            return self.o.ask("some:some(%s)" % canon(v[1])), ("somepath", "some(%s)" % canon(v[1]))
        if v[0] == "opaque":
            return self.o.ask("some:" + v[1]), ("path", "some(%s)" % v[1])
        raise Underivable("Option of unknown shape in a presence test: %s" % (v[:2],))

    def ev_if(self, n):
        c = n[2]
        if H.is_node(c) and c[0] == "letx":
            taken, binds = self.match_pat(c[2], self.ev(c[3]))
            if taken:
                for k, v in binds.items():
                    self.env[k] = v
                return self.ev(n[3])
            return self.ev(n[4]) if n[4] is not None else ("unit",)
        t = self.truth(self.ev(c))
        if t:
            return self.ev(n[3])
        return self.ev(n[4]) if n[4] is not None else ("unit",)

    def match_pat(self, pat, v):
        """-> (matches?, bindings) for Option / bool / int-literal / enum-variant patterns"""
        while pat and pat[0] == "pref":
            pat = pat[1]
        if H.pat_is_wild(pat):
            b = {}
            if pat[0] == "bind":
                b[pat[1]] = v
            return True, b
        if pat[0] == "por":
            for q in pat[1]:
                ok, b = self.match_pat(q, v)
                if ok:
                    return ok, b
            return False, {}
        if pat[0] == "plit":
            lit = pat[1]
            if lit[0] == "bool":
                return self.truth(v) == lit[1], {}
            if lit[0] == "int" and v[0] == "int" and lconst(v[1]) is not None:
                return lconst(v[1]) == int(lit[1]), {}
            raise Underivable("literal pattern on a non-constant value")
        if pat[0] == "ptuple":
            if v[0] != "tup":
                raise Underivable("tuple pattern on non-tuple")
            binds = {}
            for q, x in zip(pat[1], v[1]):
                ok, b = self.match_pat(q, x)
                if not ok:
                    return False, {}
                binds.update(b)
            return True, binds
        var = H.pat_variant(pat)
        if var is None:
            raise Underivable("pattern kind %s" % pat[0])
        vs = H.short(var)
        subs = pat[2] if pat[0] == "pts" else ([f[1] for f in pat[2]] if pat[0] == "pstruct" else [])
        if vs in ("Some", "None") and "option::Option" in var or var.endswith(("::Some", "::None")) and vs in ("Some", "None"):
            present, inner = self.opt_presence(v)
            if vs == "None":
                return (not present), {}
            if not present:
                return False, {}
            binds = {}
            for q in subs:
                ok, b = self.match_pat(q, inner if isinstance(inner, tuple) else ("opaque", "inner"))
                if not ok:
                    return False, {}
                binds.update(b)
            return True, binds
        if vs in ("Ok", "Err") and "result::Result" in var:
            raise Underivable("match on a Result")
        if "cbor_event::Len" in var:
            if v[0] == "len":
                is_indef = v[1] == "indef"
                return (vs == "Indefinite") == is_indef, {}
            raise Underivable("match on Len of unknown shape")
        # enum variant of the value being written
        if v[0] in ("path", "somepath"):
            p = canon(v[1])
            enum = var.rsplit("::", 1)[0]
            a = self.F.adts.get(enum)
            names = [x["name"] for x in a["variants"]] if a else None
            if not names:
                raise Underivable("variant pattern of unknown enum %s" % enum)
            chosen = self.o.ask("variant:" + p, names)
            if chosen != vs:
                return False, {}
            binds = {}
            for q in subs:
                for bnm in H.pat_bindings(q):
                    binds[bnm] = ("path", "%s::%s" % (p, vs))
            return True, binds
        raise Underivable("variant pattern on %s" % (v[:1],))

    def ev_match(self, n):
        v = self.ev(n[2])
        lits = []
        for pat, guard, body in n[3]:
            for alt in H.pat_alternatives(pat):
                if alt and alt[0] == "plit" and alt[1][0] == "int":
                    lits.append(int(alt[1][1]))
        if lits and not (v[0] == "int" and lconst(v[1]) is not None):
            desc = v[1] if v[0] in ("opaque", "path") else lstr(v[1]) if v[0] == "int" else v[0]
            chosen = self.o.ask("lit:%s" % desc, sorted(set(lits)) + ["_"])
            for pat, guard, body in n[3]:
                hit = False
                for alt in H.pat_alternatives(pat):
                    if alt and alt[0] == "plit" and alt[1][0] == "int" and int(alt[1][1]) == chosen:
                        hit = True
                    elif chosen == "_" and H.pat_is_wild(alt):
                        hit = True
                    elif chosen != "_" and H.pat_is_wild(alt) and chosen not in lits:
                        hit = True
                if hit:
                    for alt in H.pat_alternatives(pat):
                        if alt and alt[0] == "bind":
                            self.env[alt[1]] = v
                    return self.ev(body)
            raise Underivable("no literal arm for %s at line %d" % (chosen, n[1]))
        vnames = []
        has_wild = False
        for pat, guard, body in n[3]:
            for alt in H.pat_alternatives(pat):
                vv = H.pat_variant(alt)
                if vv and not H.pat_is_wild(alt):
                    vnames.append(vv)
                elif H.pat_is_wild(alt):
                    has_wild = True
        ext_enum = bool(vnames) and v[0] in ("path", "somepath") and vnames[0].rsplit("::", 1)[0] not in self.F.adts
        if ext_enum:
            v = ("opaque", canon(v[1]))
        if vnames and v[0] in ("opaque",) and not any(x.endswith(("::Some", "::None", "::Ok", "::Err")) for x in vnames) and "cbor_event::Len" not in vnames[0]:
            dom = sorted({H.short(x) for x in vnames}) + (["_"] if has_wild else [])
            chosen = self.o.ask("variant:" + v[1], dom)
            for pat, guard, body in n[3]:
                for alt in H.pat_alternatives(pat):
                    vv = H.pat_variant(alt)
                    if (vv and not H.pat_is_wild(alt) and H.short(vv) == chosen) or (chosen == "_" and H.pat_is_wild(alt)):
                        for bnm in H.pat_bindings(alt):
                            self.env[bnm] = ("opaque", "%s::%s" % (v[1], chosen))
                        return self.ev(body)
            raise Underivable("no arm for variant %s at line %d" % (chosen, n[1]))
        for pat, guard, body in n[3]:
            ok, binds = self.match_pat(pat, v)
            if not ok:
                continue
            saved = dict(self.env)
            self.env.update(binds)
            if guard is not None and not self.truth(self.ev(guard)):
                self.env = saved
                continue
            return self.ev(body)
        raise Underivable("no arm of the match at line %d is taken in the abstract state" % n[1])

    def ev_for(self, n):
        itv = self.ev(n[3])
        if not self.uses_ser(n[4]):
            return ("unit",)
        if itv[0] == "somepath":
            itv = ("path", "some(%s)" % itv[1])
        if itv[0] == "opaque":
            itv = ("path", "%s@%d" % (itv[1], n[1]))
        if itv[0] != "path":
            raise Underivable("loop over %s at line %d writes items" % (itv[:2], n[1]))
        sym = self.iter_sym(canon(itv[1]), n[5] if len(n) > 5 else None)
        snap = {sid: (len(st), st[-1], dict(st[-1].count)) for sid, st in self.stacks.items()}
        self.bind(n[2], ("path", "elem(%s)" % sym))
        try:
            self.ev(n[4])
        except LoopContinue:
            pass  # the rest of this iteration is skipped in this abstract state
        except LoopBreak:
            raise Underivable("`break` inside a loop that writes items at line %d" % n[1])
        for sid, (depth, top, before) in snap.items():
            st = self.stacks[sid]
            if len(st) != depth or st[-1] is not top:
                raise Underivable("loop body at line %d leaves a container open / closes an outer one" % n[1])
            delta = ladd(top.count, before, -1)
            cd = lconst(delta)
            if cd is None:
                raise Underivable("nested symbolic loop at line %d" % n[1])
            if cd:
                top.count = ladd(before, lin(0, sym, cd))
                self.settle(n[1], sid)
        return ("unit",)

    def iter_sym(self, p, ity):
        """`for x in self` with a local `IntoIterator for &T` whose into_iter is `self.F.iter()...` iterates F"""
        if not ity:
            return p
        t = ity.replace("&", "").replace("'a ", "").replace("mut ", "").strip()
        cands = ["<&'a %s as std::iter::IntoIterator>::into_iter" % t, "<&%s as std::iter::IntoIterator>::into_iter" % t, "<%s as std::iter::IntoIterator>::into_iter" % t]
        for k in cands:
            h = self.F.hir.get(k)
            if h is None:
                continue
            for x in H.walk(h["body"]):
                if x[0] == "field":
                    q = H.path_str(x)
                    if q and q.startswith("self."):
                        return canon(p + q[4:])
        return p

    def ev_continue(self, n):
        raise LoopContinue()

    def ev_break(self, n):
        raise LoopBreak()

    def ev_loop(self, n):
        if self.uses_ser(n[2]):
            raise Underivable("while/loop writing items at line %d" % n[1])
        return ("unit",)  # a loop that does not touch the serializer: its break / continue are never evaluated

    def uses_ser(self, n):
        for x in H.walk(n):
            if x[0] == "path" and x[2][0] == "local" and self.env.get(x[2][1], ("", ))[0] == "ser":
                return True
            if x[0] == "call" and (x[2] or "").endswith("Serializer::<std::vec::Vec<u8>>::new_vec"):
                return True
        return False

    # ---- calls -----------------------------------------------------------------------------
    def ev_call(self, n):
        callee = n[2] or ""
        short = callee.rsplit("::", 1)[-1]
        if callee.startswith("ctor:") or callee.startswith("selfctor:"):
            args = [self.ev(a) for a in n[4]]
            if callee.endswith("Len::Len"):
                try:
                    return ("len", self.as_int(args[0]))
                except Underivable:
                    raise Underivable("declared length of unknown shape at line %d: %s" % (n[1], self.show(n[4][0])))
            if short == "Some":
                return ("opt", args[0])
            if short == "Ok":
                return ("ok", args[0] if args else None)
            if short == "Err":
                return ("err",)
            if callee.endswith(("Special::Bool", "Special::Null", "Special::Undefined", "Special::Float", "Special::Unassigned")) or "cbor_event::Special::" in callee:
                return ("special", short)
            return ("opaque", "ctor")
        if callee.endswith(("utils::opt64", "utils::opt64_non_empty")):
            v = self.ev(n[4][0])
            present, _ = self.opt_presence(v)
            deps = set()
            if v[0] == "path":
                deps.add(group_of("some:" + canon(v[1])))
            self.len_deps.append(deps)
            if short == "opt64_non_empty" and present:
                if v[0] == "path":
                    present = self.o.ask("nonempty:" + canon(v[1]))
            return ("int", lin(1 if present else 0))
        if callee.endswith(("Serializer::<std::vec::Vec<u8>>::new_vec", "se::Serializer::<W>::new")):
            sid = self.next_sid[0]
            self.next_sid[0] += 1
            self.stacks[sid] = [Frame("top", None, n[1])]
            return ("ser", sid)
        args = [self.ev(a) for a in n[4]]
        fv = self.ev(n[3]) if H.is_node(n[3]) and n[3][0] != "path" else None
        if fv is not None and fv[0] == "closure" and not n[4]:
            return self.ev(fv[1][4])
        if any(self.is_ser(a) for a in args):
            return self.call_with_ser(callee, None, n[4], args, n[1])
        pv = self.pure_inline(callee, args)
        if pv is not None:
            return pv
        return ("opaque", "%s(%s)" % (short, ",".join(self.show(a) for a in n[4])))

    def pure_inline(self, callee, args):
        """local helper returning an integer / bool / Option and not touching a serializer: evaluate its body"""
        fn = self.F.fns.get(callee)
        h = self.F.hir.get(callee)
        if fn is None or h is None or self.depth >= 5:
            return None
        ret = fn["locals"][0]
        if not (ret in ("bool", "u64", "usize", "u32", "i64") or ret.startswith("std::option::Option<")):
            return None
        if sum(1 for _ in H.walk(h["body"])) > 120:
            return None
        sub = Interp(self.F, callee, self.o, self.depth + 1, self.summaries)
        sub.len_deps = self.len_deps
        for names, v in zip([H.pat_bindings(p) for p in h["params"]], args):
            for nm in names:
                sub.env[nm] = v
        try:
            return sub.ev(h["body"])
        except ReturnNow:
            return None
        except Underivable:
            return None

    def ev_mcall(self, n):
        name = n[2]
        callee = n[3] or ""
        recv = self.ev(n[4])
        if self.is_ser(recv) and "cbor_event::se::Serializer" in callee:
            return self.ser_method(name, n, recv[1] if len(recv) > 1 else 0)
        args = [self.ev(a) for a in n[5]]
        if self.is_ser(recv) and not any(self.is_ser(a) for a in args) and callee not in self.F.hir:
            if name in ("map", "and_then") and args and args[0][0] == "closure":
                cl = args[0]
                saved = dict(self.env)
                for pp in cl[1][3]:
                    for bnm in H.pat_bindings(pp):
                        self.env[bnm] = recv
                v = self.ev(cl[1][4])
                self.env = saved
                return v if v[0] != "unit" and v != ("tup", []) else ("opaque", "()")
            return recv  # Result/Option plumbing on the serializer handle (unwrap, map_err, ...)
        if any(self.is_ser(a) for a in args) or self.is_ser(recv):
            return self.call_with_ser(callee, recv, [n[4]] + n[5], [recv] + args, n[1], method=name)
        # pure methods on the value
        if recv[0] == "path" and recv[1].startswith("some(") and recv[1].endswith(")") and recv[1].count("(") == 1:
            recv = ("somepath", recv[1][5:-1])
        if recv[0] in ("path", "somepath"):
            p = canon(recv[1])
            if name in ("clone", "as_ref", "deref", "iter", "into_iter", "borrow", "to_owned", "as_slice", "values", "keys") and not n[5]:
                return ("path", recv[1] + ("" if name in ("clone", "as_ref", "deref", "borrow", "to_owned", "as_slice") else "." + name + "()"))
            if name == "len" and not n[5]:
                return ("int", lin(0, self.len_sym(p if recv[0] == "path" else "some(%s)" % p, callee), 1))
            if name == "filter" and len(n[5]) == 1 and args[0][0] == "closure" and recv[0] == "path" and recv[1].endswith(("()",)):
                # iterator.filter(|x| cond): keeps the elements for which cond holds; with per-element atoms taken uniformly
                # (all elements satisfy the atom or none does) the filtered count is N or 0
                return ("filtered", recv[1], args[0])
            if name in ("is_some", "is_none") and not n[5]:
                if recv[0] == "somepath":
                    return ("bool", name == "is_some")
                t = self.o.ask("some:" + p)
                return ("bool", t if name == "is_some" else not t)
            if name == "is_none_or_empty" and not n[5]:
                if recv[0] == "somepath":
                    return ("bool", not self.o.ask("nonempty:" + p))
                if self.o.ask("some:" + p):
                    return ("bool", not self.o.ask("nonempty:" + p))
                return ("bool", True)
            if name == "is_empty" and not n[5]:
                t = self.o.ask("bool:%s.is_empty()" % p)
                if t:
                    self.zero_roots.add(p.split(".")[0])
                return ("bool", t)
            if name == "map" and len(n[5]) == 1:
                # Option::map(|x| x.f.as_ref()) -> option path chain
                cl = args[0]
                if cl[0] == "closure":
                    params = [b for pp in cl[1][3] for b in H.pat_bindings(pp)]
                    if len(params) == 1:
                        saved = dict(self.env)
                        present_outer = True
                        self.env[params[0]] = ("path", "some(%s)" % p) if recv[0] == "path" else recv
                        inner = self.ev(cl[1][4])
                        self.env = saved
                        if inner[0] == "path":
                            return ("optof", [p, canon(inner[1].replace("some(%s)" % p, p))])
                return ("opaque", "map")
            if name in ("flatten",):
                return recv
            return self.bool_or_opaque(name, p, n)
        if recv[0] == "filtered" and name == "count" and not n[5]:
            it_path = recv[1]
            base = canon(it_path)
            for suf in (".values()", ".keys()"):
                if base.endswith(suf):
                    base = canon(base[: -len(suf)])
            elem = "elem(%s)" % base
            if canon(it_path).endswith(".values()"):
                elem = "elem(%s).1" % base
            elif canon(it_path).endswith(".keys()"):
                elem = "elem(%s).0" % base
            cl = recv[2]
            params = [b for pp in cl[1][3] for b in H.pat_bindings(pp)]
            if len(params) != 1:
                raise Underivable("filter closure with %d parameters at line %d" % (len(params), n[1]))
            saved = dict(self.env)
            self.env[params[0]] = ("path", elem)
            keep = self.truth(self.ev(cl[1][4]))
            self.env = saved
            return ("int", lin(0, base, 1) if keep else lin(0))
        if recv[0] == "opt" and recv[1] is not None and name == "map" and len(n[5]) == 1 and args[0][0] == "closure":
            cl = args[0]
            params = [b for pp in cl[1][3] for b in H.pat_bindings(pp)]
            if len(params) == 1:
                saved = dict(self.env)
                self.env[params[0]] = recv[1]
                inner = self.ev(cl[1][4])
                self.env = saved
                return ("optwrap", inner)
        if recv[0] == "opt" and recv[1] is not None and name == "and_then" and len(n[5]) == 1 and args[0][0] == "closure":
            cl = args[0]
            params = [b for pp in cl[1][3] for b in H.pat_bindings(pp)]
            if len(params) == 1:
                saved = dict(self.env)
                self.env[params[0]] = recv[1]
                inner = self.ev(cl[1][4])
                self.env = saved
                return inner
        if recv[0] == "opt" and recv[1] is None and name in ("and_then", "map", "flatten", "as_ref"):
            return ("opt", None)
        if recv[0] == "optwrap" and name == "flatten":
            return recv[1]
        if recv[0] == "optwrap" and name in ("as_ref", "clone"):
            return recv
        if recv[0] == "optof":
            if name in ("flatten", "as_ref"):
                return recv
            if name in ("is_some", "is_none"):
                ok = all(self.o.ask("some:" + q) for q in recv[1])
                return ("bool", ok if name == "is_some" else not ok)
        if recv[0] == "opt" and name in ("as_ref", "clone", "flatten"):
            return recv
        if recv[0] == "opt" and name in ("is_some", "is_none"):
            return ("bool", (recv[1] is not None) == (name == "is_some"))
        if recv[0] == "opt" and name == "map" and recv[1] is None:
            return ("opt", None)
        if recv[0] == "def" and name in ("to_u64",):
            # Enum::Variant.to_u64() -> Some(discriminant)
            enum, vn = recv[1].rsplit("::", 1)
            a = self.F.adts.get(enum)
            if a:
                for var in a["variants"]:
                    if var["name"] == vn and var["discr"] is not None:
                        return ("opt", ("int", lin(var["discr"])))
        if recv[0] == "int" and name in ("into", "clone"):
            return recv
        fnr = self.F.fns.get(callee)
        if (fnr is not None and fnr["locals"][0] == "bool") or name in ("is_empty", "is_some", "is_none", "contains", "starts_with"):
            return self.bool_atom("%s.%s(%s)" % (recv[1] if recv[0] in ("opaque", "path", "somepath") else recv[0], name, ",".join(self.show(a) for a in n[5])))
        if name == "len" and recv[0] == "opaque":
            return ("int", lin(0, recv[1], 1))
        return ("opaque", "%s.%s(%s)" % (recv[1] if recv[0] in ("opaque",) else recv[0], name, ",".join(self.show(a) for a in n[5])))

    def bool_or_opaque(self, name, p, n):
        ret = None
        callee = n[3] or ""
        fn = self.F.fns.get(callee)
        if fn is not None and fn["locals"][0] == "bool":
            return self.bool_atom("%s.%s(%s)" % (p, name, ",".join(self.show(a) for a in n[5])))
        if fn is not None:
            # accessor returning a field: self.f / self.f.clone()
            h = self.F.hir.get(callee)
            if h is not None and not n[5]:
                b = H.strip(h["body"])
                pp = H.path_str(b)
                if pp and pp.startswith("self."):
                    return ("path", p + pp[4:])
        return ("path", "%s.%s(%s)" % (p, name, ",".join(self.show(a) for a in n[5])))

    def len_sym(self, p, callee):
        """resolve `x.len()` accessors of local types to the underlying collection: self.len() == self.0.len()"""
        h = self.F.hir.get(callee)
        if h is not None:
            b = H.strip(h["body"])
            if H.is_node(b) and b[0] == "mcall" and b[2] == "len":
                inner = H.path_str(b[4])
                if inner and inner.startswith("self"):
                    inner_callee = b[3] or ""
                    return self.len_sym(canon(p + inner[4:]), inner_callee)
        return p

    def ser_method(self, name, n, sid=0):
        line = n[1]
        if name in SER_ONE:
            key = None
            if n[5]:
                a = self.ev(n[5][0])
                if a[0] == "int" and lconst(a[1]) is not None:
                    key = lconst(a[1])
                elif a[0] == "str":
                    key = a[1]
                elif a[0] == "opt" and a[1] is not None and a[1][0] == "int":
                    key = lconst(a[1][1])
            dsc = None
            if n[5]:
                a0 = self.ev(n[5][0]) if key is None else None
                if a0 is not None and a0[0] in ("path", "somepath"):
                    dsc = canon(a0[1])
            self.item(lin(1), key, line, sid, desc=dsc)
        elif name == "write_special":
            a = self.ev(n[5][0])
            if a == ("special", "Break"):
                self.brk(line, sid)
            else:
                self.item(lin(1), None, line, sid)
        elif name in ("write_array", "write_map"):
            a = self.ev(n[5][0])
            if a[0] != "len":
                raise Underivable("%s with a length of unknown shape at line %d" % (name, line))
            self.open("array" if name == "write_array" else "map", a[1], line, sid)
        elif name == "write_tag":
            a = self.ev(n[5][0])
            self.pending_tag = lconst(a[1]) if a[0] == "int" else "?"
            self.tags.append(self.pending_tag if self.pending_tag is not None else "?")
        elif name in ("write_array_sz", "write_map_sz", "write_unsigned_integer_sz", "write_negative_integer_sz", "write_bytes_sz", "write_text_sz", "write_tag_sz"):
            self.problems.append(("W-min", "explicit-size writer %s at line %d (non-canonical encodings possible)" % (name, line), line))
            if name in ("write_array_sz", "write_map_sz"):
                a = self.ev(n[5][0])
                self.open("array" if "array" in name else "map", a[1] if a[0] == "len" else "indef", line, sid)
            elif name != "write_tag_sz":
                self.item(lin(1), None, line, sid)
        elif name in ("serialize",):
            self.item(lin(1), None, line, sid)
        elif name == "finalize":
            return ("opaque", "finalize()")
        elif name == "as_mut_ref":
            pass
        else:
            raise Underivable("serializer method %s at line %d" % (name, line))
        return ("ser", sid)

    def call_with_ser(self, callee, recv, arg_nodes, args, line, method=None):
        """a call that receives the serializer: trait serialize -> 1 item; embedded group -> summary; local helper -> inline"""
        F = self.F
        sid = 0
        for a in args:
            if a and a[0] == "ser":
                sid = a[1] if len(a) > 1 else 0
        short = callee.rsplit("::", 1)[-1]
        fn = F.fns.get(callee)
        h = F.hir.get(callee)
        if short == "serialize" and (fn is None or fn.get("impl_trait") in ("cbor_event::Serialize",) or h is None):
            key = None
            d = None
            for a in args:
                if a and a[0] in ("path", "somepath"):
                    d = canon(a[1])
                    break
            if len(args) >= 1 and args[0] and args[0][0] == "int" and lconst(args[0][1]) is not None:
                key = lconst(args[0][1])
            self.item(lin(1), key, line, sid, desc=d)
            return ("ser", sid)
        if short == "serialize_nullable":
            d = None
            for a in args:
                if a and a[0] in ("path", "somepath"):
                    d = canon(a[1])
                    break
            self.item(lin(1), None, line, sid, desc=d)
            return ("ser", sid)
        if callee in SUMMARY_OVERRIDE or self.F.key(callee) in SUMMARY_OVERRIDE:
            self.item(lin(SUMMARY_OVERRIDE.get(callee, SUMMARY_OVERRIDE.get(self.F.key(callee)))[0]), None, line, sid)
            return ("ser", sid)
        if h is None or self.depth >= 5:
            # unknown external callee taking the serializer: assume one item (cbor_event::Serialize of std types)
            self.item(lin(1), None, line, sid)
            self.notes.append("assumed one item for %s" % callee)
            return ("ser", sid)
        if fn is not None and fn.get("impl_trait") == "serialization::traits::SerializeEmbeddedGroup" and callee in self.summaries and self.summaries[callee] is not None:
            self.item(lin(self.summaries[callee]), None, line, sid)
            return ("ser", sid)
        # inline
        sub = Interp(F, callee, self.o, self.depth + 1, self.summaries)
        sub.stacks = self.stacks
        sub.next_sid = self.next_sid
        sub.problems = self.problems
        sub.containers = self.containers
        sub.pending_tag = self.pending_tag
        sub.len_deps = self.len_deps
        sub.notes = self.notes
        sub.tags = self.tags
        sub.zero_roots = self.zero_roots
        params = [H.pat_bindings(p) for p in h["params"]]
        for names, v in zip(params, args):
            for nm in names:
                sub.env[nm] = v
        try:
            sub.ev(h["body"])
        except ReturnNow:
            pass
        self.pending_tag = sub.pending_tag
        return ("ser", sid)


def run_once(F, fid, assignment, base, summaries):
    h = F.hir[fid]
    o = Oracle(assignment, base)
    it = Interp(F, fid, o, 0, summaries)
    for pat, ty in zip(h["params"], h["ptys"]):
        for nm in H.pat_bindings(pat):
            it.env[nm] = ("ser", 0) if "cbor_event::se::Serializer<" in ty else ("path", nm)
    ok = True
    try:
        it.ev(h["body"])
    except ReturnNow as r:
        if r.err:
            return None, o, it
    # unclosed containers (every serializer instance)
    for sid, stack in it.stacks.items():
        while len(stack) > 1:
            top = stack.pop()
            if top.declared == "indef":
                it.problems.append(("W-len", "indefinite %s opened at line %d is never closed with Break" % (top.kind, top.line), top.line))
            else:
                it.problems.append(("W-len", "%s opened at line %d declares %s %s but %s items are written" % (top.kind, top.line, lstr(top.declared), "entries" if top.kind == "map" else "items", lstr(top.count) if top.kind != "map" else lstr(top.count) + " (2 per entry)"), top.line))
            it.containers.append({"kind": top.kind, "declared": top.declared if top.declared == "indef" else lstr(top.declared), "keys": top.keys, "vals": top.vals, "items": top.items, "tag": top.tag, "line": top.line, "depth": top.depth, "sid": top.sid})
            stack[-1].count = ladd(stack[-1].count, lin(1))
    # local serializers must hold exactly one complete item when they are finalised
    for sid, stack in it.stacks.items():
        if sid != 0 and not leq(it.zsub(stack[0].count), lin(1)):
            it.problems.append(("W-one", "local serializer created at line %d holds %s top-level items" % (stack[0].line, lstr(stack[0].count)), stack[0].line))
    t0 = it.stacks[0][0]
    it.containers.append({"kind": "top", "declared": lstr(t0.count), "keys": [], "vals": [], "items": t0.items, "tag": None, "line": 0, "depth": 0, "sid": 0})
    return it.stacks[0][0].count, o, it


def analyse(F, fid, summaries, max_runs=20000, pairwise=False):
    """Enumerate the presence domain. -> dict(status, runs, top_counts, problems[(rule,msg,state)], containers, atoms)"""
    discovered = {}
    runs = [({}, 0), ({}, 1)]
    done = set()
    res = {"status": "ok", "runs": 0, "top": set(), "problems": {}, "containers": [], "atoms": {}, "notes": set(), "tags": set()}
    groups_done = set()
    sel_done = False
    while True:
        if not runs and pairwise and not res.get("pairwise") and res["status"] == "ok":
            # thorough: every pair of atom groups crossed exhaustively (interactions between two fields), both baselines
            byg2 = defaultdict(list)
            for a in discovered:
                byg2[group_of(a)].append(a)
            gs = sorted(g for g in byg2 if not g.startswith("sel:"))
            for i in range(len(gs)):
                for j in range(i + 1, len(gs)):
                    atoms = sorted(byg2[gs[i]]) + sorted(byg2[gs[j]])
                    if len(atoms) > 8:
                        continue
                    for combo in itertools.product(*[discovered[a] for a in atoms]):
                        for b in (0, 1):
                            runs.append((dict(zip(atoms, combo)), b))
            res["pairwise"] = True
        if not runs:
            break
        assignment, base = runs.pop()
        key = (tuple(sorted(assignment.items())), base)
        if key in done:
            continue
        done.add(key)
        if len(done) > max_runs:
            res["status"] = "underivable"
            res["why"] = "more than %d abstract states" % max_runs
            break
        try:
            top, o, it = run_once(F, fid, assignment, base, summaries)
        except Underivable as e:
            res["status"] = "underivable"
            res["why"] = str(e)
            return res
        except RecursionError:
            res["status"] = "underivable"
            res["why"] = "recursion"
            return res
        res["runs"] += 1
        for a, dom in o.asked.items():
            discovered.setdefault(a, dom)
        if top is not None:
            res["top"].add(lstr(top))
            state = {a: (assignment[a] if a in assignment else (discovered[a][-1] if base else discovered[a][0])) for a in sorted(o.asked)}
            for rule, msg, line in it.problems:
                k = (rule, line)
                w = sum(1 for v in state.values() if v is True)
                if k not in res["problems"] or w < res["problems"][k][2]:
                    res["problems"][k] = (msg, state, w)
            vsel = {a: v for a, v in state.items() if a.startswith("variant:")}
            tstate = sorted(a for a, v in state.items() if v is True)
            fstate = sorted(a for a, v in state.items() if v is False)
            for c in it.containers:
                c = dict(c, variants=vsel)
                if c["kind"] == "map" and c.get("depth") == 1 and c.get("sid", 0) == 0:
                    c["true_atoms"] = tstate
                    c["false_atoms"] = fstate
                if c not in res["containers"]:
                    res["containers"].append(c)
            for tg in it.tags:
                res["tags"].add(tg)
            res["notes"] |= set(it.notes)
        # schedule: each group exhaustively x baselines x selector product
        byg = defaultdict(list)
        for a in discovered:
            byg[group_of(a)].append(a)
        sels = sorted(a for g, L in byg.items() if g.startswith("sel:") for a in L)
        cross = len(sels) <= 3
        sel_combos = list(itertools.product(*[discovered[a] for a in sels])) if cross else [None]
        sel_alone = list(itertools.product(*[discovered[a] for a in sels])) if len(sels) <= 10 else []
        for g, atoms in byg.items():
            if g.startswith("sel:"):
                continue
            sig = (g, tuple(sorted(atoms)), tuple(sels))
            if sig in groups_done:
                continue
            groups_done.add(sig)
            for combo in itertools.product(*[discovered[a] for a in sorted(atoms)]):
                for sc in sel_combos:
                    for b in (0, 1):
                        asg = dict(zip(sorted(atoms), combo))
                        if sc is not None:
                            asg.update(dict(zip(sels, sc)))
                        runs.append((asg, b))
        sig = ("sel", tuple(sels))
        if sig not in groups_done:
            groups_done.add(sig)
            for sc in sel_alone:
                for b in (0, 1):
                    runs.append((dict(zip(sels, sc)), b))
            res["selector_product_crossed_with_groups"] = cross
    res["atoms"] = {a: list(d) for a, d in discovered.items()}
    return res
