"""C09 — script-integrity and auxiliary-data hashes match what is emitted (sibling agreement, shared encoders, def-use)."""
import common
import facts
import fieldflow as ff
import hirq as H
import bodyorigins
from mustpass import call_origin, field_origin, has_origin
from ruleutil import find_fn, fields_read

TB = "builders::tx_builder::TransactionBuilder"

EXPLANATION = (
    "The hash the builder stores and the witness set it emits are computed by sibling functions; they can only agree if the siblings "
    "agree structurally, which is decided for all script uses: (SIB-sources) calc_script_data_hash and get_combined_plutus_scripts "
    "call the same per-source producers (inputs, collateral, mint, certificates, withdrawals, votes, proposals) and both obtain "
    "(scripts, datums, redeemers) through PlutusWitnesses::collect; both read every field of the coverage matrix; (SIB-datums) extra "
    "datums are merged into the hashed list and into the emitted list by the same PlutusList operations; (LANGS) every source's "
    "used-language set feeds the retained cost models; (PREIMAGE) hash_script_data concatenates redeemers.to_bytes(), "
    "datums.to_set_bytes() and language_views_encoding() in that order (A0 | datums | A0 when there are datums but no redeemers) "
    "and hashes with blake2b256; (ENC-same) to_set_bytes and the witness-set writer both go through PlutusList::serialize_as_set, "
    "and Redeemers::to_bytes is the Serialize impl the witness writer calls; (STORE) the stored script_data_hash is the result of "
    "hash_script_data on the collected redeemers / datums; (AUX) the body's auxiliary_data_hash is hash_auxiliary_data of the same "
    "builder field that build_tx_unsafe attaches, and hash_auxiliary_data is blake2b256 of to_bytes(). Not decided: equality of the "
    "two byte strings under de-duplication and definite/indefinite choices inside the shared encoder (value level; the length "
    "bookkeeping of serialize_as_set is C01's W-coll rule); the language-view bytes."
)

PRODUCERS = ("get_plutus_input_scripts", "get_plutus_witnesses")


def producer_set(F, fid):
    out = set()
    for sub in [fid] + [c for c in F.fns if c.startswith(fid + "::{closure")]:
        for c in F.calls(sub):
            to = c.to or ""
            if to.rsplit("::", 1)[-1] in PRODUCERS and "builders::" in to:
                out.add(F.key(to) if to in F.fns else to)
    return out


def check(rep, F, tier, replay=None):
    rep.rule("SIB-sources", "calc_script_data_hash and get_combined_plutus_scripts call the same per-source Plutus witness producers; both go through PlutusWitnesses::collect")
    a = find_fn(rep, F, "TransactionBuilder::calc_script_data_hash")
    b = find_fn(rep, F, "TransactionBuilder::get_combined_plutus_scripts")
    w = find_fn(rep, F, "TransactionBuilder::get_witness_set")
    if a and b and w:
        pa, pb = producer_set(F, a), producer_set(F, b)
        rep.inst("SIB-sources")
        rep.floor("per-source Plutus witness producers", 6, len(pb))
        if pa != pb:
            rep.violation("SIB-sources", "producers", "calc_script_data_hash collects Plutus witnesses from %s but the emitted witness set from %s: the hash would not cover (or would over-cover) what is emitted" % (sorted(pa - pb) or "-", sorted(pb - pa) or "-"), {"hash_only": sorted(pa - pb), "witness_only": sorted(pb - pa)})
        else:
            rep.sample({"rule": "SIB-sources", "producers": sorted(pa)})
        for fid, nm in ((a, "calc_script_data_hash"), (w, "get_witness_set")):
            rep.inst("SIB-sources")
            if not any((c.to or "").endswith("PlutusWitnesses::collect") for c in F.calls(fid)):
                rep.violation("SIB-sources", nm + "|collect", "%s no longer obtains scripts/datums/redeemers through PlutusWitnesses::collect" % nm, {})
        rep.inst("SIB-sources")
        if not any((c.to or "").endswith("get_combined_plutus_scripts") for c in F.calls(w)):
            rep.violation("SIB-sources", "get_witness_set|combined", "get_witness_set no longer uses get_combined_plutus_scripts", {})
        # matrix rows
        mat = common.load_table("c18_matrix.json")["rows"]
        rep.rule("MATRIX", "both siblings read every builder field of the coverage matrix")
        for key in ("TransactionBuilder::calc_script_data_hash", "TransactionBuilder::get_witness_set"):
            fid = F.by_key(key)[0]
            got = fields_read(F, fid, depth=3)
            for f in mat[key]["must"]:
                rep.inst("MATRIX")
                if (TB, f) not in got:
                    rep.violation("MATRIX", "%s|%s" % (key, f), "%s no longer reads TransactionBuilder.%s" % (key, f), {})
        # SIB-datums
        rep.rule("SIB-datums", "extra datums are merged by the same PlutusList operations on both sides")
        sa = sorted({c.to.rsplit("::", 1)[1] for c in F.calls(a) if c.to and "plutus_data::PlutusList::" in c.to})
        sw = sorted({c.to.rsplit("::", 1)[1] for c in F.calls(w) if c.to and "plutus_data::PlutusList::" in c.to})
        rep.inst("SIB-datums")
        if sa != sw:
            rep.violation("SIB-datums", "plutuslist-ops", "calc_script_data_hash uses PlutusList::%s but get_witness_set uses PlutusList::%s: the hashed datum list and the emitted one can differ (e.g. a datum skipped on one side only)" % (sa, sw), {})
        # LANGS
        rep.rule("LANGS", "every Plutus source contributes its used language versions to the retained cost models")
        langs = {F.key(c.to).split("::")[0] for c in F.calls(a) if (c.to or "").endswith("get_used_plutus_lang_versions")}
        prods = {p.split("::")[0] for p in pa}
        rep.inst("LANGS")
        if langs != prods:
            rep.violation("LANGS", "sources", "language versions are collected from %s but witnesses from %s" % (sorted(langs), sorted(prods)), {})
        # STORE
        rep.rule("STORE", "script_data_hash := hash_script_data(collected redeemers, retained cost models, collected datums)")
        ffs = ff.FnFields(F, a)
        org = ff.Origins(F, a)
        st = ffs.stores_to(TB, "script_data_hash")
        rep.inst("STORE")
        if not st:
            rep.violation("STORE", "missing", "calc_script_data_hash no longer stores script_data_hash", {})
        else:
            import p_c04
            o = p_c04._origins_any(org, st[0][4])
            if not has_origin(o, call_origin("utils::hash_script_data")) or not has_origin(o, call_origin("PlutusWitnesses::collect")):
                rep.violation("STORE", "origin", "the stored script_data_hash is not hash_script_data applied to the collected witnesses", {"origins": sorted(o)[:12]})
    # PREIMAGE
    rep.rule("PREIMAGE", "hash_script_data: [redeemers | datums-as-set | language views] (A0 | datums | A0 without redeemers), blake2b256")
    fid = find_fn(rep, F, "utils::hash_script_data")
    if fid:
        hir = F.hir[fid]
        rep.inst("PREIMAGE")
        # evaluate the function on the four states (redeemers empty?, datums present?): the sequence of buffer appends per state
        class _Shape(Exception):
            pass
        pnames = [nm for p_ in hir["params"] for nm in H.pat_bindings(p_)]
        RED, DAT = (pnames + ["redeemers", "cost_models", "datums"])[0], (pnames + ["redeemers", "cost_models", "datums"])[2]

        def cond_(c, st):
            c = H.strip(c)
            if not H.is_node(c):
                raise _Shape("condition")
            if c[0] == "binary" and c[2] in ("And", "Or"):
                a = cond_(c[3], st)
                if c[2] == "And":
                    return a and cond_(c[4], st)
                return a or cond_(c[4], st)
            if c[0] == "unary" and c[2] == "Not":
                return not cond_(c[3], st)
            if c[0] == "mcall" and not c[5] and H.path_str(c[4], st["env"]) in (DAT,) and c[2] in ("is_some", "is_none"):
                return st["D"] == (c[2] == "is_some")
            if c[0] == "mcall" and not c[5] and H.path_str(c[4], st["env"]) == RED and c[2] == "is_empty":
                return st["E"]
            if c[0] == "binary" and c[2] in ("Eq", "Ne", "Gt") and H.is_node(H.strip(c[3])) and H.strip(c[3])[0] == "mcall" and H.strip(c[3])[2] == "len" and H.path_str(H.strip(c[3])[4], st["env"]) == RED and H.lit_int(c[4]) == 0:
                return st["E"] if c[2] == "Eq" else not st["E"]
            raise _Shape("condition %s" % c[0])

        def seq_(n, st, out):
            n_ = n
            if not H.is_node(n_):
                return
            k = n_[0]
            if k == "block":
                for s_ in n_[2]:
                    for part in ([s_[3], s_[4]] if s_[0] == "let" else [s_[2]]):
                        if part is not None:
                            seq_(part, st, out)
                if n_[3] is not None:
                    seq_(n_[3], st, out)
                return
            if k == "if":
                c = n_[2]
                if H.is_node(c) and c[0] == "letx":
                    ip = H.path_str(c[3], st["env"])
                    v = H.pat_variant(c[2]) or ""
                    if ip != DAT or not v.endswith(("Some", "None")):
                        raise _Shape("if let on %s" % ip)
                    take = st["D"] == v.endswith("Some")
                    if take:
                        st2 = dict(st, env=dict(st["env"], **{b: DAT for b in H.pat_bindings(c[2])}))
                        seq_(n_[3], st2, out)
                    elif n_[4] is not None:
                        seq_(n_[4], st, out)
                    return
                if cond_(c, st):
                    seq_(n_[3], st, out)
                elif n_[4] is not None:
                    seq_(n_[4], st, out)
                return
            if k == "match":
                ip = H.path_str(n_[2], st["env"])
                if ip != DAT:
                    raise _Shape("match on %s" % ip)
                for pat, g, b in n_[3]:
                    v = H.pat_variant(pat) or ""
                    hit = H.pat_is_wild(pat) or (v.endswith("Some") and st["D"]) or (v.endswith("None") and not st["D"])
                    if not hit:
                        continue
                    st2 = dict(st, env=dict(st["env"], **{x: DAT for x in H.pat_bindings(pat)}))
                    if g is not None and not cond_(g, st2):
                        continue
                    seq_(b, st2, out)
                    return
                raise _Shape("no arm taken")
            if k in ("for", "loop", "closure"):
                raise _Shape("loop / closure")
            if k == "mcall" and n_[2] in ("push", "extend", "extend_from_slice", "append") and H.path_str(n_[4], st["env"]) == "buf":
                arg = H.strip(n_[5][0])
                if n_[2] == "push":
                    out.append("push:%s" % H.lit_int(arg))
                else:
                    nm = arg[2] if H.is_node(arg) and arg[0] == "mcall" else "?"
                    out.append("extend:%s(%s)" % (nm, H.path_str(arg[4], st["env"]) if H.is_node(arg) and arg[0] == "mcall" else "?"))
                return
            for c_ in H.children(n_):
                seq_(c_, st, out)
        ok = True
        detail = {}
        shape_err = None
        CM = (pnames + ["redeemers", "cost_models", "datums"])[1]
        for E_ in (True, False):
            for D_ in (True, False):
                out_ = []
                try:
                    seq_(hir["body"], {"E": E_, "D": D_, "env": {}}, out_)
                except _Shape as ex:
                    shape_err = str(ex)
                    break
                want_ = ["push:160", "extend:to_set_bytes(%s)" % DAT, "push:160"] if (E_ and D_) else ["extend:to_bytes(%s)" % RED] + (["extend:to_set_bytes(%s)" % DAT] if D_ else []) + ["extend:language_views_encoding(%s)" % CM]
                detail["redeemers %s, datums %s" % ("empty" if E_ else "present", "present" if D_ else "absent")] = out_
                if out_ != want_:
                    ok = False
        if shape_err:
            rep.lost("hash_script_data is outside the fragment PREIMAGE evaluates (%s)" % shape_err)
        elif not ok:
            rep.violation("PREIMAGE", "shape", "hash_script_data's preimage is no longer [redeemers | datums | language views] / [A0 | datums | A0]: %s" % detail, {})
        else:
            rep.sample({"rule": "PREIMAGE", "sequence": detail})
        rep.inst("PREIMAGE")
        org = ff.Origins(F, fid)
        o = org.of_place("_0")
        if not has_origin(o, call_origin("blake2b256")):
            rep.violation("PREIMAGE", "hash", "hash_script_data does not return blake2b256 of the buffer", {})
    # ENC-same
    rep.rule("ENC-same", "hash preimage and witness-set writer share the encoders: PlutusList::serialize_as_set and <Redeemers as Serialize>::serialize")
    ts = find_fn(rep, F, "PlutusList::to_set_bytes")
    ws = find_fn(rep, F, "serialization::witnesses::transaction_witnesses_set::serialize")
    if ts and ws:
        rep.inst("ENC-same")
        if not any(F.key(c.to or "") == "PlutusList::serialize_as_set" for c in F.calls(ts)):
            rep.violation("ENC-same", "to_set_bytes", "PlutusList::to_set_bytes no longer encodes through serialize_as_set", {})
        if not any(F.key(c.to or "") == "PlutusList::serialize_as_set" for c in F.calls(ws)):
            rep.violation("ENC-same", "witness-writer-datums", "the witness-set writer no longer encodes plutus_data through PlutusList::serialize_as_set", {})
        rep.inst("ENC-same")
        rser = "<Redeemers as cbor_event::Serialize>::serialize"
        rb = F.by_key("Redeemers::to_bytes")
        if not rb or not any(F.key(c.to or "") == rser for c in F.calls(rb[0])):
            rep.violation("ENC-same", "redeemers-to_bytes", "Redeemers::to_bytes does not call the Serialize impl", {})
        if not any(F.key(c.to or "") == rser for c in F.calls(ws)):
            rep.violation("ENC-same", "witness-writer-redeemers", "the witness-set writer does not call <Redeemers as Serialize>::serialize", {})
    # AUX
    rep.rule("AUX", "auxiliary_data_hash = hash_auxiliary_data(TransactionBuilder.auxiliary_data); the same field is attached by build_tx_unsafe; hash_auxiliary_data = blake2b256(to_bytes())")
    bodyorigins.check(rep, F, only=["auxiliary_data_hash", "script_data_hash"])
    fid = find_fn(rep, F, "TransactionBuilder::build_tx_unsafe")
    if fid:
        rep.inst("AUX")
        ffs = ff.FnFields(F, fid)
        org = ff.Origins(F, fid)
        TX = "Transaction"
        aggs = [x for x in ffs.aggs if x[0] == "Transaction" or x[0].endswith("::Transaction")]
        if len(aggs) != 1:
            rep.lost("Transaction literal in build_tx_unsafe")
        else:
            adt = aggs[0][0]
            names = [f["name"] for f in F.adts[adt]["variants"][0]["fields"]]
            o = org.of_operand(aggs[0][5][names.index("auxiliary_data")])
            if not has_origin(o, field_origin(TB, "auxiliary_data")):
                rep.violation("AUX", "attached", "build_tx_unsafe does not attach TransactionBuilder.auxiliary_data", {})
            ob = org.of_operand(aggs[0][5][names.index("body")])
            if not has_origin(ob, call_origin("TransactionBuilder::build")):
                rep.violation("AUX", "body", "build_tx_unsafe's body is not self.build()", {})
            ow = org.of_operand(aggs[0][5][names.index("witness_set")])
            if not has_origin(ow, call_origin("get_witness_set")):
                rep.violation("AUX", "witness_set", "build_tx_unsafe's witness set is not get_witness_set()", {})
    fid = find_fn(rep, F, "utils::hash_auxiliary_data")
    if fid:
        rep.inst("AUX")
        o = ff.Origins(F, fid).of_place("_0")
        if not (has_origin(o, call_origin("blake2b256")) and has_origin(o, call_origin("AuxiliaryData::to_bytes"))):
            rep.violation("AUX", "hash_auxiliary_data", "hash_auxiliary_data is not blake2b256(auxiliary_data.to_bytes())", {})
    # SIB-dedup: the hash side writes de-duplicated *views*, the emitted witness set holds de-duplicated *clones*: same equivalence
    import re
    PR = re.compile(r"(BTreeSet|HashSet|BTreeMap|HashMap|LinkedHashMap|LinkedHashSet).*::(insert|contains|contains_key|entry)$|slice::<impl \[T\]>::contains$|Vec::<T, A>::(dedup|dedup_by|dedup_by_key)$|Iterator::(any|position|find)$")
    rep.rule("SIB-dedup", "deduplicated_view (what is hashed / written in set form) and deduplicated_clone (what the witness set holds) of PlutusList, NativeScripts and PlutusScripts de-duplicate with the same primitive (an ordered-set insert over the element's Ord, which for datums includes the preserved original bytes)")
    for T in ("PlutusList", "NativeScripts", "PlutusScripts"):
        prim = {}
        for m in ("deduplicated_view", "deduplicated_clone"):
            ids = F.by_key("%s::%s" % (T, m))
            if len(ids) != 1:
                rep.lost("%s::%s not found" % (T, m))
                continue
            cs = set()
            for sub in [ids[0]] + [c for c in F.fns if c.startswith(ids[0] + "::{closure")]:
                for c in F.calls(sub):
                    if c.to and PR.search(c.to):
                        cs.add(c.to)
            if m == "deduplicated_clone" and not cs and any(F.key(c.to or "").endswith("%s::deduplicated_view" % T) for sub in [ids[0]] + [c2 for c2 in F.fns if c2.startswith(ids[0] + "::{closure")] for c in F.calls(sub)):
                cs = set(prim.get("deduplicated_view", set()))  # the clone is built from the view: the same primitive by construction
            prim[m] = cs
        if len(prim) == 2:
            rep.inst("SIB-dedup")
            if prim["deduplicated_view"] != prim["deduplicated_clone"] or not prim["deduplicated_view"]:
                rep.violation("SIB-dedup", "%s" % T, "%s::deduplicated_view de-duplicates with %s but deduplicated_clone with %s: the hashed / set-form list and the emitted witness list can differ in which elements they keep (e.g. two datums equal as values but with different preserved bytes)" % (T, sorted(H.short(x) for x in prim["deduplicated_view"]) or "nothing", sorted(H.short(x) for x in prim["deduplicated_clone"]) or "nothing"), {})
            elif not all("BTreeSet" in x for x in prim["deduplicated_view"]):
                rep.violation("SIB-dedup", "%s|unordered" % T, "%s de-duplicates with %s instead of an ordered-set insert" % (T, sorted(prim["deduplicated_view"])), {})
    # SIB-lang: languages are counted over the witnesses that are emitted
    import hirq as H_
    rep.rule("SIB-lang", "TxInputsBuilder::get_used_plutus_lang_versions and get_plutus_input_scripts judge a registered witness by the same condition - its input is still a script input of the builder (both read TxInputsBuilder.inputs): a witness left behind by an input that was added again as a key input contributes no script and therefore no language view")
    a_ = find_fn(rep, F, "TxInputsBuilder::get_used_plutus_lang_versions")
    b_ = find_fn(rep, F, "TxInputsBuilder::get_plutus_input_scripts")
    if a_ and b_:
        rep.inst("SIB-lang")
        TIB_ = [x for x in F.adts if x.endswith("tx_inputs_builder::TxInputsBuilder")]
        ra_ = {f for ad, f in fields_read(F, a_, depth=2) if ad in TIB_}
        rb_ = {f for ad, f in fields_read(F, b_, depth=2) if ad in TIB_}
        early_ = [n_[0] for n_ in H_.walk(F.hir[a_]["body"]) if n_[0] in ("break", "ret")] if a_ in F.hir else []
        if early_:
            rep.violation("SIB-lang", "TxInputsBuilder::get_used_plutus_lang_versions|early-exit", "get_used_plutus_lang_versions leaves a loop early (%s): witnesses after the first one of a script-hash group are not looked at, so when that first input is no longer a script input the language of the whole group is missing from the language views although a later input of the same script is still spent" % ", ".join(sorted(set(early_))), {})
        if "inputs" not in rb_ or "required_witnesses" not in rb_:
            rep.lost("get_plutus_input_scripts no longer reads inputs and required_witnesses (%s)" % sorted(rb_))
        elif "inputs" not in ra_:
            rep.violation("SIB-lang", "TxInputsBuilder::get_used_plutus_lang_versions|inputs", "get_used_plutus_lang_versions walks required_witnesses only (%s) while get_plutus_input_scripts emits a witness only if its input is still a script input: input X added with a PlutusV2 witness and then again as a key input leaves V2 in the language views - script data hash 083d0024.. instead of c03335d2.. for the same emitted witness set" % sorted(ra_), {})
    # LV-order: canonical key order of the language views
    import hirq as H_
    rep.rule("LV-order", "Costmdls::language_views_encoding sorts the language keys with a comparator in which every comparison is ascending (left parameter on the left) - first the encoded key length, then the key itself: the ledger hashes the language views as a canonically ordered map (shorter key first, then bytewise)")
    fid_ = find_fn(rep, F, "Costmdls::language_views_encoding")
    if fid_ and fid_ in F.hir:
        comps = []
        for m_ in H_.walk(F.hir[fid_]["body"]):
            if m_[0] == "mcall" and m_[2] in ("sort_by", "sort_unstable_by") and m_[5] and H_.is_node(m_[5][0]) and m_[5][0][0] == "closure":
                comps.append(m_[5][0])
        if len(comps) != 1:
            rep.lost("language_views_encoding: expected one comparator closure, found %d" % len(comps))
        else:
            cl_ = comps[0]
            ps_ = [H_.pat_bindings(p_) for p_ in cl_[3]]
            if len(ps_) != 2 or len(ps_[0]) != 1 or len(ps_[1]) != 1:
                rep.lost("language_views_encoding: comparator parameters not understood")
            else:
                p1_, p2_ = ps_[0][0], ps_[1][0]

                def used_(e_):
                    return {x_[2][1] for x_ in H_.walk(e_) if x_[0] == "path" and isinstance(x_[2], list) and x_[2][0] == "local" and x_[2][1] in (p1_, p2_)}
                cmps_ = [x_ for x_ in H_.walk(cl_[4]) if x_[0] == "mcall" and x_[2] in ("cmp", "partial_cmp") and x_[5]]
                rep.inst("LV-order")
                if len(cmps_) < 2:
                    rep.violation("LV-order", "comparisons|%d" % len(cmps_), "the language-view comparator makes %d comparison(s); canonical order needs the encoded length first and the key as tie-break (PlutusV1's key is 2 bytes, V2 / V3 are 1 byte)" % len(cmps_), {})
                for x_ in cmps_:
                    l_, r_ = used_(x_[4]), used_(x_[5][0])
                    if l_ != {p1_} or r_ != {p2_}:
                        what_ = "length" if any(c_[0] == "call" for c_ in H_.walk(x_[4])) else "key"
                        rep.violation("LV-order", "descending|%s" % what_, "the language-view comparator compares the %s with the operands swapped (%s against %s): keys of equal length come out in descending order, so a transaction using PlutusV2 and PlutusV3 together gets language views `{02:.., 01:..}` and a script-data hash the ledger does not derive" % (what_, sorted(l_), sorted(r_)), {})
    # SIB-order: the hash and the emitted witness set walk the sub-builders in the same order
    rep.rule("SIB-order", "TransactionBuilder::calc_script_data_hash (what is hashed) and TransactionBuilder::get_combined_plutus_scripts (what get_witness_set emits and fake_full_tx sizes) visit the witness sources of the builder - inputs, collateral, mint, certs, withdrawals, voting_procedures, voting_proposals - in the same order (order of first mention of self.<field> in the HIR): redeemers and first-seen datums are collected in visiting order, so a different order makes the emitted redeemers / datums differ from the bytes behind script_data_hash although every count, size and fee agrees")
    SRC_ = ("inputs", "collateral", "mint", "certs", "withdrawals", "voting_procedures", "voting_proposals")

    def order_(fid__):
        out = []
        for n__ in H.walk(F.hir[fid__]["body"]):
            if n__[0] == "field":
                p__ = H.path_str(n__)
                if p__ and p__.startswith("self.") and p__.count(".") == 1 and p__.split(".")[1] in SRC_ and p__.split(".")[1] not in out:
                    out.append(p__.split(".")[1])
        return out
    a__ = find_fn(rep, F, "TransactionBuilder::calc_script_data_hash")
    b__ = find_fn(rep, F, "TransactionBuilder::get_combined_plutus_scripts")
    if a__ and b__ and a__ in F.hir and b__ in F.hir:
        oa, ob = order_(a__), order_(b__)
        rep.inst("SIB-order")
        if len(oa) < 5 or len(ob) < 5:
            rep.lost("calc_script_data_hash / get_combined_plutus_scripts no longer mention the witness sources directly (%s / %s)" % (oa, ob))
        else:
            common_ = [x for x in oa if x in ob]
            if common_ != [x for x in ob if x in oa] or set(oa) != set(ob):
                rep.violation("SIB-order", "%s|%s" % (",".join(oa), ",".join(ob)), "calc_script_data_hash collects the Plutus witnesses in the order %s, get_combined_plutus_scripts (emitted witness set, size / fee estimate) in the order %s: with a Plutus mint next to a Plutus certificate or withdrawal the emitted redeemers (and first-seen datums) are ordered differently from the bytes that were hashed into script_data_hash" % (oa, ob), {})
    return rep.finish(
        EXPLANATION,
        ["PlutusWitnesses::collect de-duplicates with ordered sets (C18 DEDUP rule)", "language views encoding follows the ledger (not checked: a frozen byte fragment would be brittle)"],
        ["rustc MIR/HIR (csl-facts)", "tables/c18_matrix.json", "tables/body_origins.json"],
    )
