"""BODY-origin: each field of the TransactionBody literal in TransactionBuilder::build_and_size comes from the audited
builder field / builder call (tables/body_origins.json)."""
import common
import fieldflow as ff

TB = "builders::tx_builder::TransactionBuilder"
TBODY = "protocol_types::transaction_body::TransactionBody"


def field_origins(F, fid, org, op):
    o = org.of_operand(op)
    calls = set()
    for c in o:
        if c.startswith("call:"):
            calls.add(c[5:].split("@")[0])
        if c.startswith("closure:"):
            cid = c[8:]
            if cid in F.fns:
                for k in F.calls(cid):
                    if k.to:
                        calls.add(k.to)
    fields = {c.split(".")[-1] for c in o if c.startswith("field:" + TB + ".")}
    return fields, calls


def check(rep, F, only=None):
    tab = common.load_table("body_origins.json")["fields"]
    rep.rule("BODY-origin", "each field of the emitted TransactionBody is computed from the audited builder field through the audited builder call (e.g. mint through the validating MintBuilder::build)")
    ids = F.by_key("TransactionBuilder::build_and_size")
    if len(ids) != 1:
        rep.lost("TransactionBuilder::build_and_size not found")
        return
    fid = ids[0]
    ffs = ff.FnFields(F, fid)
    org = ff.Origins(F, fid)
    aggs = ffs.aggregates_of(TBODY)
    if len(aggs) != 1:
        rep.lost("expected one TransactionBody literal in build_and_size, found %d" % len(aggs))
        return
    names = [f["name"] for f in F.adts[TBODY]["variants"][0]["fields"]]
    for fname, op in zip(names, aggs[0][5]):
        if fname not in tab or (only and fname not in only):
            continue
        want = tab[fname]
        rep.inst("BODY-origin")
        fields, calls = field_origins(F, fid, org, op)
        for f in want["fields"]:
            if f not in fields:
                rep.violation("BODY-origin", "%s|field|%s" % (fname, f), "the body's `%s` is no longer computed from TransactionBuilder.%s" % (fname, f), {"origin_fields": sorted(fields)})
        for c in want["calls"]:
            if not any(x.endswith(c) for x in calls):
                rep.violation("BODY-origin", "%s|call|%s" % (fname, c), "the body's `%s` is no longer produced by %s (%s)" % (fname, c, want.get("why", "the audited producer")), {"origin_calls": sorted(calls)[:12]})
        for c in want.get("forbid", []):
            if any(x.endswith(c) for x in calls):
                rep.violation("BODY-origin", "%s|forbid|%s" % (fname, c), "the body's `%s` is produced through %s: %s" % (fname, c, want.get("why", "")), {})
