"""C20 — deposit / refund helpers agree with the ledger table and with the builder (E7 tables + mustflow + must-read)."""
import json

import common
import e7_tables as e7
import hirq as H
import mustflow

EXPLANATION = (
    "Table agreement decided from the type-checked HIR. The per-certificate deposit and refund tables are extracted from the "
    "`match` over CertificateEnum in the four functions that define them (helper: internal_get_deposit, "
    "internal_get_implicit_input; builder: CertificatesBuilder::get_certificates_deposit / get_certificates_refund): for every "
    "arm, the set of operands handed to checked_add together with the `if let Some(..)` branch they sit in. The four tables must "
    "be pairwise equal and equal the Conway ledger table in tables/c20_ledger.json; wildcard arms must add nothing; every add "
    "must be a checked_add on the accumulator (no raw operator, no other receiver). A flow-sensitive must-flow analysis on MIR "
    "then shows that on every success path the value returned by get_deposit / get_implicit_input (helper and builder) is derived "
    "from each term (certificate deposits, proposal deposits, withdrawals, refunds), and a must-read rule shows the helper reads "
    "TransactionBody.voting_proposals / withdrawals / certs. Overflow-to-error: no function in the set contains an unchecked integer "
    "operator (MIR overflow asserts) and every checked_add error is propagated."
)


def find_fn(rep, F, key):
    ids = F.by_key(key)
    if len(ids) != 1:
        rep.lost("function %s not found (got %d candidates)" % (key, len(ids)))
        return None
    return ids[0]


def check(rep, F, tier, replay=None):
    spec = common.load_table("c20_ledger.json")
    rep.rule("T-cert", "per-certificate table of a deposit/refund function equals the ledger table (variants, operands, branch of the optional explicit amount); wildcard adds nothing; adds are checked_add on the accumulator")
    rep.rule("T-sibling", "helper table == builder table")
    sources = [
        ("helper deposit", "utils::internal_get_deposit", "deposit", ["pool_deposit", "key_deposit"], {"acc"}),
        ("builder deposit", "CertificatesBuilder::get_certificates_deposit", "deposit", ["pool_deposit", "key_deposit"], {"deposit"}),
        ("helper refund", "utils::internal_get_implicit_input", "refund", ["pool_deposit", "key_deposit"], {"acc", "withdrawal_sum"}),
        ("builder refund", "CertificatesBuilder::get_certificates_refund", "refund", ["pool_deposit", "key_deposit"], {"refund"}),
    ]
    tables = {}
    for label, key, which, params, accs in sources:
        fid = find_fn(rep, F, key)
        if fid is None:
            continue
        hir = F.hir.get(fid)
        if hir is None:
            rep.lost("no HIR for %s" % key)
            continue
        table, wild, errs, n = e7.cert_table(F, hir, "CertificateEnum", params, accs)
        if n != 1:
            rep.lost("%s: expected exactly one match over CertificateEnum in %s, found %d" % (label, key, n))
            continue
        tables[label] = table
        want = spec[which]
        rep.inst("T-cert", len(set(want) | set(table)) + 1)
        rep.sample({"function": key, "extracted_table": table})
        for v in sorted(set(want) | set(table)):
            a, b = sorted(table.get(v, [])), sorted(want.get(v, []))
            if a != b:
                if not a:
                    msg = "%s (%s) has no %s term for certificate kind %s; the ledger charges %s" % (key, label, which, v, b)
                elif not b:
                    msg = "%s (%s) counts %s for certificate kind %s; the ledger has no in-transaction %s for it" % (key, label, a, v, which)
                else:
                    msg = "%s (%s): certificate kind %s adds %s, ledger table says %s" % (key, label, v, a, b)
                rep.violation("T-cert", "%s|%s|%s" % (key, which, v), msg, {"function": key, "file": hir["file"], "variant": v, "extracted": a, "ledger": b})
        if wild:
            rep.violation("T-cert", "%s|%s|_" % (key, which), "%s: the wildcard arm adds %s" % (key, wild), {"function": key})
        for e in errs:
            rep.violation("T-cert", "%s|%s|discipline|%s" % (key, which, e.split(" (line")[0]), "%s: %s" % (key, e), {"function": key})
    for a, b in (("helper deposit", "builder deposit"), ("helper refund", "builder refund")):
        if a in tables and b in tables:
            rep.inst("T-sibling")
            if tables[a] != tables[b]:
                rep.violation("T-sibling", "%s-vs-%s" % (a, b), "%s table %s differs from %s table %s" % (a, tables[a], b, tables[b]), {})
    # proposal deposits: fold over proposals adds `.deposit`
    rep.rule("T-proposal", "proposal deposit folds add the proposal's `deposit` with checked_add")
    for key, accs in (("VotingProposalBuilder::get_total_deposit", {"acc"}), ("utils::get_deposit", {"acc", "certificate_deposit"})):
        fid = find_fn(rep, F, key)
        if fid is None:
            continue
        ops, errs = [], []
        e7.operand_env_walk(F.hir[fid]["body"], {}, [], ops, errs, accs)
        rep.inst("T-proposal")
        if not any(o.split("|")[0].endswith((".deposit", ".deposit()")) for o in ops):
            rep.violation("T-proposal", key, "%s does not add a proposal deposit (operands seen: %s)" % (key, ops), {"function": key})
        for e in errs:
            rep.violation("T-proposal", "%s|discipline|%s" % (key, e.split(" (line")[0]), "%s: %s" % (key, e), {"function": key})
    # withdrawals folded with checked_add
    rep.rule("T-withdrawals", "withdrawal totals are folded with checked_add over the withdrawal amounts")
    for key in ("utils::internal_get_implicit_input", "WithdrawalsBuilder::get_total_withdrawals"):
        fid = find_fn(rep, F, key)
        if fid is None:
            continue
        ops, errs = [], []
        e7.operand_env_walk(F.hir[fid]["body"], {}, [], ops, errs, {"acc", "withdrawal_sum", "total", "refund"})
        rep.inst("T-withdrawals")
        if not ops:
            rep.violation("T-withdrawals", key, "%s contains no checked_add" % key, {"function": key})
    # must-flow of every term to the returned total
    mf = common.load_table("mustflow.json")["entries"]
    run_mustflow(rep, F, [e for e in mf if "C20" in e["props"]])
    # must-read of the body fields by the public helpers
    rep.rule("R-read", "the stand-alone helper (transitively) reads the transaction-body field")
    for key, fields in (("utils::get_deposit", ["certs", "voting_proposals"]), ("utils::get_implicit_input", ["withdrawals", "certs"])):
        fid = find_fn(rep, F, key)
        if fid is None:
            continue
        got = fields_read(F, fid)
        for f in fields:
            rep.inst("R-read")
            if ("protocol_types::transaction_body::TransactionBody", f) not in got:
                rep.violation("R-read", "%s|TransactionBody.%s" % (key, f), "%s never reads TransactionBody.%s, so what the body holds there is not reflected in the reported figure" % (key, f), {"function": key, "field": f})
    # overflow-to-error: no unchecked integer operator in the table functions
    rep.rule("A-nochecked", "no compiler overflow/division assert (i.e. no raw + - * /) in the deposit/refund functions or their closures")
    keys = [s[1] for s in sources] + ["utils::get_deposit", "utils::get_implicit_input", "VotingProposalBuilder::get_total_deposit", "TransactionBuilder::get_deposit", "TransactionBuilder::get_implicit_input", "WithdrawalsBuilder::get_total_withdrawals"]
    for key in keys:
        for fid in F.by_key(key):
            for sub in [fid] + [c for c in F.fns if c.startswith(fid + "::{closure")]:
                fn = F.fns[sub]
                rep.inst("A-nochecked")
                for bb in fn["bbs"]:
                    t = bb["t"]
                    if t[1] == "assert" and t[4].split(":")[0] in ("Overflow", "OverflowNeg", "DivisionByZero", "RemainderByZero") and not bb["c"]:
                        rep.violation("A-nochecked", "%s|%s" % (F.key(sub), t[4]), "%s uses an unchecked integer operator (%s) on an amount" % (F.key(sub), t[4]), {"function": sub})
    rep.floor("certificate tables extracted", 4, len(tables))
    return rep.finish(EXPLANATION, ["the ledger table in tables/c20_ledger.json is a correct transcription of the Conway rules", "the explicit-amount fields are named `coin`/`deposit` (resolved field names, checked by the compiler)"], ["rustc HIR/typeck + MIR (csl-facts)", "tables/c20_ledger.json", "tables/mustflow.json"])


def fields_read(F, fid, depth=3):
    """(adt, field) pairs appearing in places of fid and its local callees up to `depth`"""
    import re
    seen = set()
    out = set()
    work = [(fid, 0)]
    while work:
        f, d = work.pop()
        if f in seen or f not in F.fns:
            continue
        seen.add(f)
        fn = F.fns[f]
        txt = json.dumps(fn["bbs"])
        for m in re.finditer(r"f:([^:|\"]+(?:::[^:|\"]+)*):[^:|\"]*:([A-Za-z0-9_]+)", txt):
            out.add((m.group(1), m.group(2)))
        if d < depth:
            for c in F.calls(f):
                if c.info.get("local") and c.to in F.fns:
                    work.append((c.to, d + 1))
            for cl in F.closures_of.get(f, []):
                work.append((cl, d))
    return out


def run_mustflow(rep, F, entries):
    rep.rule("MF", "on every success path, the returned value is derived from the source term (flow-sensitive must-flow on MIR)")
    for e in entries:
        ids = F.by_key(e["fn"])
        if len(ids) != 1:
            rep.lost("mustflow anchor %s not found" % e["fn"])
            continue
        fid = ids[0]
        ff = mustflow.FnFlow(F, fid)
        for src in e["sources"]:
            rep.inst("MF")
            if src.startswith("arg:"):
                res = ff.run(("arg", int(src[4:])))
                sites = [None]
                allres = [res]
            else:
                cs = mustflow.find_calls(F, fid, lambda to, c: to.endswith(src) or F.key(to) .endswith(src) if to in F.fns else to.endswith(src))
                if not cs:
                    rep.violation("MF", "%s|%s|missing" % (e["fn"], src), "%s no longer calls %s: the term it contributed (%s) is missing from the total" % (e["fn"], src, e.get("what", "")), {"function": e["fn"], "source": src})
                    continue
                allres = [ff.run(("call", c.bb)) for c in cs]
            for res in allres:
                bad = [r for r in res if not r["ok"]]
                if not res:
                    rep.violation("MF", "%s|%s|noreturn" % (e["fn"], src), "%s: no success return is reachable after computing %s" % (e["fn"], src), {"function": e["fn"], "source": src})
                elif bad:
                    import facts
                    where = ", ".join(facts.loc_str(r["loc"], F.fns[fid]) for r in bad)
                    rep.violation("MF", "%s|%s" % (e["fn"], src), "%s: the value returned at %s is not derived from %s on some path (term dropped or accumulator overwritten) — %s" % (e["fn"], where, src, e.get("what", "")), {"function": e["fn"], "source": src, "returns": bad})
                else:
                    rep.sample({"mustflow": e["fn"], "source": src, "success_returns_checked": len(res)})
